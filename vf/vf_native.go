//go:build !vfsym

// Package vf is the harness vocabulary of /verif. This file holds the native bodies used when a
// counterexample found by the symbolic executor is replayed against the real build: inputs come
// from the JSON file named by VERIF_CEX, assertions fail the test.
package vf

import (
	"encoding/json"
	"fmt"
	"os"
	"reflect"
	"runtime"
	"strings"
	"sync"
	"testing"
	"time"
)

type cexFile struct {
	Inputs map[string]json.RawMessage `json:"inputs"`
}

var (
	mu     sync.Mutex
	inputs map[string]json.RawMessage
	loaded bool
)

type assumeFalse struct{}
type assertFail struct{ id string }

func load() {
	mu.Lock()
	defer mu.Unlock()
	if loaded {
		return
	}
	loaded = true
	inputs = map[string]json.RawMessage{}
	p := os.Getenv("VERIF_CEX")
	if p == "" {
		return
	}
	b, err := os.ReadFile(p)
	if err != nil {
		fmt.Println("VF-NO-CEX", err)
		return
	}
	var c cexFile
	if err := json.Unmarshal(b, &c); err != nil {
		fmt.Println("VF-BAD-CEX", err)
		return
	}
	inputs = c.Inputs
}

func num(label string) uint64 {
	load()
	raw, ok := inputs[label]
	if !ok {
		return 0
	}
	var u uint64
	if err := json.Unmarshal(raw, &u); err == nil {
		return u
	}
	var i int64
	if err := json.Unmarshal(raw, &i); err == nil {
		return uint64(i)
	}
	var b bool
	if err := json.Unmarshal(raw, &b); err == nil && b {
		return 1
	}
	return 0
}

// Run executes a harness natively inside a test.
func Run(t *testing.T, f func()) {
	// VERIF_SWEEP="kind:43,ext:2": run the harness natively for every combination of these
	// vf.Choose inputs (validation of the encoder against the real build, not a replay)
	if sw := os.Getenv("VERIF_SWEEP"); sw != "" {
		sweep(t, f, strings.Split(sw, ","), map[string]uint64{})
		fmt.Println("VF-HARNESS-END")
		return
	}
	runOnce(t, f)
}

func sweep(t *testing.T, f func(), dims []string, fixed map[string]uint64) {
	if len(dims) == 0 {
		load()
		mu.Lock()
		for k, v := range fixed {
			inputs[k] = json.RawMessage(fmt.Sprint(v))
		}
		mu.Unlock()
		ok := t.Run(fmt.Sprint(fixed), func(t *testing.T) { runOnce(t, f) })
		if !ok {
			fmt.Println("VF-SWEEP-FAIL", fixed)
		}
		return
	}
	var name string
	var n uint64
	kv := strings.SplitN(dims[0], ":", 2)
	name = kv[0]
	fmt.Sscan(kv[1], &n)
	for i := uint64(0); i < n; i++ {
		fixed[name] = i
		sweep(t, f, dims[1:], fixed)
	}
	delete(fixed, name)
}

func runOnce(t *testing.T, f func()) {
	defer func() {
		if p := recover(); p != nil {
			switch p := p.(type) {
			case assumeFalse:
				fmt.Println("VF-ASSUME-FALSE")
				t.Skip("assumption false on these inputs")
			case assertFail:
				t.Fatalf("VF-ASSERT-FAIL %s", p.id)
			default:
				fmt.Printf("VF-PANIC %v\n", p)
				panic(p)
			}
		}
	}()
	f()
	fmt.Println("VF-HARNESS-END")
}

func U8(label string) uint8   { return uint8(num(label)) }
func U16(label string) uint16 { return uint16(num(label)) }
func U32(label string) uint32 { return uint32(num(label)) }
func U64(label string) uint64 { return num(label) }
func I32(label string) int32  { return int32(num(label)) }
func I64(label string) int64  { return int64(num(label)) }
func Int(label string) int    { return int(num(label)) }
func Bool(label string) bool  { return num(label) != 0 }

func Str(label string) string {
	load()
	raw, ok := inputs[label]
	if !ok {
		return ""
	}
	var m map[string]json.RawMessage
	if err := json.Unmarshal(raw, &m); err != nil {
		return ""
	}
	if c, ok := m["const"]; ok {
		var s string
		json.Unmarshal(c, &s)
		return s
	}
	var id int64
	json.Unmarshal(m["atom"], &id)
	return fmt.Sprintf("§atom%d", id)
}

func Bytes(label string, max int) []byte {
	n := int(num(label + ".len"))
	if n > max {
		n = max
	}
	return BytesN(label, n)
}

func BytesN(label string, n int) []byte {
	b := make([]byte, n)
	for i := range b {
		b[i] = byte(num(fmt.Sprintf("%s[%d]", label, i)))
	}
	return b
}

// OpaqueBytes is a byte slice of length n whose content is irrelevant to the harness.
func OpaqueBytes(n int) []byte { return make([]byte, n) }

// Defined reports whether v is the value of a declared constant of the named type. In a native
// replay the inputs come from a model that already satisfies it.
func Defined(pkgPath, typeName string, v int64) bool { return true }

// Dur is a duration s*1e9 + ms*1e6 + ns with 0 <= s <= maxSeconds, 0 <= ms < 1000, 0 <= ns < 1e6.
func Dur(label string, maxSeconds int64) time.Duration {
	return time.Duration(int64(num(label+".s"))*1000000000 + int64(num(label+".ms"))*1000000 + int64(num(label+".ns")))
}

func Choose(label string, n int) int {
	v := int(num(label))
	if v < 0 || v >= n {
		return 0
	}
	return v
}

func Assume(c bool) {
	if !c {
		panic(assumeFalse{})
	}
}

func Assert(id string, c bool) {
	if !c {
		fmt.Println("VF-ASSERT-FAIL", id)
		panic(assertFail{id})
	}
}

func Reach(id string)           {}
func Known(id string, c bool)   {}
func Observe(l string, v uint64) { fmt.Printf("VF-OBS %s=%d\n", l, v) }
func AllMapOrders(on bool)      {}

// AllSchedules asks the symbolic executor to fork over which runnable goroutine continues at every
// blocking point (non-preemptive schedules). Natively the Go scheduler decides.
func AllSchedules(on bool) {}
func Symbolic() bool            { return false }

func Panics(f func()) (p bool) {
	defer func() {
		if r := recover(); r != nil {
			switch r.(type) {
			case assumeFalse, assertFail:
				panic(r)
			}
			fmt.Printf("VF-RECOVERED %v\n", r)
			p = true
		}
	}()
	f()
	return false
}

var settleDelay = 40 * time.Millisecond

func Settle() { time.Sleep(settleDelay) }

// Blocked runs f in a goroutine and reports whether it failed to return within the watchdog time.
func Blocked(f func()) bool {
	done := make(chan struct{})
	go func() {
		defer close(done)
		f()
	}()
	select {
	case <-done:
		return false
	case <-time.After(500 * time.Millisecond):
		return true
	}
}

func Advance(d time.Duration) { time.Sleep(d + 20*time.Millisecond) }

func Unlocked(l sync.Locker) bool {
	tl, ok := l.(interface{ TryLock() bool })
	if !ok {
		return true
	}
	if tl.TryLock() {
		l.Unlock()
		return true
	}
	return false
}

func RUnlocked(l *sync.RWMutex) bool {
	if l.TryLock() {
		l.Unlock()
		return true
	}
	return false
}

func DeepEqual(a, b any) bool { return reflect.DeepEqual(a, b) }

// CanonEqual is DeepEqual up to the documented canonical form: a nil and an empty slice or map are
// equal, and time.Time values are compared as instants.
func CanonEqual(a, b any) bool { return canonEq(reflect.ValueOf(a), reflect.ValueOf(b), 0) }

func canonEq(a, b reflect.Value, depth int) bool {
	if depth > 32 {
		return false
	}
	if !a.IsValid() || !b.IsValid() {
		return a.IsValid() == b.IsValid()
	}
	if a.Type() != b.Type() {
		return false
	}
	if t, ok := a.Interface().(time.Time); ok && a.CanInterface() {
		return t.Equal(b.Interface().(time.Time))
	}
	switch a.Kind() {
	case reflect.Slice:
		if a.Len() != b.Len() {
			return false
		}
		for i := 0; i < a.Len(); i++ {
			if !canonEq(a.Index(i), b.Index(i), depth+1) {
				return false
			}
		}
		return true
	case reflect.Array:
		for i := 0; i < a.Len(); i++ {
			if !canonEq(a.Index(i), b.Index(i), depth+1) {
				return false
			}
		}
		return true
	case reflect.Map:
		if a.Len() != b.Len() {
			return false
		}
		for _, k := range a.MapKeys() {
			bv := b.MapIndex(k)
			if !bv.IsValid() || !canonEq(a.MapIndex(k), bv, depth+1) {
				return false
			}
		}
		return true
	case reflect.Ptr, reflect.Interface:
		if a.IsNil() || b.IsNil() {
			return a.IsNil() == b.IsNil()
		}
		return canonEq(a.Elem(), b.Elem(), depth+1)
	case reflect.Struct:
		for i := 0; i < a.NumField(); i++ {
			if !canonEq(a.Field(i), b.Field(i), depth+1) {
				return false
			}
		}
		return true
	case reflect.Func:
		return a.IsNil() && b.IsNil()
	case reflect.Bool:
		return a.Bool() == b.Bool()
	case reflect.Int, reflect.Int8, reflect.Int16, reflect.Int32, reflect.Int64:
		return a.Int() == b.Int()
	case reflect.Uint, reflect.Uint8, reflect.Uint16, reflect.Uint32, reflect.Uint64, reflect.Uintptr:
		return a.Uint() == b.Uint()
	case reflect.Float32, reflect.Float64:
		return a.Float() == b.Float()
	case reflect.String:
		return a.String() == b.String()
	}
	return false
}

// Leaked names the goroutines (other than the caller and the test runner) that are still inside
// library or harness code after a grace period; "" when there are none.
func Leaked() string {
	var out string
	for try := 0; try < 100; try++ {
		out = ""
		buf := make([]byte, 1<<20)
		buf = buf[:runtime.Stack(buf, true)]
		for i, g := range strings.Split(string(buf), "\n\n") {
			if i == 0 || !strings.Contains(g, "github.com/aptpod/iscp-go/") {
				continue
			}
			if strings.Contains(g, "testing.(*T).Run(") || strings.Contains(g, "testing.(*M).Run(") {
				continue
			}
			lines := strings.Split(g, "\n")
			desc := ""
			for k := 1; k < len(lines) && k < 14; k += 2 {
				f := lines[k]
				if j := strings.LastIndex(f, "("); j > 0 {
					f = f[:j]
				}
				desc += f + " < "
			}
			out += "[" + desc + "] "
		}
		if out == "" {
			return ""
		}
		time.Sleep(20 * time.Millisecond)
	}
	fmt.Println("VF-LEAKED", out)
	return out
}

func Deviations(k int) {}

// Amplify: see vf_sym.go.
func Amplify(sym, native int) int { return native }

// Stub: natively the real function runs.
func Stub(name string, impl any) {}
