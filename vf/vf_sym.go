//go:build vfsym

// Package vf is the harness vocabulary of /verif. This file holds the body-less declarations used
// when the harness is executed symbolically (the executor intercepts every call).
package vf

import (
	"sync"
	"time"
)

func U8(label string) uint8
func U16(label string) uint16
func U32(label string) uint32
func U64(label string) uint64
func I32(label string) int32
func I64(label string) int64
func Int(label string) int
func Bool(label string) bool
func Str(label string) string
func Bytes(label string, max int) []byte
func BytesN(label string, n int) []byte
func OpaqueBytes(n int) []byte
func Defined(pkgPath, typeName string, v int64) bool
func Dur(label string, maxSeconds int64) time.Duration
func Choose(label string, n int) int
func Assume(c bool)
func Assert(id string, c bool)
func Reach(id string)
func Known(id string, c bool)
func Panics(f func()) bool
func Settle()
func Blocked(f func()) bool
func Advance(d time.Duration)
func Unlocked(l sync.Locker) bool
func RUnlocked(l *sync.RWMutex) bool
func DeepEqual(a, b any) bool
func CanonEqual(a, b any) bool
func Observe(label string, v uint64)
func AllMapOrders(on bool)
func AllSchedules(on bool)
func Symbolic() bool

// Leaked lets every goroutine run until nothing can move, then names the goroutines (other than the
// caller) that still exist; "" when there are none.
func Leaked() string

// Deviations sets the budget of delay-bounded schedule exploration: from here on, at every point
// where the running goroutine blocks and several others are runnable, the canonical choice (the
// oldest runnable goroutine) is free and every other choice costs one unit; all schedules within
// the budget are explored. 0 switches it off.
func Deviations(k int)

// Amplify returns sym in the symbolic run and native on native replay: repetition counts of a racy
// step whose schedule the solver chose and which a native run can only hit by trying often.
func Amplify(sym, native int) int

// Stub replaces, for the symbolic run only, the named function (ssa name, e.g.
// "(*pkg/path.T).Method") by impl, a model of code the engine cannot interpret (reflection-driven
// codecs). impl takes the receiver as its first parameter. Natively the real function runs, so a
// counterexample found through the model is confirmed against the real code on replay.
func Stub(name string, impl any)
