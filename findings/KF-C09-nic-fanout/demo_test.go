// package dir: transport/nic   (run with: go test -race -run TestZZRaceFanOut ./transport/nic/)
// On the tree before the repair this reports DATA RACE (start() reading the subscriber slice while
// unsubscribe compacts it) and usually ends in "panic: send on closed channel".
package nic

import (
	"testing"
	"time"
)

func TestZZRaceFanOut(t *testing.T) {
	m := OpenManager([]string{"eth0", "eth1"}, "eth0")
	keep := m.Subscribe()
	go func() {
		for range keep {
		}
	}()
	stop := make(chan struct{})
	go func() {
		for {
			select {
			case <-stop:
				return
			default:
			}
			ch := m.subscribe()
			m.unsubscribe(ch)
		}
	}()
	for i := 0; i < 2000; i++ {
		m.ChangeNIC("eth1")
		time.Sleep(50 * time.Microsecond)
	}
	close(stop)
	m.Close()
}
