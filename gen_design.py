#!/usr/bin/env python3
"""Regenerates the generated appendices of DESIGN.md (between BEGIN/END GENERATED markers)."""
import json, glob, os, re
V = os.path.dirname(os.path.abspath(__file__))
lem = json.load(open(f"{V}/spec/lemmas.json"))
kf = json.load(open(f"{V}/known_findings.json"))
out = []
out.append("### C.1 Lemma inventory (from spec/lemmas.json)\n")
out.append("| lemma | tier | harness / mode | what is decided | bounds |\n|---|---|---|---|---|")
for l in sorted(lem, key=lambda l: (l["property"], l["id"])):
    h = l.get("mode") and f"mode `{l['mode']}`" or f"`{l['pkg']}.{l['func']}`"
    out.append(f"| {l['id']} | {l['tier']} | {h} | {l.get('desc','').replace('|','/')} | {l.get('bounds','').replace('|','/')} |")
out.append("\n### C.2 Findings ledger (from known_findings.json)\n")
out.append("| id | property | lemma | status | commit | what |\n|---|---|---|---|---|---|")
for k in kf:
    out.append(f"| {k['id']} | {k['property']} | {k.get('lemma','')} | {k['status']} | {k.get('commit','')} | {k['what'].replace('|','/')} |")
out.append("\n### C.3 Seeded changes (from seeded/*/verify.json and meta.json)\n")
out.append("| seed | property | what the change does / needs | detected by |\n|---|---|---|---|")
for d in sorted(glob.glob(f"{V}/seeded/*/")):
    name = os.path.basename(d.rstrip("/"))
    try:
        v = json.load(open(d + "verify.json"))
    except Exception:
        continue
    meta = {}
    try:
        meta = json.load(open(d + "meta.json"))
    except Exception:
        pass
    what = (meta.get("summary", "") + " — needs: " + str(meta.get("needs_to_manifest", ""))).replace("|", "/").replace("\n", " ")
    if len(what) > 420:
        what = what[:420] + "…"
    det = []
    for k, c in v.get("checks", {}).items():
        for line in c.get("lines", []):
            m = re.search(r"lemma (\S+): (?:assert |uc-lock |deadlock )?(.*?)(?: at |$)", line)
            if m:
                s = f"{m.group(1)} ({m.group(2)[:60]})"
                if s not in det:
                    det.append(s)
    out.append(f"| {name} | {v['property']} | {what} | {'; '.join(det[:3]) if v.get('detected') else '**not detected**'} |")
gen = "\n".join(out) + "\n"
p = f"{V}/DESIGN.md"
s = open(p).read()
b, e = "<!-- BEGIN GENERATED -->", "<!-- END GENERATED -->"
if b in s and e in s:
    s = s[:s.index(b) + len(b)] + "\n" + gen + s[s.index(e):]
else:
    s += f"\n\n## Appendix C — generated inventories\n\n{b}\n{gen}{e}\n"
open(p, "w").write(s)
print("DESIGN.md appendices regenerated:", len(lem), "lemmas,", len(kf), "ledger entries")
