#!/usr/bin/env python3
"""seed_typecheck.py: for every seeded change, does the harness still type-check (natively, go build
with the harness overlaid) when the change is applied?  Works in a scratch worktree, never in /repo.
A change that alters the signature of an internal function a harness calls would make the checks
INCONCLUSIVE instead of reporting a violation; such harness calls are then routed differently."""
import json, os, subprocess, sys, glob
V = "/verif"
WT = "/tmp/tc_wt"
env = dict(os.environ, GOFLAGS="-mod=mod", GOPROXY="off")
def sh(cmd, cwd=None):
    p = subprocess.run(cmd, shell=True, cwd=cwd, env=env, capture_output=True, text=True)
    return p.returncode, p.stdout + p.stderr
sh(f"git -C /repo worktree remove --force {WT}")
rc, out = sh(f"git -C /repo worktree add --detach {WT} HEAD")
assert rc == 0, out
rep = {}
for root, dirs, files in os.walk(f"{V}/harness"):
    for f in files:
        if f.endswith(".go"):
            rel = os.path.relpath(os.path.join(root, f), f"{V}/harness")
            rep[f"{WT}/{rel}"] = os.path.join(root, f)
rep[f"{WT}/internal/vf/vf_native.go"] = f"{V}/vf/vf_native.go"
json.dump({"Replace": rep}, open("/tmp/tc_overlay.json", "w"))
bad = []
try:
    rc, out = sh("go build -overlay /tmp/tc_overlay.json ./...", cwd=WT)
    print("baseline", "ok" if rc == 0 else out[:2000])
    only = sys.argv[1:]
    for d in sorted(glob.glob(f"{V}/seeded/*/")):
        name = os.path.basename(d.rstrip("/"))
        if only and not any(name.startswith(o) for o in only):
            continue
        rc, out = sh(f"git apply {d}patch.diff", cwd=WT)
        if rc != 0:
            print(name, "PATCH DOES NOT APPLY"); bad.append(name); continue
        rc, out = sh("go build -overlay /tmp/tc_overlay.json ./...", cwd=WT)
        if rc != 0:
            print(name, "HARNESS DOES NOT TYPE-CHECK:", out[:600]); bad.append(name)
        sh("git checkout -- . && git clean -fdq", cwd=WT)
finally:
    sh(f"git -C /repo worktree remove --force {WT}")
    os.remove("/tmp/tc_overlay.json")
print("done; problems:", bad)
