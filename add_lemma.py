import json,sys
# usage: addlemma.py '<json>'
L=json.load(open('/verif/spec/lemmas.json'))
ls = L if isinstance(L,list) else L['lemmas']
new=json.loads(sys.argv[1])
after=new.pop('after',None)
ls[:] = [l for l in ls if l['id']!=new['id']]
idx=len(ls)
if after:
    for i,l in enumerate(ls):
        if l['id']==after: idx=i+1
ls.insert(idx,new)
json.dump(L,open('/verif/spec/lemmas.json','w'),indent=1,ensure_ascii=False)
print('lemmas',len(ls))
