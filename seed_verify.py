#!/usr/bin/env python3
"""seed_verify.py <PROP> <seed_src_dir> <name> [check-props...]
Confirms a seeded change (patch.diff + demo_test.go) in a scratch worktree, stores it under
/verif/seeded/<name>/, then runs the registered checks against /repo with the patch applied."""
import json, os, subprocess, sys, shutil, re
prop, src, name = sys.argv[1], sys.argv[2], sys.argv[3]
checks = sys.argv[4:] or [prop]
env = dict(os.environ, GOFLAGS="-mod=mod", GOPROXY="off")
def sh(cmd, cwd=None, timeout=1800):
    p = subprocess.run(cmd, shell=True, cwd=cwd, env=env, capture_output=True, text=True, timeout=timeout)
    return p.returncode, (p.stdout + p.stderr)
dst = f"/verif/seeded/{name}"
os.makedirs(dst, exist_ok=True)
for f in ("patch.diff", "demo_test.go", "meta.json"):
    if os.path.exists(f"{src}/{f}") and os.path.abspath(src) != os.path.abspath(dst):
        shutil.copy(f"{src}/{f}", f"{dst}/{f}")
demo = open(f"{dst}/demo_test.go").read()
RACE = "-race" if "race" in open(f"{dst}/meta.json").read().lower() and prop == "C09" else ""
m = re.search(r"package dir:\s*(\S+)", demo)
pkgdir = m.group(1).strip("./") if m else ""
wt = f"/tmp/sv_{name}"
sh(f"git -C /repo worktree remove --force {wt}")
rc, out = sh(f"git -C /repo worktree add --detach {wt} HEAD")
res = {"property": prop, "name": name, "pkgdir": pkgdir}
try:
    shutil.copy(f"{dst}/demo_test.go", f"{wt}/{pkgdir}/zzdemo_test.go")
    rc0, out0 = sh(f"go test {RACE} -vet=off -count=1 -run 'ZZ|zz|Demo|demo' ./{pkgdir}/", cwd=wt)
    res["demo_passes_without_patch"] = rc0 == 0
    rc, out = sh(f"git apply {dst}/patch.diff", cwd=wt)
    res["patch_applies"] = rc == 0
    rcb, outb = sh("go build ./...", cwd=wt)
    res["builds"] = rcb == 0
    rc1, out1 = sh(f"go test {RACE} -vet=off -count=1 -run 'ZZ|zz|Demo|demo' ./{pkgdir}/", cwd=wt)
    res["demo_fails_with_patch"] = rc1 != 0
    os.remove(f"{wt}/{pkgdir}/zzdemo_test.go")
    ok_suite = False
    for attempt in range(3):
        rc2, out2 = sh("go test -vet=off -count=1 ./... 2>&1 | grep -E '^(--- FAIL|FAIL|ok|panic)' | grep -v '^ok' | head -20", cwd=wt)
        fails = [l for l in out2.splitlines() if l.strip()]
        real = [l for l in fails if "TestTransport_ReadWrite_Datagrams" not in l and "transport/quic" not in l and l.strip() != "FAIL"]
        if not real:
            ok_suite = True
            break
    res["suite_passes_with_patch"] = ok_suite
    if not ok_suite:
        res["suite_failures"] = fails[:10]
finally:
    sh(f"git -C /repo worktree remove --force {wt}")
# run our checks against /repo with the patch applied
st = subprocess.run("git -C /repo status --porcelain", shell=True, capture_output=True, text=True).stdout.strip()
assert st == "", "/repo not clean: " + st
rc, out = sh(f"git -C /repo apply {dst}/patch.diff")
det = {}
try:
    for c in checks:
        for tier in ("quick",):
            rcc, outc = sh(f"./check {c} {tier}", cwd="/verif", timeout=3600)
            lines = [l for l in outc.splitlines() if l.startswith("VIOLATION") or l.startswith("INCONCLUSIVE") or l.startswith("UNCONFIRMED") or l.startswith("  lemma")]
            det[f"{c}:{tier}"] = {"exit": rcc, "lines": lines[:8]}
finally:
    sh("git -C /repo checkout -- .")
res["checks"] = det
res["detected"] = any(v["exit"] == 1 for v in det.values())
json.dump(res, open(f"{dst}/verify.json", "w"), indent=1)
print(json.dumps(res, indent=1))
