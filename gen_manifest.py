#!/usr/bin/env python3
"""Regenerates MANIFEST.json from spec/lemmas.json + spec/properties_meta.json."""
import json, os
V = os.path.dirname(os.path.abspath(__file__))
lem = json.load(open(f"{V}/spec/lemmas.json"))
meta = json.load(open(f"{V}/spec/properties_meta.json"))
props = [json.loads(l)["id"] for l in open(f"{V}/properties.jsonl")]
base = json.load(open("/root/.vp/BASELINE.json"))["cmd"] if os.path.exists("/root/.vp/BASELINE.json") else "cd /repo && go test -mod=mod -vet=off -count=1 ./..."
checks, na = [], []
for p in props:
    m = meta.get(p, {})
    ls = [l for l in lem if l["property"] == p]
    if not ls or m.get("not_applicable"):
        na.append({"property_id": p, "reason": m.get("not_applicable") or "no lemma registered yet for this property"})
        continue
    q = [l["id"] for l in ls if l["tier"] == "quick"]
    t = [l["id"] for l in ls]
    checks.append({
        "property_id": p,
        "quick_cmd": f"./check {p} quick",
        "thorough_cmd": f"./check {p} thorough",
        "evidence_file": f"/verif/evidence/{p}.json",
        "replay_cmd_template": "./check --replay {path}",
        "engine": "gosym",
        "level_claimed": {
            "category": "other",
            "text": m.get("level_text", "") + f" Lemmas (quick): {', '.join(q)}; thorough adds: {', '.join(x for x in t if x not in q) or 'larger bounds only'}.",
            "design_ref": m.get("design_ref", "DESIGN.md §4 " + p),
        },
        "level_note": m.get("level_note", ""),
        "technique": "bounded symbolic execution of the Go SSA of the real functions + z3 (SMT); counterexamples replayed natively",
    })
man = {
    "version": 1,
    "setup_cmd": "cd /verif/gosym && GOFLAGS=-mod=mod GOPROXY=off go build -o /verif/bin/gosym .",
    "hooks": {
        "guard": "verif",
        "enable": "no hook commits: harnesses and the vf package are injected through go/packages Overlay (symbolic run) and `go test -overlay` (native replay); nothing is written under /repo",
        "baseline_off_cmd": base,
        "source_commits": [],
        "add_only": True,
    },
    "engines": [{"name": "gosym", "path": "/verif/gosym", "serves_properties": [c["property_id"] for c in checks],
                 "kind_free_text": "bounded symbolic executor for go/ssa (x/tools v0.29.0) written for this task; SMT-LIB2 over a pipe to z3 4.8.12; path forking by re-execution; cooperative goroutines; native replay of counterexamples via go test -overlay"}],
    "checks": checks,
    "not_applicable": na,
    "notes": "Every verdict is bounded (bounds per lemma in spec/lemmas.json and in each evidence file). Exit 0 = all obligations discharged within bounds; exit 1 + VIOLATION line = replay-confirmed counterexample; exit 2 + INCONCLUSIVE = solver unknown, bound exceeded, unsupported construct or stale harness (never reported as success). Genuine defects found and repaired are listed in known_findings.json (fixed entries suppress nothing).",
}
json.dump(man, open(f"{V}/MANIFEST.json", "w"), indent=1)
print("checks:", [c["property_id"] for c in checks], "na:", [n["property_id"] for n in na])
