package reconnect

import (
	"context"
	stderrors "errors"
	"fmt"
	"sync"
	"time"

	"github.com/aptpod/iscp-go/errors"

	"github.com/aptpod/iscp-go/internal/vf"
	"github.com/aptpod/iscp-go/log"
	"github.com/aptpod/iscp-go/transport"
)

var zzErr = stderrors.New("zz: underlying failure")

// zzTr is a scripted underlying transport (implements transport.Transport and transport.Closer).
type zzTr struct {
	mu        sync.Mutex
	name      int
	in        chan []byte
	written   [][]byte
	writeErrs int // the first writeErrs writes fail
	writeErr  error // ... with this error (default zzErr)
	readErr   bool // handshake / reads fail
	closed    int
	gate      chan struct{} // when set: Write accepts the bytes, then waits here before returning
	closeErr  error         // what CloseWithStatus reports (the connection is released all the same)
	entered   chan struct{}
}

func zzNewTr(name int) *zzTr { return &zzTr{name: name, in: make(chan []byte, 16)} }

func (t *zzTr) Read() ([]byte, error) {
	if t.readErr {
		return nil, zzErr
	}
	bs, ok := <-t.in
	if !ok {
		return nil, zzErr
	}
	return bs, nil
}
func (t *zzTr) Write(bs []byte) error {
	t.mu.Lock()
	defer t.mu.Unlock()
	if t.closed > 0 {
		return zzErr
	}
	if t.writeErrs > 0 {
		t.writeErrs--
		if t.writeErr != nil {
			return t.writeErr
		}
		return zzErr
	}
	c := make([]byte, len(bs))
	copy(c, bs)
	t.written = append(t.written, c)
	if g := t.gate; g != nil {
		t.gate = nil
		t.mu.Unlock()
		t.entered <- struct{}{}
		<-g
		t.mu.Lock()
	}
	return nil
}
func (t *zzTr) Close() error { return t.CloseWithStatus(transport.CloseStatusNormal) }
func (t *zzTr) CloseWithStatus(transport.CloseStatus) error {
	t.mu.Lock()
	defer t.mu.Unlock()
	t.closed++
	if t.closed == 1 {
		close(t.in)
	}
	return t.closeErr
}
func (t *zzTr) RxBytesCounterValue() uint64                         { return 0 }
func (t *zzTr) TxBytesCounterValue() uint64                         { return 0 }
func (t *zzTr) AsUnreliable() (transport.UnreliableTransport, bool) { return nil, false }
func (t *zzTr) NegotiationParams() transport.NegotiationParams      { return transport.NegotiationParams{} }
func (t *zzTr) Name() transport.Name                                { return "zz" }
func (t *zzTr) wrote() [][]byte {
	t.mu.Lock()
	defer t.mu.Unlock()
	return append([][]byte{}, t.written...)
}

// zzDialer scripts dial outcomes: outcome k is "err", "badhandshake" or "ok".
type zzDialer struct {
	mu      sync.Mutex
	script  []string
	dials   int
	configs []transport.DialConfig
	made    []*zzTr
	handshakeFrom int // dials with index >= handshakeFrom are redials (the peer sends a handshake message)
}

func (d *zzDialer) Dial(c transport.DialConfig) (transport.Transport, error) {
	d.mu.Lock()
	defer d.mu.Unlock()
	k := d.dials
	d.dials++
	d.configs = append(d.configs, c)
	out := "ok"
	if k < len(d.script) {
		out = d.script[k]
	}
	if out == "err" {
		return nil, zzErr
	}
	t := zzNewTr(k)
	if out == "badhandshake" {
		t.readErr = true
	} else if k >= d.handshakeFrom {
		t.in <- []byte("hello") // the redial handshake message read by reconnect()
	}
	d.made = append(d.made, t)
	return t, nil
}

func zzOutcome(label string) string {
	switch vf.Choose(label, 3) {
	case 0:
		return "err"
	case 1:
		return "badhandshake"
	}
	return "ok"
}

// C18.a: reconnect() with a scripted connector and a symbolic budget.
func zzC18aReconnect() {
	d := &zzDialer{handshakeFrom: 0}
	old := zzNewTr(-1)
	budget := 1 + vf.Choose("budget", 3)
	for i := 0; i < 3; i++ {
		d.script = append(d.script, zzOutcome("attempt"+string(rune('0'+i))))
	}
	d.dials = 0
	ctx, cancel := context.WithCancel(context.Background())
	r := &Transport{
		reconnector:          TransportConnectorFunc(func() (transport.Transport, error) { return d.Dial(transport.DialConfig{Reconnect: true}) }),
		transport:            old,
		maxReconnectAttempts: budget,
		reconnectInterval:    10 * time.Millisecond,
		readResCh:            make(chan *readRes, 8),
		writeReqCh:           make(chan writeReq, 8),
		writeResCh:           map[int64]chan writeRes{},
		ctx:                  ctx,
		cancel:               cancel,
		logger:               log.NewNop(),
	}
	situation := vf.Choose("situation", 3)
	var arg transport.Transport = old
	switch situation {
	case 1: // somebody else already replaced the transport
		arg = zzNewTr(-2)
	case 2: // the transport was closed by the application
		cancel()
	}
	r.mu.Lock()
	err := r.reconnect(arg)
	r.mu.Unlock()
	switch situation {
	case 1:
		vf.Assert("already-replaced-no-dial", err == nil && d.dials == 0 && r.transport == transport.Transport(old))
		vf.Reach("already")
		return
	case 2:
		vf.Assert("closed-no-dial", err != nil && d.dials == 0)
		vf.Reach("closed")
		return
	}
	vf.Assert("old-closed-once", old.closed == 1)
	vf.Assert("never-more-dials-than-budget", d.dials <= budget)
	firstOK := -1
	for i := 0; i < budget && i < 3; i++ {
		if d.script[i] == "ok" {
			firstOK = i
			break
		}
	}
	if firstOK >= 0 {
		vf.Assert("success-within-budget", err == nil && d.dials == firstOK+1)
		vf.Assert("installed-is-the-handshaken-one", r.transport == transport.Transport(d.made[len(d.made)-1]) && !d.made[len(d.made)-1].readErr)
		vf.Reach("reconnected")
	} else {
		vf.Assert("budget-exhausted-is-an-error", err != nil && d.dials == budget)
		vf.Assert("nothing-installed", r.transport == transport.Transport(old))
		vf.Reach("exhausted")
	}
}

// C18.b: the redial uses the same transport id (generated once if empty) and sets the reconnect flag.
func zzC18bRedialParams() {
	d := &zzDialer{handshakeFrom: 1}
	given := vf.Choose("id.given", 2) == 1
	cfg := transport.DialConfig{Address: "addr", EncodingName: transport.EncodingNameProtobuf,
		TransportGroupID: "g", TransportGroupTotalCount: vf.Int("tgcount"), TransportGroupIndex: vf.Int("tgidx")}
	if given {
		cfg.TransportID = transport.TransportID(vf.Str("tid"))
		vf.Assume(cfg.TransportID != "")
	}
	t, err := Dial(DialConfig{Dialer: d, DialConfig: cfg, MaxReconnectAttempts: 2, ReconnectInterval: time.Millisecond})
	vf.Assume(err == nil)
	defer t.Close()
	vf.Settle()
	vf.Assert("first-dial-once", d.dials == 1 && !d.configs[0].Reconnect)
	first := d.configs[0]
	vf.Assert("id-never-empty", first.TransportID != "")
	if given {
		vf.Assert("given-id-used", first.TransportID == cfg.TransportID)
	}
	_, cerr := t.reconnector.Connect()
	vf.Assert("redial-ok", cerr == nil && d.dials == 2)
	if d.dials == 2 {
		re := d.configs[1]
		vf.Assert("redial-same-transport-id", re.TransportID == first.TransportID)
		vf.Assert("redial-sets-reconnect-flag", re.Reconnect)
		vf.Assert("redial-everything-else-unchanged", re.Address == first.Address && re.EncodingName == first.EncodingName && re.CompressConfig == first.CompressConfig &&
			re.TransportGroupID == first.TransportGroupID && re.TransportGroupTotalCount == first.TransportGroupTotalCount && re.TransportGroupIndex == first.TransportGroupIndex)
	}
	vf.Reach("end")
}

func zzEq(a, b []byte) bool {
	if len(a) != len(b) {
		return false
	}
	for i := range a {
		if a[i] != b[i] {
			return false
		}
	}
	return true
}

// C18.c: the write loop. A write that fails is retried with the same bytes on the redialled
// connection before any later write; when the redial budget is exhausted the writer gets an error
// and later Writes/Reads fail instead of blocking.
var zzDeviations = 0

func zzC18cWriteLoopDev1() { zzDeviations = 1; zzC18cWriteLoop() }
func zzC18cWriteLoopDev2() { zzDeviations = 2; zzC18cWriteLoop() }
func zzC18dReadLoopDev1()  { zzDeviations = 1; zzC18dReadLoop() }

func zzC18cWriteLoop() {
	vf.Deviations(zzDeviations)
	d := &zzDialer{handshakeFrom: 1}
	exhausted := vf.Choose("redial", 2) == 1
	if exhausted {
		d.script = []string{"ok", "err", "err", "err"}
	}
	t, err := Dial(DialConfig{Dialer: d, DialConfig: transport.DialConfig{TransportID: "t"}, MaxReconnectAttempts: 2, ReconnectInterval: time.Millisecond})
	vf.Assume(err == nil)
	vf.Settle()
	first := d.made[0]
	m1, m2 := vf.BytesN("m1", 2), vf.BytesN("m2", 2)
	vf.Assume(!zzEq(m1, m2))
	breakAt := vf.Choose("break.before.write", 2) // 0: the first write hits the failure, 1: the second
	var e1, e2 error
	if breakAt == 1 {
		e1 = t.Write(m1)
		vf.Assert("healthy-write-accepted", e1 == nil && len(first.wrote()) == 1 && zzEq(first.wrote()[0], m1))
	}
	first.mu.Lock()
	first.writeErrs = 1000
	switch vf.Choose("write.failure.kind", 4) {
	case 1: // the peer closed the connection normally (what the websocket transports report after a close frame)
		first.writeErr = fmt.Errorf("peer closed: %w", errors.ErrConnectionNormalClose)
	case 2:
		first.writeErr = fmt.Errorf("abnormal: %w", errors.ErrConnectionAbnormalClose)
	case 3:
		first.writeErr = fmt.Errorf("closed: %w", errors.ErrConnectionClosed)
	}
	first.mu.Unlock()
	if breakAt == 0 {
		e1 = t.Write(m1)
	}
	vf.Known("KF-C18-write-loop-exits-without-cancel", exhausted)
	if !exhausted {
		e2 = t.Write(m2)
		vf.Assert("writes-succeed-across-redial", e1 == nil && e2 == nil)
		vf.Settle() // let the read loop see the closed first connection: it must not redial again
		vf.Assert("redialled-once", d.dials == 2 && len(d.made) == 2)
		if len(d.made) == 2 {
			second := d.made[1].wrote()
			if breakAt == 0 {
				vf.Assert("retried-same-bytes-in-order", len(second) == 2 && zzEq(second[0], m1) && zzEq(second[1], m2) && len(first.wrote()) == 0)
			} else {
				vf.Assert("retried-same-bytes-in-order", len(second) == 1 && zzEq(second[0], m2) && len(first.wrote()) == 1)
			}
		}
		vf.Reach("redialled")
	} else {
		if breakAt == 1 {
			e1 = nil
			e2 = t.Write(m2)
			vf.Assert("failed-write-reports-error", e2 != nil)
		} else {
			vf.Assert("failed-write-reports-error", e1 != nil)
		}
		// (each of the two loops may spend the redial budget once for the same break: when the write
		// loop gives up, the read loop, woken by the close of the old connection, can still get the
		// mutex before the transport is marked closed - observed under a deviating schedule; the
		// property does not forbid it)
		vf.Assert("budget-respected", d.dials <= 1+2+2)
		// later writes must fail with an error instead of blocking
		var e3 error
		blocked := vf.Blocked(func() { e3 = t.Write([]byte{9}) })
		vf.Assert("later-write-does-not-block", !blocked)
		if !blocked {
			vf.Assert("later-write-fails", e3 != nil)
		}
		vf.Reach("exhausted")
	}
	t.Close()
	var e4 error
	blockedAfterClose := vf.Blocked(func() { e4 = t.Write([]byte{1}) })
	vf.Assert("write-after-close-fails-fast", !blockedAfterClose && e4 != nil)
	var e5 error
	blockedRead := vf.Blocked(func() { _, e5 = t.Read() })
	vf.Assert("read-after-close-fails-fast", !blockedRead && e5 != nil)
}

// C18.d: the read loop filters control pings (answering each with one pong) and surfaces the rest once.
func zzC18dReadLoop() {
	vf.Deviations(zzDeviations)
	d := &zzDialer{handshakeFrom: 1}
	t, err := Dial(DialConfig{Dialer: d, DialConfig: transport.DialConfig{TransportID: "t"}, MaxReconnectAttempts: 2, ReconnectInterval: time.Millisecond})
	vf.Assume(err == nil)
	defer t.Close()
	vf.Settle()
	first := d.made[0]
	payload := vf.Bytes("payload", 4)
	isPing := IsPing(payload)
	first.in <- payload
	vf.Settle()
	if isPing {
		blocked := vf.Blocked(func() { t.Read() })
		vf.Assert("ping-not-surfaced", blocked)
		w := first.wrote()
		vf.Assert("ping-answered-with-one-pong", len(w) == 1 && IsPong(w[0]))
		vf.Reach("ping")
	} else {
		got, rerr := t.Read()
		vf.Assert("payload-surfaced-unchanged", rerr == nil && zzEq(got, payload))
		vf.Assert("no-pong-for-data", len(first.wrote()) == 0)
		second := vf.Blocked(func() { t.Read() })
		vf.Assert("surfaced-once", second)
		vf.Reach("data")
	}
}

// C18.e: a Write that is still in flight on the old connection - the connection has accepted the
// bytes but its Write has not returned yet - while the read side fails and the read loop completes a
// redial: the payload was accepted by exactly one connection and must not be sent again on the new
// one; the next write goes to the new connection.
func zzC18eWriteOverlapsRedial() {
	vf.Deviations(zzDeviations)
	d := &zzDialer{handshakeFrom: 1}
	t, err := Dial(DialConfig{Dialer: d, DialConfig: transport.DialConfig{TransportID: "t"}, MaxReconnectAttempts: 2, ReconnectInterval: time.Millisecond})
	vf.Assume(err == nil)
	vf.Settle()
	first := d.made[0]
	gate := make(chan struct{})
	first.mu.Lock()
	first.gate, first.entered = gate, make(chan struct{}, 1)
	first.mu.Unlock()
	a, b := vf.BytesN("a", 2), vf.BytesN("b", 2)
	vf.Assume(!zzEq(a, b))
	var ea error
	doneA := false
	go func() { ea = t.Write(a); doneA = true }()
	vf.Settle()
	held := false
	select {
	case <-first.entered:
		held = true
	default:
	}
	vf.Assert("write-in-flight-on-the-first-connection", held && !doneA && len(first.wrote()) == 1)
	// the read side of the first connection fails: the read loop redials
	first.mu.Lock()
	first.closed++ // (keeps CloseWithStatus from closing the channel a second time)
	close(first.in)
	first.mu.Unlock()
	vf.Settle()
	vf.Assert("read-loop-redialled", d.dials == 2 && len(d.made) == 2)
	close(gate) // now the old connection's Write returns nil: it had accepted the bytes
	vf.Settle()
	vf.Assert("first-write-returns-nil", doneA && ea == nil)
	eb := t.Write(b)
	vf.Settle()
	vf.Assert("second-write-ok", eb == nil)
	if len(d.made) == 2 {
		second := d.made[1].wrote()
		vf.Assert("each-accepted-write-on-exactly-one-connection", len(first.wrote()) == 1 && zzEq(first.wrote()[0], a) && len(second) == 1 && zzEq(second[0], b))
	}
	t.Close()
	vf.Reach("end")
}

func zzC18eWriteOverlapsRedialDev1() { zzDeviations = 1; zzC18eWriteOverlapsRedial() }

// C18.g: Close when the underlying connection's own close reports an error (the peer had already
// gone, the close frame could not be written): the connection is released all the same, so the
// transport is closed - a Read that was pending returns with an error, later Reads and Writes fail
// instead of blocking.
func zzC18gCloseReportsError() {
	vf.Deviations(zzDeviations)
	d := &zzDialer{handshakeFrom: 1}
	t, err := Dial(DialConfig{Dialer: d, DialConfig: transport.DialConfig{TransportID: "t"}, MaxReconnectAttempts: 2, ReconnectInterval: time.Millisecond})
	vf.Assume(err == nil)
	vf.Settle()
	first := d.made[0]
	if vf.Choose("underlying.close.reports.error", 2) == 1 {
		first.mu.Lock()
		first.closeErr = zzErr
		first.mu.Unlock()
	}
	pending := vf.Choose("read.pending.at.close", 2) == 1
	readDone := false
	var perr error
	if pending {
		go func() {
			_, perr = t.Read()
			readDone = true
		}()
		vf.Settle()
	}
	if vf.Choose("written.before.close", 2) == 1 {
		vf.Assert("healthy-write-accepted", t.Write([]byte{7}) == nil)
	}
	t.Close() // (its result may well be the underlying error)
	vf.Settle()
	vf.Advance(time.Second)
	vf.Settle()
	if pending {
		vf.Assert("pending-read-fails-after-close", readDone && perr != nil)
	}
	var e4 error
	blockedWrite := vf.Blocked(func() { e4 = t.Write([]byte{1}) })
	vf.Assert("write-after-close-fails-fast", !blockedWrite && e4 != nil)
	var e5 error
	blockedRead := vf.Blocked(func() { _, e5 = t.Read() })
	vf.Assert("read-after-close-fails-fast", !blockedRead && e5 != nil)
	vf.Reach("end")
}
func zzC18gCloseReportsErrorDev1() { zzDeviations = 1; zzC18gCloseReportsError() }

// C18.h: a control ping arrives on a connection that breaks before its pong can be written; the
// connection is replaced by a redial; a ping arriving on the new connection is answered with a pong
// on the new connection and filtered out of Read, and data behind it is still delivered.
func zzC18hPingAcrossRedial() {
	vf.Deviations(zzDeviations)
	d := &zzDialer{handshakeFrom: 1}
	t, err := Dial(DialConfig{Dialer: d, DialConfig: transport.DialConfig{TransportID: "t"}, MaxReconnectAttempts: 2, ReconnectInterval: time.Millisecond})
	vf.Assume(err == nil)
	defer t.Close()
	vf.Settle()
	first := d.made[0]
	first.mu.Lock()
	first.writeErrs = 1000 // every write on the first connection fails from now on
	first.mu.Unlock()
	if vf.Choose("ping.on.the.breaking.connection", 2) == 1 {
		first.in <- append([]byte{}, PingMessage...)
		vf.Settle()
		first.Close() // ... and the read side notices the break as well
	} else {
		vf.Assert("write-survives-the-break", t.Write([]byte{5}) == nil)
	}
	vf.Settle()
	vf.Advance(10 * time.Millisecond)
	vf.Settle()
	vf.Assert("redialled", d.dials >= 2 && len(d.made) >= 2)
	if len(d.made) < 2 {
		return
	}
	cur := d.made[len(d.made)-1]
	pongs := func() int {
		n := 0
		for _, w := range cur.wrote() {
			if IsPong(w) {
				n++
			}
		}
		return n
	}
	p0 := pongs()
	cur.in <- append([]byte{}, PingMessage...)
	payload := []byte{42}
	cur.in <- payload
	vf.Settle()
	vf.Assert("ping-on-the-new-connection-answered", pongs() >= p0+1)
	var got []byte
	var rerr error
	blocked := vf.Blocked(func() { got, rerr = t.Read() })
	vf.Assert("data-behind-the-ping-delivered", !blocked && rerr == nil && zzEq(got, payload))
	vf.Reach("end")
}
func zzC18hPingAcrossRedialDev1() { zzDeviations = 1; zzC18hPingAcrossRedial() }
