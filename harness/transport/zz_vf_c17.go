package transport

import (
	"github.com/aptpod/iscp-go/internal/vf"
	"github.com/aptpod/iscp-go/transport/compress"
)

func zzOptInt(label string) *int {
	if vf.Choose(label+".present", 2) == 0 {
		return nil
	}
	v := vf.Int(label)
	return &v
}

// C17.a: Validate accepts exactly the documented parameter sets.
func zzC17a() {
	enc := EncodingName(vf.Str("enc"))
	comp := compress.Type(vf.Str("comp"))
	level := zzOptInt("level")
	window := zzOptInt("window")
	hadLevel := level != nil
	var lv, wv int
	if level != nil {
		lv = *level
	}
	if window != nil {
		wv = *window
	}
	p := &NegotiationParams{Encoding: enc, Compress: comp, CompressLevel: level, CompressWindowBits: window,
		TransportID: TransportID(vf.Str("tid")), Reconnect: vf.Bool("reconnect")}
	err := p.Validate()

	encOK := enc == "" || enc == EncodingNameJSON || enc == EncodingNameProtobuf
	named := comp == compress.TypePerMessage || comp == compress.TypeContextTakeOver
	compOK := comp == "" || named
	levelOK := !hadLevel || (lv >= 0 && lv <= 9)
	windowOK := window == nil || (wv >= 0 && wv <= 32)

	if !encOK || !compOK {
		vf.Assert("unknown-name-rejected", err != nil)
	}
	if encOK && named && (!levelOK || !windowOK) {
		vf.Assert("out-of-range-rejected", err != nil)
	}
	if encOK && named && levelOK && windowOK {
		vf.Assert("valid-accepted", err == nil)
		vf.Assert("level-defaulted", p.CompressLevel != nil)
		if p.CompressLevel != nil {
			if hadLevel {
				vf.Assert("level-kept", *p.CompressLevel == lv)
			} else {
				vf.Assert("level-default-6", *p.CompressLevel == 6)
			}
		}
	}
	if encOK && comp == "" {
		vf.Assert("no-compress-accepted", err == nil)
	}
	if err == nil {
		vf.Assert("accepted-implies-valid-names", encOK && compOK)
		vf.Assert("others-untouched", p.Encoding == enc && p.Compress == comp && p.CompressWindowBits == window)
	}
	vf.Reach("end")
}

// C17.b: the compression config is a function of (type, level, window) alone — 2-safety over the base.
func zzC17b() {
	comp := compress.Type(vf.Str("comp"))
	vf.Assume(comp == compress.TypePerMessage || comp == compress.TypeContextTakeOver)
	lv, wv := vf.Int("level"), vf.Int("window")
	p1 := &NegotiationParams{Compress: comp, CompressLevel: &lv, CompressWindowBits: &wv}
	lv2, wv2 := lv, wv
	p2 := &NegotiationParams{Compress: comp, CompressLevel: &lv2, CompressWindowBits: &wv2}
	b1 := compress.Config{Enable: vf.Bool("b1.enable"), Level: vf.Int("b1.level"), DisableContextTakeover: vf.Bool("b1.dct"), WindowBits: vf.Int("b1.win")}
	b2 := compress.Config{Enable: vf.Bool("b2.enable"), Level: vf.Int("b2.level"), DisableContextTakeover: vf.Bool("b2.dct"), WindowBits: vf.Int("b2.win")}
	c1 := p1.CompressConfig(b1)
	c2 := p2.CompressConfig(b2)
	vf.Assert("same-enable", c1.Enable == c2.Enable)
	if c1.Enable {
		vf.Assert("same-level", c1.Level == c2.Level && c1.Level == lv)
		vf.Assert("same-window", c1.WindowBits == c2.WindowBits && c1.WindowBits == wv)
		vf.Assert("same-mode", c1.DisableContextTakeover == c2.DisableContextTakeover)
		vf.Assert("mode-from-type", c1.DisableContextTakeover == (comp == compress.TypePerMessage))
	}
	vf.Assert("enable-iff-level-nonzero", c1.Enable == (lv != 0))
	vf.Reach("end")
}

// C17.b2: every dialer-produced parameter set names type, level and window, and carries the ids unchanged.
func zzC17b2() {
	dc := DialConfig{
		Address:                  vf.Str("addr"),
		CompressConfig:           compress.Config{Enable: vf.Bool("enable"), Level: vf.Int("level"), DisableContextTakeover: vf.Bool("dct"), WindowBits: vf.Int("win")},
		EncodingName:             EncodingName(vf.Str("enc")),
		TransportID:              TransportID(vf.Str("tid")),
		Reconnect:                vf.Bool("reconnect"),
		TransportGroupID:         TransportGroupID(vf.Str("tgid")),
		TransportGroupTotalCount: vf.Int("tgcount"),
		TransportGroupIndex:      vf.Int("tgidx"),
	}
	np := dc.NegotiationParams()
	vf.Assert("names-type", np.Compress == compress.TypePerMessage || np.Compress == compress.TypeContextTakeOver)
	vf.Assert("names-level", np.CompressLevel != nil && *np.CompressLevel == dc.CompressConfig.Level)
	vf.Assert("names-window", np.CompressWindowBits != nil && *np.CompressWindowBits == dc.CompressConfig.WindowBits)
	vf.Assert("type-from-config", (np.Compress == compress.TypePerMessage) == dc.CompressConfig.DisableContextTakeover)
	vf.Assert("ids", np.Encoding == dc.EncodingName && np.TransportID == dc.TransportID && np.Reconnect == dc.Reconnect &&
		np.TransportGroupID == dc.TransportGroupID && np.TransportGroupTotalCount == dc.TransportGroupTotalCount && np.TransportGroupIndex == dc.TransportGroupIndex)
	// and the receiving side derives the sender's settings from them
	got := np.CompressConfig(compress.Config{Enable: vf.Bool("o.enable"), Level: vf.Int("o.level"), DisableContextTakeover: vf.Bool("o.dct"), WindowBits: vf.Int("o.win")})
	vf.Assert("peer-enable", got.Enable == (dc.CompressConfig.Level != 0))
	if got.Enable {
		vf.Assert("peer-same", got.Level == dc.CompressConfig.Level && got.WindowBits == dc.CompressConfig.WindowBits && got.DisableContextTakeover == dc.CompressConfig.DisableContextTakeover)
	}
	vf.Reach("end")
}
