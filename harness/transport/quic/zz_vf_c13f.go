package quic

import (
	"bytes"

	"github.com/aptpod/iscp-go/internal/vf"
	"github.com/aptpod/iscp-go/transport"
	"github.com/aptpod/iscp-go/transport/compress"
)

type zzRecW struct {
	writes [][]byte
	all    []byte
}

func (r *zzRecW) Write(b []byte) (int, error) {
	c := make([]byte, len(b))
	copy(c, b)
	r.writes = append(r.writes, c)
	r.all = append(r.all, c...)
	return len(b), nil
}

// C13.f2: the QUIC stream framing for payload lengths around every power-of-two boundary the
// writer could care about (and up to a megabyte): what goes onto the stream for one message is
// exactly the 4-byte big-endian length followed by the payload, byte for byte; the count returned is
// the number of bytes framed; the transport's own reader (decodeFrom) gets each message back, one per
// call, also when several frames follow each other.
func zzC13f2QuicFraming() {
	sizes := [...]int{0, 1, 255, 256, 4095, 4096, 65531, 65532, 65533, 65534, 65535, 65536, 65537, 70000, 1 << 20}
	n1 := sizes[vf.Choose("first.size", len(sizes))]
	n2 := [...]int{0, 16}[vf.Choose("second.size", 2)]
	mk := func(n int, l string) []byte {
		p := make([]byte, n)
		if n > 0 {
			p[0] = vf.U8(l + ".first")
			p[n-1] = vf.U8(l + ".last")
		}
		if n > 8 {
			p[n-5], p[n-4], p[n-3], p[n-2] = 0xde, 0xad, 0xbe, 0xef
		}
		return p
	}
	m1, m2 := mk(n1, "m1"), mk(n2, "m2")
	rec := &zzRecW{}
	k1, e1 := writeTo(rec, m1)
	k2, e2 := writeTo(rec, m2)
	vf.Assert("write-ok", e1 == nil && e2 == nil)
	vf.Assert("count-is-bytes-framed", k1 == 4+n1 && k2 == 4+n2 && len(rec.all) == 8+n1+n2)
	if len(rec.all) != 8+n1+n2 {
		return
	}
	f1 := rec.all[:4+n1]
	vf.Assert("length-prefix-big-endian", f1[0] == byte(n1>>24) && f1[1] == byte(n1>>16) && f1[2] == byte(n1>>8) && f1[3] == byte(n1))
	vf.Assert("payload-verbatim", bytes.Equal(f1[4:], m1))
	f2 := rec.all[4+n1:]
	vf.Assert("next-frame-intact", f2[0] == 0 && f2[1] == 0 && f2[2] == 0 && f2[3] == byte(n2) && bytes.Equal(f2[4:], m2))
	// the reader side of the same transport
	t := &Transport{decodeFunc: func(b []byte) ([]byte, error) { return b, nil }, rxBytesCounter: new(uint64)}
	rd := bytes.NewReader(rec.all)
	g1, r1 := t.decodeFrom(rd)
	g2, r2 := t.decodeFrom(rd)
	vf.Assert("reader-returns-the-same-messages-one-per-call", r1 == nil && r2 == nil && bytes.Equal(g1, m1) && bytes.Equal(g2, m2))
	vf.Reach("end")
}

// C13.g: large, highly compressible messages through the per-message compression step
// (encodeWithCompression / decodeWithCompression): what the reader inflates is the message, byte for
// byte and in full length, also when the frame is as short as DEFLATE permits for it (compress/flate
// is replaced by a stub whose frame for a run of one byte value has the minimal DEFLATE length,
// n/1032 bytes plus a small header; the reader must accept every valid frame, whoever produced it).
func zzC13gCompressibleMessages() {
	sizes := [...]int{2 << 20, 400000, 70000, 65536, 1024}
	n := sizes[vf.Choose("size", len(sizes))]
	v := [...]byte{0, 'a', 0xff}[vf.Choose("value", 3)]
	level := [...]int{6, 9, 1}[vf.Choose("level", 3)]
	msg := bytes.Repeat([]byte{v}, n)
	// (the step is taken from a transport built by New with compression negotiated, as Write / Read use it)
	ab := &zzPipe{ch: make(chan []byte, 4)}
	ba := &zzPipe{ch: make(chan []byte, 4)}
	np := NegotiationParams{NegotiationParams: transport.NegotiationParams{Compress: compress.TypePerMessage, CompressLevel: &level}}
	ta, err1 := New(Config{Connection: &zzConn{out: ab, in: ba, dgIn: make(chan []byte, 1)}, NegotiationParams: np})
	tb, err2 := New(Config{Connection: &zzConn{out: ba, in: ab, dgIn: make(chan []byte, 1)}, NegotiationParams: np})
	vf.Assume(err1 == nil && err2 == nil)
	frame, err := ta.encodeFunc(msg, level)
	vf.Assert("compresses", err == nil)
	if err != nil {
		return
	}
	back, err := tb.decodeFunc(frame)
	vf.Assert("inflates", err == nil)
	vf.Assert("full-length", len(back) == n)
	vf.Assert("byte-for-byte", bytes.Equal(back, msg))
	vf.Reach("end")
}
