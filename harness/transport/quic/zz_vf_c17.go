package quic

import (
	"bytes"
	"encoding/binary"
	"unicode/utf8"

	"github.com/aptpod/iscp-go/internal/vf"
)

func zzFrame(dst []byte, k, v []byte) []byte {
	l := make([]byte, 2)
	binary.BigEndian.PutUint16(l, uint16(len(k)))
	dst = append(dst, l...)
	dst = append(dst, k...)
	binary.BigEndian.PutUint16(l, uint16(len(v)))
	dst = append(dst, l...)
	dst = append(dst, v...)
	return dst
}

// C17.c (round trip of the binary framing): what Marshal's framing loop writes, readKeyValues reads back.
func zzC17cRoundTrip() {
	n := vf.Choose("entries", 3)
	var keys, vals [][]byte
	var buf []byte
	for i := 0; i < n; i++ {
		k := vf.Bytes("k"+string(rune('0'+i)), 2)
		v := vf.Bytes("v"+string(rune('0'+i)), 2)
		vf.Assume(len(k) >= 1)
		vf.Assume(utf8.Valid(k) && utf8.Valid(v))
		for _, pk := range keys {
			vf.Assume(!bytes.Equal(pk, k))
		}
		keys, vals = append(keys, k), append(vals, v)
		buf = zzFrame(buf, k, v)
	}
	m, err := readKeyValues(bytes.NewReader(buf))
	vf.Assert("accepted", err == nil)
	vf.Assert("count", len(m) == n)
	for i := range keys {
		got, ok := m[string(keys[i])]
		vf.Assert("key-present", ok)
		vf.Assert("value-same", got == string(vals[i]))
	}
	vf.Reach("end")
}

// C17.c (hostile input): arbitrary bytes never crash the reader, and whatever it accepts is well formed.
func zzC17cHostile() {
	in := vf.Bytes("in", 10)
	// Buffer sizes are concretised: every length field the parser reaches is <= 8, or 256, or 65535
	// (any length beyond the 10 input bytes fails the same way).
	for pos, f := 0, 0; pos+2 <= len(in) && f < 4; f++ {
		l := int(binary.BigEndian.Uint16(in[pos:]))
		vf.Assume(l <= 8 || l == 256 || l == 65535)
		pos += 2 + l
	}
	var m map[string]string
	var err error
	panicked := vf.Panics(func() { m, err = readKeyValues(bytes.NewReader(in)) })
	vf.Assert("no-panic", !panicked)
	if err == nil {
		// re-parse by hand: the accepted input must be a sequence of well-formed frames
		pos, cnt := 0, 0
		for pos < len(in) {
			vf.Assert("frame-klen", pos+2 <= len(in))
			kl := int(binary.BigEndian.Uint16(in[pos:]))
			pos += 2
			vf.Assert("key-nonempty", kl > 0)
			vf.Assert("frame-key", pos+kl <= len(in))
			k := in[pos : pos+kl]
			pos += kl
			vf.Assert("frame-vlen", pos+2 <= len(in))
			vl := int(binary.BigEndian.Uint16(in[pos:]))
			pos += 2
			vf.Assert("frame-val", pos+vl <= len(in))
			v := in[pos : pos+vl]
			pos += vl
			vf.Assert("utf8", utf8.Valid(k) && utf8.Valid(v))
			got, ok := m[string(k)]
			vf.Assert("in-map", ok && got == string(v))
			cnt++
		}
		vf.Assert("no-duplicates", len(m) == cnt)
	}
	vf.Reach("end")
}
