package quic

import (
	"context"
	"io"
	"sync"
	"time"

	"github.com/aptpod/iscp-go/internal/vf"
	"github.com/aptpod/iscp-go/transport"
	"github.com/aptpod/iscp-go/transport/compress"
	quicgo "github.com/quic-go/quic-go"
)

// zzPipe carries the bytes of one unidirectional stream from a writer to a reader.
type zzPipe struct {
	mu     sync.Mutex
	ch     chan []byte
	left   []byte
	all    []byte
	single bool // deliver one byte per Read call
}

type zzSend struct {
	quicgo.SendStream
	p *zzPipe
}

// zzOnStreamWrite, when set, runs at the start of every Write on a send stream with the number of
// writes seen so far (interference point between a frame's header and its payload).
var zzOnStreamWrite func(k int)
var zzStreamWrites int

func (s *zzSend) Write(b []byte) (int, error) {
	if h := zzOnStreamWrite; h != nil {
		k := zzStreamWrites
		zzStreamWrites++
		h(k)
	}
	c := make([]byte, len(b))
	copy(c, b)
	s.p.mu.Lock()
	s.p.all = append(s.p.all, c...)
	s.p.mu.Unlock()
	s.p.ch <- c
	return len(b), nil
}

type zzRecv struct {
	quicgo.ReceiveStream
	p *zzPipe
}

func (r *zzRecv) Read(b []byte) (int, error) {
	for len(r.p.left) == 0 {
		c, ok := <-r.p.ch
		if !ok {
			return 0, io.EOF
		}
		r.p.left = c
	}
	n := len(r.p.left)
	if n > len(b) {
		n = len(b)
	}
	if r.p.single && n > 1 {
		n = 1
	}
	copy(b, r.p.left[:n])
	r.p.left = r.p.left[n:]
	return n, nil
}

// zzConn is a quic.Connection of which only the methods the transport uses are implemented.
type zzConn struct {
	quicgo.Connection
	out    *zzPipe // our send stream
	in     *zzPipe // the peer's send stream
	dgIn   chan []byte
	dgOut  [][]byte
	closed int
}

func (c *zzConn) OpenUniStream() (quicgo.SendStream, error) { return &zzSend{p: c.out}, nil }
func (c *zzConn) AcceptUniStream(ctx context.Context) (quicgo.ReceiveStream, error) {
	return &zzRecv{p: c.in}, nil
}
func (c *zzConn) ReceiveDatagram(ctx context.Context) ([]byte, error) {
	select {
	case <-ctx.Done():
		return nil, ctx.Err()
	case d, ok := <-c.dgIn:
		if !ok {
			return nil, io.EOF
		}
		return d, nil
	}
}
func (c *zzConn) SendDatagram(b []byte) error {
	d := make([]byte, len(b))
	copy(d, b)
	c.dgOut = append(c.dgOut, d)
	return nil
}
func (c *zzConn) CloseWithError(quicgo.ApplicationErrorCode, string) error { c.closed++; return nil }

func zzPair(single bool) (*Transport, *Transport, *zzConn, *zzConn) {
	ab := &zzPipe{ch: make(chan []byte, 64), single: single}
	ba := &zzPipe{ch: make(chan []byte, 64)}
	ca := &zzConn{out: ab, in: ba, dgIn: make(chan []byte, 16)}
	cb := &zzConn{out: ba, in: ab, dgIn: make(chan []byte, 16)}
	ta, err1 := New(Config{Connection: ca})
	tb, err2 := New(Config{Connection: cb})
	vf.Assume(err1 == nil && err2 == nil)
	return ta, tb, ca, cb
}

func zzSame(a, b []byte) bool {
	if len(a) != len(b) {
		return false
	}
	for i := range a {
		if a[i] != b[i] {
			return false
		}
	}
	return true
}

// C13.a: length-prefixed framing on the reliable stream, compression off.
func zzC13aFraming() {
	single := vf.Choose("stream.delivers.single.bytes", 2) == 1
	ta, tb, _, _ := zzPair(single)
	n := 1 + vf.Choose("messages", 3)
	var msgs [][]byte
	want := uint64(0)
	for i := 0; i < n; i++ {
		m := vf.Bytes("m"+string(rune('0'+i)), 3)
		msgs = append(msgs, m)
		vf.Assert("write-ok", ta.Write(m) == nil)
		want += uint64(4 + len(m))
	}
	vf.Assert("tx-counter-is-framed-bytes", ta.TxBytesCounterValue() == want)
	vf.Settle()
	for i := 0; i < n; i++ {
		got, err := tb.Read()
		vf.Assert("read-ok", err == nil)
		vf.Assert("same-message-in-order", zzSame(got, msgs[i]))
	}
	vf.Assert("rx-counter-is-framed-bytes", tb.RxBytesCounterValue() == want)
	extra := vf.Blocked(func() { tb.Read() })
	vf.Assert("one-message-per-read-nothing-extra", extra)
	vf.Reach("end")
}

// C13.a (framing is the documented one): 4-byte big-endian length, then the payload.
func zzC13aWireFormat() {
	ta, _, ca, _ := zzPair(false)
	m := vf.Bytes("m", 3)
	vf.Assert("write-ok", ta.Write(m) == nil)
	w := ca.out.all
	vf.Assert("frame-length", len(w) == 4+len(m))
	if len(w) == 4+len(m) {
		vf.Assert("length-prefix-big-endian", w[0] == 0 && w[1] == 0 && w[2] == 0 && int(w[3]) == len(m))
		vf.Assert("payload-verbatim", zzSame(w[4:], m))
	}
	vf.Reach("end")
}

// C13.a (truncation): a stream that ends inside a frame yields an error, never a short message.
func zzC13aTruncated() {
	_, tb, _, cb := zzPair(false)
	full := vf.Bytes("payload", 3)
	announced := uint32(len(full)) + 1 + uint32(vf.Choose("missing", 2)) // at least one byte is missing
	hdr := []byte{0, 0, 0, byte(announced)}
	cut := vf.Choose("cut.in.header", 2) == 1
	if cut {
		cb.in.ch <- hdr[:2]
	} else {
		cb.in.ch <- hdr
		if len(full) > 0 {
			cb.in.ch <- full
		}
	}
	close(cb.in.ch)
	vf.Settle()
	got, err := tb.Read()
	vf.Assert("truncated-stream-is-an-error", err != nil && got == nil)
	vf.Reach("end")
}

// C14.g / C13: datagram path — first sequence number is 0, numbers step by one; a message written
// with WriteUnreliable comes back through the peer's datagram reader unchanged.
func zzC14gDatagram() {
	ta, tb, ca, cb := zzPair(false)
	ua, _ := ta.AsUnreliable()
	ub, _ := tb.AsUnreliable()
	m1, m2 := vf.Bytes("m1", 3), vf.Bytes("m2", 3)
	vf.Assert("dg-write-ok", ua.Write(m1) == nil && ua.Write(m2) == nil)
	vf.Assert("one-datagram-each", len(ca.dgOut) == 2)
	if len(ca.dgOut) == 2 {
		d1, d2 := ca.dgOut[0], ca.dgOut[1]
		vf.Assert("first-sequence-number-is-0", d1[0] == 0 && d1[1] == 0 && d1[2] == 0 && d1[3] == 0)
		vf.Assert("second-sequence-number-is-1", d2[0] == 0 && d2[1] == 0 && d2[2] == 0 && d2[3] == 1)
		vf.Assert("tx-counts-datagram-bytes", ta.TxBytesCounterValue() == uint64(len(d1)+len(d2)))
		cb.dgIn <- d2
		cb.dgIn <- d1
		vf.Settle()
		g1, e1 := ub.Read()
		g2, e2 := ub.Read()
		vf.Assert("datagrams-reassembled", e1 == nil && e2 == nil && zzSame(g1, m2) && zzSame(g2, m1))
	}
	vf.Reach("end")
}

// C14.i: several datagram writers on one transport (two handles from AsUnreliable and the
// transport's own WriteUnreliable): every message in flight carries its own sequence number, so the
// peer - which keys reassembly by that number - hands up exactly the written messages whatever the
// arrival order, never a mixture.
func zzC14iTwoWriters() {
	ta, tb, ca, cb := zzPair(false)
	u1, _ := ta.AsUnreliable()
	u2, _ := ta.AsUnreliable()
	ub, _ := tb.AsUnreliable()
	m1, m2, m3 := vf.BytesN("m1", 2), vf.BytesN("m2", 2), vf.BytesN("m3", 2)
	vf.Assume(!zzSame(m1, m2) && !zzSame(m1, m3) && !zzSame(m2, m3))
	vf.Assert("dg-write-ok", u1.Write(m1) == nil && u2.Write(m2) == nil && ta.WriteUnreliable(m3) == nil)
	vf.Assert("one-datagram-each", len(ca.dgOut) == 3)
	if len(ca.dgOut) != 3 {
		return
	}
	seq := func(d []byte) uint32 { return uint32(d[0])<<24 | uint32(d[1])<<16 | uint32(d[2])<<8 | uint32(d[3]) }
	s1, s2, s3 := seq(ca.dgOut[0]), seq(ca.dgOut[1]), seq(ca.dgOut[2])
	vf.Assert("sequence-numbers-of-messages-in-flight-are-distinct", s1 != s2 && s1 != s3 && s2 != s3)
	perm := [][3]int{{0, 1, 2}, {0, 2, 1}, {1, 0, 2}, {1, 2, 0}, {2, 0, 1}, {2, 1, 0}}[vf.Choose("arrival.order", 6)]
	for _, i := range perm {
		cb.dgIn <- ca.dgOut[i]
	}
	vf.Settle()
	want := [][]byte{m1, m2, m3}
	for _, i := range perm {
		g, e := ub.Read()
		vf.Assert("each-message-handed-up-exactly", e == nil && zzSame(g, want[i]))
	}
	vf.Reach("end")
}

// C13.e: QUIC transport with per-message compression negotiated (compress/flate replaced by the
// framing stub): messages round-trip on the stream and on the datagram channel, and a datagram
// writer that runs while a stream writer sits between a frame's length header and its payload does
// not disturb either message.
func zzC13eCompressedWriters() {
	ab := &zzPipe{ch: make(chan []byte, 64)}
	ba := &zzPipe{ch: make(chan []byte, 64)}
	ca := &zzConn{out: ab, in: ba, dgIn: make(chan []byte, 16)}
	cb := &zzConn{out: ba, in: ab, dgIn: make(chan []byte, 16)}
	level := 1 + vf.Choose("level", 2)
	np := NegotiationParams{NegotiationParams: transport.NegotiationParams{Compress: compress.TypePerMessage, CompressLevel: &level}}
	ta, err1 := New(Config{Connection: ca, NegotiationParams: np})
	tb, err2 := New(Config{Connection: cb, NegotiationParams: np})
	vf.Assume(err1 == nil && err2 == nil)
	vf.Assert("compression-is-on", ta.compressConfig.Enable && tb.compressConfig.Enable && ta.compressConfig.Level == level)
	ub, _ := tb.AsUnreliable()
	ua, _ := ta.AsUnreliable()
	mA, mB, mC := vf.BytesN("stream.msg", 3), vf.BytesN("datagram.msg", 2), vf.BytesN("second.stream.msg", 1)
	interfere := vf.Choose("datagram.writer", 3) // 0 none, 1 WriteUnreliable, 2 an AsUnreliable handle
	var derr error
	zzStreamWrites = 0
	zzOnStreamWrite = func(k int) {
		if k == 1 && interfere != 0 { // message A's header is out, its payload is next
			if interfere == 1 {
				derr = ta.WriteUnreliable(mB)
			} else {
				derr = ua.Write(mB)
			}
		}
	}
	vf.Assert("stream-write-ok", ta.Write(mA) == nil && derr == nil)
	zzOnStreamWrite = nil
	vf.Assert("second-stream-write-ok", ta.Write(mC) == nil)
	for _, d := range ca.dgOut {
		cb.dgIn <- d
	}
	vf.Settle()
	g1, e1 := tb.Read()
	vf.Assert("stream-message-byte-identical", e1 == nil && zzSame(g1, mA))
	g2, e2 := tb.Read()
	vf.Assert("next-stream-message-byte-identical", e2 == nil && zzSame(g2, mC))
	if interfere != 0 {
		vf.Assert("one-datagram", len(ca.dgOut) == 1)
		g3, e3 := ub.Read()
		vf.Assert("datagram-message-byte-identical", e3 == nil && zzSame(g3, mB))
	}
	vf.Reach("end")
}

// C14.j: expiry on an idle QUIC connection: an incomplete datagram message is forgotten after the
// expiry time also when nothing else arrives in the meantime; a late segment carrying the same
// sequence number then starts a new message instead of completing (or mixing with) the old one.
func zzC14jExpiryWhenIdle() {
	ab := &zzPipe{ch: make(chan []byte, 64)}
	ba := &zzPipe{ch: make(chan []byte, 64)}
	cb := &zzConn{out: ba, in: ab, dgIn: make(chan []byte, 16)}
	expiry := 3 * time.Second
	tb, err := New(Config{Connection: cb, ReadBufferExpiry: expiry})
	vf.Assume(err == nil)
	ub, _ := tb.AsUnreliable()
	vf.Settle()
	hdr := func(seq uint32, maxIdx, idx uint16, body ...byte) []byte {
		return append([]byte{byte(seq >> 24), byte(seq >> 16), byte(seq >> 8), byte(seq), byte(maxIdx >> 8), byte(maxIdx), byte(idx >> 8), byte(idx)}, body...)
	}
	seq := vf.U32("sequence.number")
	old0, new0, new1 := vf.U8("old.seg0"), vf.U8("new.seg0"), vf.U8("new.seg1")
	cb.dgIn <- hdr(seq, 1, 0, old0) // first half of a two-segment message; the second half never comes
	vf.Settle()
	idle := expiry + time.Duration(1+vf.Choose("extra.idle.seconds", 3))*time.Second
	vf.Advance(idle) // complete silence, longer than the expiry
	vf.Assert("incomplete-message-forgotten-when-idle", len(tb.readBufferForUnreliable.ReadBuffer) == 0)
	// a new message that reuses the number (wrap-around, or a restarted sender): second segment first
	cb.dgIn <- hdr(seq, 1, 1, new1)
	vf.Settle()
	// (no parked reader here: it would take the message that completes later)
	vf.Assert("late-segment-does-not-complete-the-expired-message", len(tb.readUnreliableC) == 0)
	cb.dgIn <- hdr(seq, 1, 0, new0)
	vf.Settle()
	var got []byte
	var rerr error
	blocked := vf.Blocked(func() { got, rerr = ub.Read() })
	vf.Assert("new-message-handed-up-unmixed", !blocked && rerr == nil && len(got) == 2 && got[0] == new0 && got[1] == new1)
	vf.Reach("end")
}
