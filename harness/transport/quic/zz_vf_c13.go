package quic

import (
	"context"
	"io"
	"sync"

	"github.com/aptpod/iscp-go/internal/vf"
	quicgo "github.com/quic-go/quic-go"
)

// zzPipe carries the bytes of one unidirectional stream from a writer to a reader.
type zzPipe struct {
	mu     sync.Mutex
	ch     chan []byte
	left   []byte
	all    []byte
	single bool // deliver one byte per Read call
}

type zzSend struct {
	quicgo.SendStream
	p *zzPipe
}

func (s *zzSend) Write(b []byte) (int, error) {
	c := make([]byte, len(b))
	copy(c, b)
	s.p.mu.Lock()
	s.p.all = append(s.p.all, c...)
	s.p.mu.Unlock()
	s.p.ch <- c
	return len(b), nil
}

type zzRecv struct {
	quicgo.ReceiveStream
	p *zzPipe
}

func (r *zzRecv) Read(b []byte) (int, error) {
	for len(r.p.left) == 0 {
		c, ok := <-r.p.ch
		if !ok {
			return 0, io.EOF
		}
		r.p.left = c
	}
	n := len(r.p.left)
	if n > len(b) {
		n = len(b)
	}
	if r.p.single && n > 1 {
		n = 1
	}
	copy(b, r.p.left[:n])
	r.p.left = r.p.left[n:]
	return n, nil
}

// zzConn is a quic.Connection of which only the methods the transport uses are implemented.
type zzConn struct {
	quicgo.Connection
	out    *zzPipe // our send stream
	in     *zzPipe // the peer's send stream
	dgIn   chan []byte
	dgOut  [][]byte
	closed int
}

func (c *zzConn) OpenUniStream() (quicgo.SendStream, error) { return &zzSend{p: c.out}, nil }
func (c *zzConn) AcceptUniStream(ctx context.Context) (quicgo.ReceiveStream, error) {
	return &zzRecv{p: c.in}, nil
}
func (c *zzConn) ReceiveDatagram(ctx context.Context) ([]byte, error) {
	select {
	case <-ctx.Done():
		return nil, ctx.Err()
	case d, ok := <-c.dgIn:
		if !ok {
			return nil, io.EOF
		}
		return d, nil
	}
}
func (c *zzConn) SendDatagram(b []byte) error {
	d := make([]byte, len(b))
	copy(d, b)
	c.dgOut = append(c.dgOut, d)
	return nil
}
func (c *zzConn) CloseWithError(quicgo.ApplicationErrorCode, string) error { c.closed++; return nil }

func zzPair(single bool) (*Transport, *Transport, *zzConn, *zzConn) {
	ab := &zzPipe{ch: make(chan []byte, 64), single: single}
	ba := &zzPipe{ch: make(chan []byte, 64)}
	ca := &zzConn{out: ab, in: ba, dgIn: make(chan []byte, 16)}
	cb := &zzConn{out: ba, in: ab, dgIn: make(chan []byte, 16)}
	ta, err1 := New(Config{Connection: ca})
	tb, err2 := New(Config{Connection: cb})
	vf.Assume(err1 == nil && err2 == nil)
	return ta, tb, ca, cb
}

func zzSame(a, b []byte) bool {
	if len(a) != len(b) {
		return false
	}
	for i := range a {
		if a[i] != b[i] {
			return false
		}
	}
	return true
}

// C13.a: length-prefixed framing on the reliable stream, compression off.
func zzC13aFraming() {
	single := vf.Choose("stream.delivers.single.bytes", 2) == 1
	ta, tb, _, _ := zzPair(single)
	n := 1 + vf.Choose("messages", 3)
	var msgs [][]byte
	want := uint64(0)
	for i := 0; i < n; i++ {
		m := vf.Bytes("m"+string(rune('0'+i)), 3)
		msgs = append(msgs, m)
		vf.Assert("write-ok", ta.Write(m) == nil)
		want += uint64(4 + len(m))
	}
	vf.Assert("tx-counter-is-framed-bytes", ta.TxBytesCounterValue() == want)
	vf.Settle()
	for i := 0; i < n; i++ {
		got, err := tb.Read()
		vf.Assert("read-ok", err == nil)
		vf.Assert("same-message-in-order", zzSame(got, msgs[i]))
	}
	vf.Assert("rx-counter-is-framed-bytes", tb.RxBytesCounterValue() == want)
	extra := vf.Blocked(func() { tb.Read() })
	vf.Assert("one-message-per-read-nothing-extra", extra)
	vf.Reach("end")
}

// C13.a (framing is the documented one): 4-byte big-endian length, then the payload.
func zzC13aWireFormat() {
	ta, _, ca, _ := zzPair(false)
	m := vf.Bytes("m", 3)
	vf.Assert("write-ok", ta.Write(m) == nil)
	w := ca.out.all
	vf.Assert("frame-length", len(w) == 4+len(m))
	if len(w) == 4+len(m) {
		vf.Assert("length-prefix-big-endian", w[0] == 0 && w[1] == 0 && w[2] == 0 && int(w[3]) == len(m))
		vf.Assert("payload-verbatim", zzSame(w[4:], m))
	}
	vf.Reach("end")
}

// C13.a (truncation): a stream that ends inside a frame yields an error, never a short message.
func zzC13aTruncated() {
	_, tb, _, cb := zzPair(false)
	full := vf.Bytes("payload", 3)
	announced := uint32(len(full)) + 1 + uint32(vf.Choose("missing", 2)) // at least one byte is missing
	hdr := []byte{0, 0, 0, byte(announced)}
	cut := vf.Choose("cut.in.header", 2) == 1
	if cut {
		cb.in.ch <- hdr[:2]
	} else {
		cb.in.ch <- hdr
		if len(full) > 0 {
			cb.in.ch <- full
		}
	}
	close(cb.in.ch)
	vf.Settle()
	got, err := tb.Read()
	vf.Assert("truncated-stream-is-an-error", err != nil && got == nil)
	vf.Reach("end")
}

// C14.g / C13: datagram path — first sequence number is 0, numbers step by one; a message written
// with WriteUnreliable comes back through the peer's datagram reader unchanged.
func zzC14gDatagram() {
	ta, tb, ca, cb := zzPair(false)
	ua, _ := ta.AsUnreliable()
	ub, _ := tb.AsUnreliable()
	m1, m2 := vf.Bytes("m1", 3), vf.Bytes("m2", 3)
	vf.Assert("dg-write-ok", ua.Write(m1) == nil && ua.Write(m2) == nil)
	vf.Assert("one-datagram-each", len(ca.dgOut) == 2)
	if len(ca.dgOut) == 2 {
		d1, d2 := ca.dgOut[0], ca.dgOut[1]
		vf.Assert("first-sequence-number-is-0", d1[0] == 0 && d1[1] == 0 && d1[2] == 0 && d1[3] == 0)
		vf.Assert("second-sequence-number-is-1", d2[0] == 0 && d2[1] == 0 && d2[2] == 0 && d2[3] == 1)
		vf.Assert("tx-counts-datagram-bytes", ta.TxBytesCounterValue() == uint64(len(d1)+len(d2)))
		cb.dgIn <- d2
		cb.dgIn <- d1
		vf.Settle()
		g1, e1 := ub.Read()
		g2, e2 := ub.Read()
		vf.Assert("datagrams-reassembled", e1 == nil && e2 == nil && zzSame(g1, m2) && zzSame(g2, m1))
	}
	vf.Reach("end")
}
