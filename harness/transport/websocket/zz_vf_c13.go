package websocket

import (
	"bytes"
	"context"
	"io"
	"sync"

	"github.com/aptpod/iscp-go/internal/vf"
	"github.com/aptpod/iscp-go/transport"
	"github.com/aptpod/iscp-go/transport/compress"
)

// zzLink is an in-memory WebSocket connection: one message per Writer, delivered whole to the peer.
type zzLink struct {
	out *[][]byte
	in  *[][]byte
}

type zzMsgWriter struct {
	buf bytes.Buffer
	dst *[][]byte
}

func (w *zzMsgWriter) Write(b []byte) (int, error) { return w.buf.Write(b) }
func (w *zzMsgWriter) Close() error {
	c := make([]byte, w.buf.Len())
	copy(c, w.buf.Bytes())
	*w.dst = append(*w.dst, c)
	return nil
}

func (l *zzLink) Close() error                                        { return nil }
func (l *zzLink) CloseWithStatus(transport.CloseStatus) error         { return nil }
func (l *zzLink) Ping(context.Context) error                          { return nil }
func (l *zzLink) Writer(context.Context, MessageType) (io.WriteCloser, error) {
	return &zzMsgWriter{dst: l.out}, nil
}
func (l *zzLink) Reader(context.Context) (MessageType, io.Reader, error) {
	if len(*l.in) == 0 {
		return 0, nil, io.EOF
	}
	m := (*l.in)[0]
	*l.in = (*l.in)[1:]
	return MessageBinary, bytes.NewReader(m), nil
}

func zzWsPair(cc compress.Config) (*Transport, *Transport) {
	var ab, ba [][]byte
	np := NegotiationParams{}
	lv, wb := cc.Level, cc.WindowBits
	np.Compress = cc.Type()
	np.CompressLevel = &lv
	np.CompressWindowBits = &wb
	a := New(Config{Conn: &zzLink{out: &ab, in: &ba}, CompressConfig: cc, NegotiationParams: np})
	b := New(Config{Conn: &zzLink{out: &ba, in: &ab}, CompressConfig: cc, NegotiationParams: np})
	return a, b
}

func zzBEq(a, b []byte) bool {
	if len(a) != len(b) {
		return false
	}
	for i := range a {
		if a[i] != b[i] {
			return false
		}
	}
	return true
}

// C13.b: context-takeover mode keeps the two dictionary windows identical and within the negotiated
// window size after every message, so every message comes back byte-identical and in order.
// (compress/flate is replaced by a stub whose decompressor succeeds iff both dictionaries are equal.)
func zzC13bContextTakeover() {
	bits := vf.Choose("window.bits", 3) // window of 1, 2 or 4 bytes
	cc := compress.Config{Enable: true, Level: 1 + vf.Choose("level", 2), DisableContextTakeover: false, WindowBits: bits}
	a, b := zzWsPair(cc)
	win := 1 << bits
	n := 2 + vf.Choose("messages", 2)
	for i := 0; i < n; i++ {
		m := vf.Bytes("m"+string(rune('0'+i)), 6) // up to 6 bytes: larger than every window
		vf.Assert("write-ok", a.Write(m) == nil)
		got, err := b.Read()
		vf.Assert("read-ok", err == nil)
		vf.Assert("same-message", zzBEq(got, m))
		vf.Assert("windows-identical", zzBEq(a.writeWindowBuf.Bytes(), b.readWindowBuf.Bytes()))
		vf.Assert("write-window-bounded", a.writeWindowBuf.Len() <= win)
		vf.Assert("read-window-bounded", b.readWindowBuf.Len() <= win)
		if err != nil {
			return
		}
	}
	vf.Assert("counters-agree", a.TxBytesCounterValue() == b.RxBytesCounterValue())
	vf.Reach("end")
}

// C13.c: per-message compression and no compression: every message independent, byte-identical.
func zzC13cPerMessage() {
	cc := compress.Config{Enable: vf.Choose("enable", 2) == 1, Level: 1, DisableContextTakeover: true, WindowBits: vf.Choose("bits", 3)}
	a, b := zzWsPair(cc)
	for i := 0; i < 2; i++ {
		m := vf.Bytes("m"+string(rune('0'+i)), 3)
		vf.Assert("write-ok", a.Write(m) == nil)
		got, err := b.Read()
		vf.Assert("same-message", err == nil && zzBEq(got, m))
	}
	vf.Assert("no-dictionary-kept", a.writeWindowBuf.Len() == 0 && b.readWindowBuf.Len() == 0)
	vf.Assert("counters-agree", a.TxBytesCounterValue() == b.RxBytesCounterValue())
	vf.Reach("end")
}

// zzGateLink is zzLink whose message writer is exclusive, as on the real backends (a second Writer
// call blocks until the previous message has been closed), and which holds the very first Writer
// caller at a gate until the harness releases it — so that a later writer can overtake it at the
// connection, whatever each of them did before asking for the writer.
type zzGateLink struct {
	zzLink
	mu      sync.Mutex
	cmu     sync.Mutex
	calls   int
	release chan struct{}
}

type zzGateWriter struct {
	zzMsgWriter
	l *zzGateLink
}

func (w *zzGateWriter) Close() error {
	err := w.zzMsgWriter.Close()
	w.l.mu.Unlock()
	return err
}

func (l *zzGateLink) Writer(context.Context, MessageType) (io.WriteCloser, error) {
	l.cmu.Lock()
	l.calls++
	first := l.calls == 1
	l.cmu.Unlock()
	if first {
		<-l.release
	}
	l.mu.Lock()
	return &zzGateWriter{zzMsgWriter: zzMsgWriter{dst: l.out}, l: l}, nil
}

// C13.d: concurrent writers in context-takeover mode: the frames reach the wire in the order in which
// they were compressed, also when a later writer overtakes an earlier one at the connection's
// exclusive message writer; the peer decodes every message and the windows stay identical.
func zzC13dConcurrentWriters() {
	cc := compress.Config{Enable: true, Level: 1, DisableContextTakeover: false, WindowBits: 2}
	var ab, ba [][]byte
	np := NegotiationParams{}
	lv, wb := cc.Level, cc.WindowBits
	np.Compress = cc.Type()
	np.CompressLevel = &lv
	np.CompressWindowBits = &wb
	link := &zzGateLink{zzLink: zzLink{out: &ab, in: &ba}, release: make(chan struct{})}
	a := New(Config{Conn: link, CompressConfig: cc, NegotiationParams: np})
	b := New(Config{Conn: &zzLink{out: &ba, in: &ab}, CompressConfig: cc, NegotiationParams: np})
	m1, m2 := vf.BytesN("m1", 3), vf.BytesN("m2", 3)
	vf.Assume(m1[2] != m2[2]) // so that the two possible window contents differ
	var e1, e2 error
	d1, d2 := false, false
	go func() { e1 = a.Write(m1); d1 = true }()
	vf.Settle() // writer 1 is parked at the connection's gate
	go func() { e2 = a.Write(m2); d2 = true }()
	vf.Settle() // writer 2 overtakes it
	vf.Assert("second-writer-not-held-up", d2 && e2 == nil && !d1)
	close(link.release)
	vf.Settle()
	vf.Assert("both-writes-return", d1 && d2 && e1 == nil && e2 == nil)
	vf.Assert("two-frames-on-the-wire", len(ab) == 2)
	g1, r1 := b.Read()
	g2, r2 := b.Read()
	// (checked first: with the real DEFLATE a window mismatch only breaks decoding when a
	// back-reference reaches into the differing part, the mismatch itself is always observable)
	vf.Assert("windows-identical", zzBEq(a.writeWindowBuf.Bytes(), b.readWindowBuf.Bytes()))
	vf.Assert("peer-decodes-both", r1 == nil && r2 == nil)
	if r1 == nil && r2 == nil {
		vf.Assert("wire-order-is-compression-order", zzBEq(g1, m2) && zzBEq(g2, m1))
	}
	vf.Reach("end")
}

// zzExclLink hands out one message writer at a time, as the WebSocket libraries do: Writer blocks
// while another message is being written.
type zzExclLink struct {
	zzLink
	mu sync.Mutex
}

type zzExclWriter struct {
	zzMsgWriter
	l *zzExclLink
}

func (w *zzExclWriter) Close() error {
	err := w.zzMsgWriter.Close()
	w.l.mu.Unlock()
	return err
}

func (l *zzExclLink) Writer(context.Context, MessageType) (io.WriteCloser, error) {
	l.mu.Lock()
	return &zzExclWriter{zzMsgWriter: zzMsgWriter{dst: l.out}, l: l}, nil
}

// C13.d2: two (or three) writers on one context-takeover transport under every schedule within a
// deviation budget: whatever order the writes take effect in, the peer decodes every message, each
// exactly once, and both windows stay identical.
func zzC13d2WritersAnySchedule() {
	cc := compress.Config{Enable: true, Level: 1, DisableContextTakeover: false, WindowBits: 2}
	var ab, ba [][]byte
	np := NegotiationParams{}
	lv, wb := cc.Level, cc.WindowBits
	np.Compress = cc.Type()
	np.CompressLevel = &lv
	np.CompressWindowBits = &wb
	a := New(Config{Conn: &zzExclLink{zzLink: zzLink{out: &ab, in: &ba}}, CompressConfig: cc, NegotiationParams: np})
	b := New(Config{Conn: &zzLink{out: &ba, in: &ab}, CompressConfig: cc, NegotiationParams: np})
	n := 2 + vf.Choose("writers", 2)
	msgs := [][]byte{{1, 1, 1}, {2, 2}, {3, 3, 3, 3, 3}}
	vf.Deviations(2)
	done := 0
	var errs [3]error
	for i := 0; i < n; i++ {
		i := i
		go func() { errs[i] = a.Write(msgs[i]); done++ }()
	}
	vf.Settle()
	vf.Deviations(0)
	vf.Assert("all-writes-return", done == n && errs[0] == nil && errs[1] == nil && errs[2] == nil)
	vf.Assert("one-frame-per-message", len(ab) == n)
	seen := [3]int{}
	for i := 0; i < n; i++ {
		g, err := b.Read()
		vf.Assert("peer-decodes-every-frame", err == nil)
		if err != nil {
			return
		}
		hit := false
		for k := 0; k < n; k++ {
			if zzBEq(g, msgs[k]) {
				seen[k]++
				hit = true
			}
		}
		vf.Assert("a-written-message-unchanged", hit)
	}
	vf.Assert("each-message-exactly-once", seen[0] == 1 && seen[1] == 1 && (n == 2 || seen[2] == 1))
	vf.Assert("windows-identical", zzBEq(a.writeWindowBuf.Bytes(), b.readWindowBuf.Bytes()))
	vf.Reach("end")
}

// C13.g3: large, highly compressible messages over the WebSocket transport, per-message and with
// context takeover: a short message, the large one (its frame as short as DEFLATE permits - see the
// flate stub), and a short one again come back byte for byte, in order, one per Read; with context
// takeover the two windows stay identical and bounded across the large message.
func zzC13g3CompressibleMessages() {
	sizes := [...]int{2 << 20, 400000, 70000, 1024}
	n := sizes[vf.Choose("size", len(sizes))]
	v := [...]byte{0, 'a'}[vf.Choose("value", 2)]
	takeover := vf.Choose("context.takeover", 2) == 1
	cc := compress.Config{Enable: true, Level: [...]int{6, 1}[vf.Choose("level", 2)], DisableContextTakeover: !takeover, WindowBits: 2}
	a, b := zzWsPair(cc)
	big := bytes.Repeat([]byte{v}, n)
	msgs := [][]byte{{1, 2, 3}, big, {4, 5}}
	for i, m := range msgs {
		vf.Assert("write-ok", a.Write(m) == nil)
		got, err := b.Read()
		vf.Assert("read-ok", err == nil)
		if err != nil {
			return
		}
		vf.Assert("full-length", len(got) == len(m))
		vf.Assert("byte-for-byte", bytes.Equal(got, m))
		if takeover {
			vf.Assert("windows-identical-and-bounded", zzBEq(a.writeWindowBuf.Bytes(), b.readWindowBuf.Bytes()) && a.writeWindowBuf.Len() <= 4)
		}
		_ = i
	}
	vf.Assert("counters-agree", a.TxBytesCounterValue() == b.RxBytesCounterValue())
	vf.Reach("end")
}
