package websocket

import (
	"bytes"
	"context"
	"io"

	"github.com/aptpod/iscp-go/internal/vf"
	"github.com/aptpod/iscp-go/transport"
	"github.com/aptpod/iscp-go/transport/compress"
)

// zzLink is an in-memory WebSocket connection: one message per Writer, delivered whole to the peer.
type zzLink struct {
	out *[][]byte
	in  *[][]byte
}

type zzMsgWriter struct {
	buf bytes.Buffer
	dst *[][]byte
}

func (w *zzMsgWriter) Write(b []byte) (int, error) { return w.buf.Write(b) }
func (w *zzMsgWriter) Close() error {
	c := make([]byte, w.buf.Len())
	copy(c, w.buf.Bytes())
	*w.dst = append(*w.dst, c)
	return nil
}

func (l *zzLink) Close() error                                        { return nil }
func (l *zzLink) CloseWithStatus(transport.CloseStatus) error         { return nil }
func (l *zzLink) Ping(context.Context) error                          { return nil }
func (l *zzLink) Writer(context.Context, MessageType) (io.WriteCloser, error) {
	return &zzMsgWriter{dst: l.out}, nil
}
func (l *zzLink) Reader(context.Context) (MessageType, io.Reader, error) {
	if len(*l.in) == 0 {
		return 0, nil, io.EOF
	}
	m := (*l.in)[0]
	*l.in = (*l.in)[1:]
	return MessageBinary, bytes.NewReader(m), nil
}

func zzWsPair(cc compress.Config) (*Transport, *Transport) {
	var ab, ba [][]byte
	np := NegotiationParams{}
	lv, wb := cc.Level, cc.WindowBits
	np.Compress = cc.Type()
	np.CompressLevel = &lv
	np.CompressWindowBits = &wb
	a := New(Config{Conn: &zzLink{out: &ab, in: &ba}, CompressConfig: cc, NegotiationParams: np})
	b := New(Config{Conn: &zzLink{out: &ba, in: &ab}, CompressConfig: cc, NegotiationParams: np})
	return a, b
}

func zzBEq(a, b []byte) bool {
	if len(a) != len(b) {
		return false
	}
	for i := range a {
		if a[i] != b[i] {
			return false
		}
	}
	return true
}

// C13.b: context-takeover mode keeps the two dictionary windows identical and within the negotiated
// window size after every message, so every message comes back byte-identical and in order.
// (compress/flate is replaced by a stub whose decompressor succeeds iff both dictionaries are equal.)
func zzC13bContextTakeover() {
	bits := vf.Choose("window.bits", 3) // window of 1, 2 or 4 bytes
	cc := compress.Config{Enable: true, Level: 1 + vf.Choose("level", 2), DisableContextTakeover: false, WindowBits: bits}
	a, b := zzWsPair(cc)
	win := 1 << bits
	n := 2 + vf.Choose("messages", 2)
	for i := 0; i < n; i++ {
		m := vf.Bytes("m"+string(rune('0'+i)), 6) // up to 6 bytes: larger than every window
		vf.Assert("write-ok", a.Write(m) == nil)
		got, err := b.Read()
		vf.Assert("read-ok", err == nil)
		vf.Assert("same-message", zzBEq(got, m))
		vf.Assert("windows-identical", zzBEq(a.writeWindowBuf.Bytes(), b.readWindowBuf.Bytes()))
		vf.Assert("write-window-bounded", a.writeWindowBuf.Len() <= win)
		vf.Assert("read-window-bounded", b.readWindowBuf.Len() <= win)
		if err != nil {
			return
		}
	}
	vf.Assert("counters-agree", a.TxBytesCounterValue() == b.RxBytesCounterValue())
	vf.Reach("end")
}

// C13.c: per-message compression and no compression: every message independent, byte-identical.
func zzC13cPerMessage() {
	cc := compress.Config{Enable: vf.Choose("enable", 2) == 1, Level: 1, DisableContextTakeover: true, WindowBits: vf.Choose("bits", 3)}
	a, b := zzWsPair(cc)
	for i := 0; i < 2; i++ {
		m := vf.Bytes("m"+string(rune('0'+i)), 3)
		vf.Assert("write-ok", a.Write(m) == nil)
		got, err := b.Read()
		vf.Assert("same-message", err == nil && zzBEq(got, m))
	}
	vf.Assert("no-dictionary-kept", a.writeWindowBuf.Len() == 0 && b.readWindowBuf.Len() == 0)
	vf.Assert("counters-agree", a.TxBytesCounterValue() == b.RxBytesCounterValue())
	vf.Reach("end")
}
