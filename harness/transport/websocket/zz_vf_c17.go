package websocket

import (
	"fmt"
	"net/url"
	"strconv"

	"github.com/aptpod/iscp-go/internal/vf"
	"github.com/aptpod/iscp-go/transport"
	"github.com/aptpod/iscp-go/transport/compress"
)

// Model of the key/value codec of transport.NegotiationParams (encoding/json driven by the struct
// tags: enc, comp, clevel, cwinbits, tid, reconnect, tgid, tgcount, tgidx; omitempty; numbers as
// strings; unknown keys ignored). The symbolic run uses it in place of the reflection-driven code;
// natively the real codec runs.
func zzModelUnmarshalKeyValues(p *transport.NegotiationParams, kv map[string]string) error {
	num := func(s string) (int, error) {
		n, err := strconv.Atoi(s)
		if err != nil {
			return 0, fmt.Errorf("invalid number %q", s)
		}
		return n, nil
	}
	for k, v := range kv {
		switch k {
		case "enc":
			p.Encoding = transport.EncodingName(v)
		case "comp":
			p.Compress = compress.Type(v)
		case "clevel":
			n, err := num(v)
			if err != nil {
				return err
			}
			p.CompressLevel = &n
		case "cwinbits":
			n, err := num(v)
			if err != nil {
				return err
			}
			p.CompressWindowBits = &n
		case "tid":
			p.TransportID = transport.TransportID(v)
		case "reconnect":
			switch v {
			case "true":
				p.Reconnect = true
			case "false":
				p.Reconnect = false
			default:
				return fmt.Errorf("invalid boolean value for reconnect: %s", v)
			}
		case "tgid":
			p.TransportGroupID = transport.TransportGroupID(v)
		case "tgcount":
			n, err := num(v)
			if err != nil {
				return err
			}
			p.TransportGroupTotalCount = n
		case "tgidx":
			n, err := num(v)
			if err != nil {
				return err
			}
			p.TransportGroupIndex = n
		}
	}
	return nil
}

func zzModelMarshalKeyValues(p *transport.NegotiationParams) (map[string]string, error) {
	res := map[string]string{}
	if p.Encoding != "" {
		res["enc"] = string(p.Encoding)
	}
	if p.Compress != "" {
		res["comp"] = string(p.Compress)
	}
	if p.CompressLevel != nil {
		res["clevel"] = strconv.Itoa(*p.CompressLevel)
	}
	if p.CompressWindowBits != nil {
		res["cwinbits"] = strconv.Itoa(*p.CompressWindowBits)
	}
	if p.TransportID != "" {
		res["tid"] = string(p.TransportID)
	}
	if p.Reconnect {
		res["reconnect"] = "true"
	}
	if p.TransportGroupID != "" {
		res["tgid"] = string(p.TransportGroupID)
	}
	if p.TransportGroupTotalCount != 0 {
		res["tgcount"] = strconv.Itoa(p.TransportGroupTotalCount)
	}
	if p.TransportGroupIndex != 0 {
		res["tgidx"] = strconv.Itoa(p.TransportGroupIndex)
	}
	return res, nil
}

const zzNegPkg = "(*github.com/aptpod/iscp-go/transport.NegotiationParams)."

// C17.d: the URL-query carrier of the negotiation parameters (MarshalURLValues / UnmarshalURLValues,
// directly and through an encoded query string): what the accepting side reads back is the parameter
// set the dialer wrote - type, level, window, transport id, group id / count / index, reconnect flag -
// also for ids that contain characters with a meaning in a query string (+, %, &, =, space, non-ASCII).
func zzC17dURLCarrier() {
	vf.Stub(zzNegPkg+"UnmarshalKeyValues", zzModelUnmarshalKeyValues)
	vf.Stub(zzNegPkg+"MarshalKeyValues", zzModelMarshalKeyValues)
	ids := [...]string{"0f3c9a3e-plain", "QUJD+0RF/w==", "rack%2F7", "load 100%", "a&b=c d", "", "\u65e5\u672c%"}
	tid := transport.TransportID(ids[vf.Choose("transport.id", len(ids))])
	tgid := transport.TransportGroupID(ids[vf.Choose("group.id", len(ids))])
	level := [...]int{0, 6, 9}[vf.Choose("level", 3)]
	bits := 10
	in := NegotiationParams{NegotiationParams: transport.NegotiationParams{
		Encoding: transport.EncodingNameProtobuf, Compress: compress.TypeContextTakeOver, CompressLevel: &level, CompressWindowBits: &bits,
		TransportID: tid, Reconnect: vf.Choose("reconnect", 2) == 1, TransportGroupID: tgid, TransportGroupTotalCount: 3, TransportGroupIndex: 2,
	}}
	vals, err := in.MarshalURLValues()
	vf.Assert("marshals", err == nil)
	if err != nil {
		return
	}
	if vf.Choose("through.a.query.string", 2) == 1 {
		q := vals.Encode()
		vals, err = url.ParseQuery(q)
		vf.Assert("query-string-parses", err == nil)
		if err != nil {
			return
		}
	}
	var out NegotiationParams
	uerr := out.UnmarshalURLValues(vals)
	vf.Assert("valid-set-is-accepted", uerr == nil)
	if uerr != nil {
		return
	}
	vf.Assert("same-transport-id", out.TransportID == tid)
	vf.Assert("same-group", out.TransportGroupID == tgid && out.TransportGroupTotalCount == 3 && out.TransportGroupIndex == 2)
	vf.Assert("same-compression", out.Compress == compress.TypeContextTakeOver && out.CompressLevel != nil && *out.CompressLevel == level &&
		out.CompressWindowBits != nil && *out.CompressWindowBits == bits && out.Encoding == transport.EncodingNameProtobuf)
	vf.Assert("same-reconnect-flag", out.Reconnect == in.Reconnect)
	vf.Reach("end")
}
