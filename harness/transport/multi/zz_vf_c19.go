package multi

import (
	"context"
	"errors"
	"time"

	"github.com/aptpod/iscp-go/internal/vf"
	"github.com/aptpod/iscp-go/transport"
)

type zzMember struct {
	id       transport.TransportID
	count    int
	written  [][]byte
	in       chan []byte
	closed   int
	rx, tx   uint64
	negCalls int
	unrCalls int
	closeErr error
	gate     chan struct{} // when set: the next Write waits here (a slow link)
}

func zzNewMember(id transport.TransportID, count int) *zzMember {
	return &zzMember{id: id, count: count, in: make(chan []byte, 8)}
}

func (m *zzMember) Read() ([]byte, error) {
	bs, ok := <-m.in
	if !ok {
		return nil, transport.ErrAlreadyClosed
	}
	return bs, nil
}
func (m *zzMember) Write(bs []byte) error {
	if g := m.gate; g != nil {
		m.gate = nil
		<-g
	}
	m.written = append(m.written, bs)
	return nil
}
func (m *zzMember) Close() error {
	m.closed++
	if m.closed == 1 {
		close(m.in)
	}
	return m.closeErr
}
func (m *zzMember) RxBytesCounterValue() uint64 { return m.rx }
func (m *zzMember) TxBytesCounterValue() uint64 { return m.tx }
func (m *zzMember) AsUnreliable() (transport.UnreliableTransport, bool) {
	m.unrCalls++
	return nil, false
}
func (m *zzMember) NegotiationParams() transport.NegotiationParams {
	m.negCalls++
	return transport.NegotiationParams{TransportID: m.id, TransportGroupID: "group", TransportGroupTotalCount: m.count}
}
func (m *zzMember) Name() transport.Name { return "zz" }

type zzSub struct{ ch chan transport.TransportID }

func (s *zzSub) Subscribe(ctx context.Context) <-chan transport.TransportID { return s.ch }

func zzMembers() (TransportMap, *zzMember, *zzMember) {
	a, b := zzNewMember("a", 2), zzNewMember("b", 2)
	return TransportMap{"a": a, "b": b}, a, b
}

// zzUse exercises every routed operation; none of them may panic.
func zzUse(m *Transport) bool {
	return vf.Panics(func() {
		m.Write([]byte{7})
		m.AsUnreliable()
		m.NegotiationParams()
	})
}

// C19.a: a configuration is accepted only if later routed calls cannot crash.
func zzC19aConfig() {
	tm, a, b := zzMembers()
	initial := transport.TransportID(vf.Str("initial"))
	member := initial == "a" || initial == "b"
	vf.Known("KF-C19-initial-id-not-a-member-accepted", !member)
	sub := &zzSub{ch: make(chan transport.TransportID)}
	m, err := NewTransport(TransportConfig{TransportMap: tm, InitialTransportID: initial, SchedulerMode: SchedulerModeEvent, EventScheduler: &EventScheduler{Subscriber: sub}})
	if err != nil {
		vf.Assert("members-are-accepted", !member)
		vf.Reach("rejected")
		return
	}
	defer m.Close()
	vf.Settle()
	panicked := zzUse(m)
	vf.Assert("accepted-config-never-crashes", !panicked)
	if !panicked && member {
		vf.Assert("initial-member-selected", (initial == "a") == (len(a.written) == 1) && (initial == "b") == (len(b.written) == 1))
	}
	vf.Reach("accepted")
}

// C19.b: a scheduler event (any id, including non-members and the empty id) keeps the selection a member.
var zzDeviations = 0

func zzC19bSelectDev1()   { zzDeviations = 1; zzC19bSelect() }
func zzC19c2BacklogDev1() { zzDeviations = 1; zzC19c2Backlog() }
func zzC19c2BacklogDev2() { zzDeviations = 2; zzC19c2Backlog() }

func zzC19bSelect() {
	vf.Deviations(zzDeviations)
	tm, a, b := zzMembers()
	sub := &zzSub{ch: make(chan transport.TransportID)}
	m, err := NewTransport(TransportConfig{TransportMap: tm, InitialTransportID: "a", SchedulerMode: SchedulerModeEvent, EventScheduler: &EventScheduler{Subscriber: sub}})
	vf.Assume(err == nil)
	defer m.Close()
	vf.Settle()
	id := transport.TransportID(vf.Str("event.id"))
	member := id == "a" || id == "b"
	vf.Known("KF-C19-scheduler-id-not-a-member-stored", !member)
	// the same event may arrive several times (a flapping link keeps announcing the same id)
	for i, n := 0, 1+vf.Choose("event.repeats", 3); i < n; i++ {
		sub.ch <- id
		vf.Settle()
	}
	panicked := zzUse(m)
	vf.Assert("scheduler-event-never-crashes", !panicked)
	if !panicked {
		if id == "b" {
			vf.Assert("selected-member-gets-the-write", len(b.written) == 1 && len(a.written) == 0 && b.negCalls >= 1)
		} else {
			// "a" itself, or an id that is not a member: the previous selection stays
			vf.Assert("non-member-ignored", len(a.written) == 1 && len(b.written) == 0)
		}
	}
	_, cur := tm[m.currentTransportID]
	vf.Assert("selection-is-a-member", cur)
	vf.Assert("lock-free", vf.RUnlocked(&m.mu))
	vf.Reach("end")
}

// C19.c: reads of all members are merged, each message returned exactly once, unchanged.
func zzC19cRead() {
	tm, a, b := zzMembers()
	sub := &zzSub{ch: make(chan transport.TransportID)}
	m, err := NewTransport(TransportConfig{TransportMap: tm, InitialTransportID: "a", SchedulerMode: SchedulerModeEvent, EventScheduler: &EventScheduler{Subscriber: sub}})
	vf.Assume(err == nil)
	defer m.Close()
	vf.Settle()
	x, y := vf.U8("x"), vf.U8("y")
	vf.Assume(x != y)
	if vf.Choose("order", 2) == 0 {
		a.in <- []byte{x}
		vf.Settle()
		b.in <- []byte{y}
	} else {
		b.in <- []byte{y}
		vf.Settle()
		a.in <- []byte{x}
	}
	vf.Settle()
	r1, e1 := m.Read()
	r2, e2 := m.Read()
	vf.Assert("both-read", e1 == nil && e2 == nil && len(r1) == 1 && len(r2) == 1)
	if len(r1) == 1 && len(r2) == 1 {
		vf.Assert("each-once-unchanged", (r1[0] == x && r2[0] == y) || (r1[0] == y && r2[0] == x))
	}
	third := vf.Blocked(func() { m.Read() })
	vf.Assert("nothing-invented", third)
	vf.Reach("end")
}

// C19.d: the pollers.
func zzC19dRoundRobin() {
	n := vf.Choose("ids", 4)
	all := []transport.TransportID{"a", "b", "c"}
	p := NewRoundRobinPoller(all[:n])
	for i := 0; i < 2*n+1; i++ {
		got := p.Get()
		if n == 0 {
			vf.Assert("empty-poller-returns-empty", got == "")
		} else {
			vf.Assert("cycles-over-configured-ids", got == all[i%n])
		}
	}
	vf.Assert("lock-free", vf.Unlocked(&p.mu))
	vf.Reach("end")
}

func zzC19dLastUsed() {
	tm, a, b := zzMembers()
	p := NewLastReadPoller()
	m, err := NewTransport(TransportConfig{TransportMap: tm, InitialTransportID: "a", SchedulerMode: SchedulerModePolling,
		PollingScheduler: &PollingScheduler{Poller: p, Interval: 10 * time.Millisecond}})
	vf.Assume(err == nil)
	defer m.Close()
	vf.Settle()
	reads := vf.Choose("reads.before.poll", 3) // 0: nothing read yet, 1: read on a, 2: read on b
	vf.Known("KF-C19-last-used-poller-returns-empty-id", reads == 0)
	switch reads {
	case 1:
		a.in <- []byte{1}
	case 2:
		b.in <- []byte{2}
	}
	vf.Settle()
	panicGet := vf.Panics(func() { p.Get() })
	vf.Assert("poller-get-never-panics", !panicGet)
	vf.Advance(10 * time.Millisecond)
	vf.Settle()
	panicked := zzUse(m)
	vf.Assert("polled-selection-never-crashes", !panicked)
	_, cur := tm[m.currentTransportID]
	vf.Assert("polled-selection-is-a-member", cur)
	// (Which member a LastUsedPoller should pick after reads is not part of the property; today it
	// keeps returning the current one. Only "never crashes / stays a member" is asserted.)
	_ = b
	vf.Reach("end")
}

// C19.e: Close closes every member; counters are the member sums.
func zzC19eCloseCounters() {
	tm, a, b := zzMembers()
	a.rx, a.tx, b.rx, b.tx = vf.U64("a.rx"), vf.U64("a.tx"), vf.U64("b.rx"), vf.U64("b.tx")
	sub := &zzSub{ch: make(chan transport.TransportID)}
	m, err := NewTransport(TransportConfig{TransportMap: tm, InitialTransportID: "b", SchedulerMode: SchedulerModeEvent, EventScheduler: &EventScheduler{Subscriber: sub}})
	vf.Assume(err == nil)
	vf.Settle()
	vf.Assert("rx-is-sum", m.RxBytesCounterValue() == a.rx+b.rx)
	vf.Assert("tx-is-sum", m.TxBytesCounterValue() == a.tx+b.tx)
	cerr := m.Close()
	vf.Settle()
	vf.Assert("close-closes-every-member", cerr == nil && a.closed == 1 && b.closed == 1)
	_, rerr := m.Read()
	vf.Assert("read-after-close-fails", rerr != nil)
	vf.Reach("end")
}

// C19.e2: Close closes every member also when some members' Close reports an error, whatever order
// the member map is walked in; the members' errors are reported to the caller.
func zzC19e2CloseErrors() {
	a, b, c := zzNewMember("a", 3), zzNewMember("b", 3), zzNewMember("c", 3)
	ea, eb, ec := errors.New("a: reset"), errors.New("b: reset"), errors.New("c: reset")
	failing := vf.Choose("failing.members", 8)
	if failing&1 != 0 {
		a.closeErr = ea
	}
	if failing&2 != 0 {
		b.closeErr = eb
	}
	if failing&4 != 0 {
		c.closeErr = ec
	}
	ids := []transport.TransportID{"a", "b", "c"}
	m, err := NewTransport(TransportConfig{TransportMap: TransportMap{"a": a, "b": b, "c": c}, InitialTransportID: ids[vf.Choose("initial", 3)], SchedulerMode: SchedulerModePolling})
	vf.Assume(err == nil)
	vf.Settle()
	vf.AllMapOrders(true) // the walk over the member map inside Close may take any order
	cerr := m.Close()
	vf.AllMapOrders(false)
	vf.Settle()
	vf.Assert("every-member-closed-despite-errors", a.closed >= 1 && b.closed >= 1 && c.closed >= 1)
	vf.Assert("members-closed-once", a.closed <= 1 && b.closed <= 1 && c.closed <= 1)
	if failing == 0 {
		vf.Assert("clean-close-is-nil", cerr == nil)
	} else {
		vf.Assert("member-errors-reported", cerr != nil &&
			(failing&1 == 0 || errors.Is(cerr, ea)) && (failing&2 == 0 || errors.Is(cerr, eb)) && (failing&4 == 0 || errors.Is(cerr, ec)))
	}
	vf.Reach("end")
}

// C19.c2: a consumer that lags: every member delivers several messages before the first Read;
// each message is returned exactly once, unchanged, in its member's order.
func zzC19c2Backlog() {
	vf.Deviations(zzDeviations)
	tm, a, b := zzMembers()
	sub := &zzSub{ch: make(chan transport.TransportID)}
	m, err := NewTransport(TransportConfig{TransportMap: tm, InitialTransportID: "a", SchedulerMode: SchedulerModeEvent, EventScheduler: &EventScheduler{Subscriber: sub}})
	vf.Assume(err == nil)
	defer m.Close()
	vf.Settle()
	na, nb := 1+vf.Choose("a.messages", 3), vf.Choose("b.messages", 3)
	base := vf.U8("first.byte")
	vf.Assume(base < 200)
	for i := 0; i < na; i++ {
		a.in <- []byte{'a', base + byte(i)}
	}
	for i := 0; i < nb; i++ {
		b.in <- []byte{'b', base + byte(i)}
	}
	vf.Settle() // everything is queued inside the multi transport before anybody reads
	nextA, nextB := 0, 0
	for i := 0; i < na+nb; i++ {
		r, e := m.Read()
		vf.Assert("read-ok", e == nil && len(r) == 2)
		if e != nil || len(r) != 2 {
			return
		}
		if r[0] == 'a' {
			vf.Assert("member-a-in-order-once-each", r[1] == base+byte(nextA) && nextA < na)
			nextA++
		} else {
			vf.Assert("member-b-in-order-once-each", r[0] == 'b' && r[1] == base+byte(nextB) && nextB < nb)
			nextB++
		}
	}
	vf.Assert("all-returned", nextA == na && nextB == nb)
	extra := vf.Blocked(func() { m.Read() })
	vf.Assert("nothing-invented", extra)
	vf.Reach("end")
}

type zzNICs struct{ ch chan string }

func (n *zzNICs) Subscribe() <-chan string { return n.ch }

// C19.f: the NIC event subscriber wired into the multi transport: a burst of 1..4 interface events
// arrives while the transport is busy (a Write on a slow member holds it); once the backlog has
// drained the selection is the member named by the LAST event - events are never reordered and the
// newest one is never dropped - and the next Write goes to that member.
func zzC19fNICBurst() {
	vf.Deviations(zzDeviations)
	tm, a, b := zzMembers()
	nics := &zzNICs{ch: make(chan string, 8)}
	sub := &NICEventSubscriber{NICManager: nics, NICTransportID: map[string]transport.TransportID{"eth0": "a", "wlan0": "b"}}
	m, err := NewTransport(TransportConfig{TransportMap: tm, InitialTransportID: "a", SchedulerMode: SchedulerModeEvent, EventScheduler: &EventScheduler{Subscriber: sub}})
	vf.Assume(err == nil)
	defer m.Close()
	vf.Settle()
	busy := vf.Choose("transport.busy.during.burst", 2) == 1
	gate := make(chan struct{})
	wrote := false
	if busy {
		a.gate = gate
		go func() {
			m.Write([]byte{1})
			wrote = true
		}()
		vf.Settle()
	}
	n := 1 + vf.Choose("burst.length", 4)
	last := ""
	for i := 0; i < n; i++ {
		name := [...]string{"eth0", "wlan0"}[vf.Choose("event."+string(rune('0'+i)), 2)]
		nics.ch <- name
		last = name
		if vf.Choose("pause."+string(rune('0'+i)), 2) == 1 {
			vf.Settle()
		}
	}
	vf.Settle()
	if busy {
		close(gate)
		vf.Settle()
		vf.Assert("slow-write-completes", wrote && len(a.written) == 1)
	}
	want := sub.NICTransportID[last]
	m.mu.RLock()
	cur := m.currentTransportID
	m.mu.RUnlock()
	vf.Assert("selection-is-the-last-event", cur == want)
	na, nb := len(a.written), len(b.written)
	vf.Assert("write-ok", m.Write([]byte{9}) == nil)
	if want == "a" {
		vf.Assert("write-goes-to-the-selected-member", len(a.written) == na+1 && len(b.written) == nb)
	} else {
		vf.Assert("write-goes-to-the-selected-member", len(b.written) == nb+1 && len(a.written) == na)
	}
	vf.Reach("end")
}
func zzC19fNICBurstDev1() { zzDeviations = 1; zzC19fNICBurst() }
