package iscp

import (
	"bytes"
	"context"
	stderrors "errors"
	"sync"

	"github.com/aptpod/iscp-go/encoding/protobuf"
	"github.com/aptpod/iscp-go/errors"
	"github.com/aptpod/iscp-go/internal/vf"
	"github.com/aptpod/iscp-go/log"
	"github.com/aptpod/iscp-go/message"
	"github.com/aptpod/iscp-go/transport"
	"github.com/aptpod/iscp-go/wire"
)

// zzTr is an in-memory transport.Transport below the (real) protobuf encoding.
type zzTr struct {
	mu         sync.Mutex
	in         chan []byte
	out        []message.Message
	closed     bool
	closeCount int
	onMsg      func(t *zzTr, m message.Message)
	token      string
	writesFail bool // half-dead link: writes fail, reads stay silent
}

func zzNewTr() *zzTr { return &zzTr{in: make(chan []byte, 64)} }

func zzEncode(m message.Message) []byte {
	var buf bytes.Buffer
	if _, err := protobuf.NewEncoding().EncodeTo(&buf, m); err != nil {
		panic(err)
	}
	return buf.Bytes()
}

func (t *zzTr) Read() ([]byte, error) {
	bs, ok := <-t.in
	if !ok {
		return nil, transport.ErrAlreadyClosed
	}
	return bs, nil
}

func (t *zzTr) Write(bs []byte) error {
	t.mu.Lock()
	if t.closed || t.writesFail {
		t.mu.Unlock()
		return transport.ErrAlreadyClosed
	}
	_, m, err := protobuf.NewEncoding().DecodeFrom(bytes.NewBuffer(bs))
	if err != nil {
		t.mu.Unlock()
		return err
	}
	t.out = append(t.out, m)
	h := t.onMsg
	t.mu.Unlock()
	if h != nil {
		h(t, m)
	}
	return nil
}

// push delivers a broker message to the client (dropped when the transport is closed).
func (t *zzTr) push(m message.Message) {
	t.mu.Lock()
	defer t.mu.Unlock()
	if t.closed {
		return
	}
	t.in <- zzEncode(m)
}

func (t *zzTr) Close() error {
	t.mu.Lock()
	defer t.mu.Unlock()
	t.closeCount++
	if !t.closed {
		t.closed = true
		close(t.in)
	}
	return nil
}

func (t *zzTr) msgs() []message.Message {
	t.mu.Lock()
	defer t.mu.Unlock()
	return append([]message.Message{}, t.out...)
}

func (t *zzTr) RxBytesCounterValue() uint64                     { return 0 }
func (t *zzTr) TxBytesCounterValue() uint64                     { return 0 }
func (t *zzTr) AsUnreliable() (transport.UnreliableTransport, bool) { return nil, false }
func (t *zzTr) NegotiationParams() transport.NegotiationParams {
	return transport.NegotiationParams{Encoding: transport.EncodingNameProtobuf}
}
func (t *zzTr) Name() transport.Name { return "zz" }

// zzBroker scripts dial outcomes and answers requests.
type zzBroker struct {
	mu        sync.Mutex
	trs       []*zzTr
	dials     int
	dialErrs  []error       // outcome of dial k (nil = success); beyond the script: success
	onDial    func(k int)   // interference point: runs inside Dial
	tokens    int
	tokenErrs []error
	autoPong  bool
	maxDials  int // dials beyond this index park for ever (reconnect-storm limiter), default 12
	muteFrom  int // connections with index >= muteFrom (> 0) never answer the connect request
	handler   func(t *zzTr, m message.Message) bool // returns true if handled
}

const zzTransportName TransportName = "zz-inmem"

func zzNewBroker() *zzBroker {
	b := &zzBroker{autoPong: true}
	customDialFuncs[zzTransportName] = func() transport.Dialer { return b }
	return b
}

func (b *zzBroker) Token() (Token, error) {
	b.mu.Lock()
	defer b.mu.Unlock()
	k := b.tokens
	b.tokens++
	if k < len(b.tokenErrs) && b.tokenErrs[k] != nil {
		return "", b.tokenErrs[k]
	}
	return Token("token-" + string(rune('a'+k))), nil
}

func (b *zzBroker) Dial(c transport.DialConfig) (transport.Transport, error) {
	b.mu.Lock()
	k := b.dials
	b.dials++
	var err error
	if k < len(b.dialErrs) {
		err = b.dialErrs[k]
	}
	h := b.onDial
	b.mu.Unlock()
	limit := b.maxDials
	if limit == 0 {
		limit = 12
	}
	if k >= limit {
		// a reconnect storm: park the dialer so that the scenario quiesces and its assertions are
		// evaluated (instead of the run ending at the step limit)
		select {}
	}
	if h != nil {
		h(k)
	}
	if err != nil {
		return nil, err
	}
	t := zzNewTr()
	t.onMsg = b.serve
	b.mu.Lock()
	b.trs = append(b.trs, t)
	b.mu.Unlock()
	return t, nil
}

func (b *zzBroker) last() *zzTr {
	b.mu.Lock()
	defer b.mu.Unlock()
	if len(b.trs) == 0 {
		return nil
	}
	return b.trs[len(b.trs)-1]
}

// serve is the default broker behaviour: accept the connect request, answer pings, and hand
// everything else to the scenario's handler.
func (b *zzBroker) serve(t *zzTr, m message.Message) {
	switch r := m.(type) {
	case *message.ConnectRequest:
		if r.ExtensionFields != nil {
			t.token = r.ExtensionFields.AccessToken
		}
		if b.muteFrom > 0 && len(b.trs) > b.muteFrom {
			return // accepted the transport, never completes the handshake
		}
		t.in <- zzEncode(&message.ConnectResponse{RequestID: r.RequestID, ProtocolVersion: r.ProtocolVersion, ResultCode: message.ResultCodeSucceeded})
		return
	case *message.Ping:
		if b.autoPong {
			t.in <- zzEncode(&message.Pong{RequestID: r.RequestID})
		}
		return
	}
	if b.handler != nil {
		b.handler(t, m)
	}
}

func (b *zzBroker) config() *ConnConfig {
	conf := defaultClientConfig
	conf.Transport = zzTransportName
	conf.TokenSource = b
	conf.Logger = log.NewNop()
	return &conf
}

// zzBareConn builds the part of Conn that reconnect()/send()/close() use, around a live wire
// connection obtained through the real connectWire.
func zzBareConn(b *zzBroker) (*Conn, error) {
	conf := b.config()
	wc, err := conf.connectWire()
	if err != nil {
		return nil, err
	}
	return &Conn{
		wireConn:             wc,
		upstreams:            map[*Upstream]struct{}{},
		downstreams:          map[*Downstream]struct{}{},
		upstreamRepository:   newInmemStreamRepository(),
		downstreamRepository: newInmemStreamRepository(),
		logger:               log.NewNop(),
		state:                newConnState(),
		eventDispatcher:      newEventDispatcher(),
		Config:               *conf,
	}, nil
}

// C05.c: connectWire asks the token source once per call, before dialing, and the token reaches
// the connect request; a token error means no dial.
func zzC05cToken() {
	b := zzNewBroker()
	fail := vf.Choose("token.fails", 2) == 1
	tokErr := stderrors.New("no token")
	if fail {
		b.tokenErrs = []error{tokErr}
	}
	conf := b.config()
	wc, err := conf.connectWire()
	vf.Assert("token-asked-once", b.tokens == 1)
	if fail {
		vf.Assert("token-error-no-dial", err != nil && wc == nil && b.dials == 0)
		vf.Reach("token-error")
		return
	}
	vf.Assert("connected", err == nil && wc != nil && b.dials == 1)
	vf.Assert("token-in-connect-request", b.last() != nil && b.last().token == "token-a")
	// a second connect fetches a fresh token
	wc2, err2 := conf.connectWire()
	vf.Assert("fresh-token-per-connect", err2 == nil && wc2 != nil && b.tokens == 2 && b.last().token == "token-b")
	vf.Reach("connected")
}

// C05.d / C10.b: reconnect().
func zzC05dReconnect() {
	b := zzNewBroker()
	c, err := zzBareConn(b)
	vf.Assume(err == nil)
	old := b.last()
	vf.Assert("initial-dial", b.dials == 1 && b.tokens == 1)
	start := zzStatus("status")
	c.state.current = start
	// script: 0..2 failing attempts (dial error or token error), then success
	nfail := vf.Choose("failures", 3)
	dialErr := stderrors.New("dial failed")
	b.dialErrs = []error{nil}
	b.tokenErrs = []error{nil}
	for i := 0; i < nfail; i++ {
		if vf.Choose("fail.kind"+string(rune('0'+i)), 2) == 0 {
			b.dialErrs = append(b.dialErrs, dialErr)
			b.tokenErrs = append(b.tokenErrs, nil)
		} else {
			b.tokenErrs = append(b.tokenErrs, dialErr)
		}
	}
	// interference: Close() arrives while attempt k is dialing (what Conn.close does first)
	closeAt := vf.Choose("close.during.dial", 5) - 1
	vf.Known("KF-C10-reconnect-panics-when-closed-during-dial", closeAt >= 0)
	b.onDial = func(k int) {
		if closeAt >= 0 && k-1 == closeAt {
			c.state.Swap(connStatusClosed)
		}
	}
	dials0, tokens0 := b.dials, b.tokens
	var rerr error
	panicked := vf.Panics(func() { rerr = c.reconnect(context.Background()) })
	vf.Assert("reconnect-never-panics", !panicked)
	if panicked {
		return
	}
	if start == connStatusClosed {
		vf.Assert("closed-refuses", rerr != nil && errors.Is(rerr, errors.ErrConnectionClosed))
		vf.Assert("closed-no-dial-no-token", b.dials == dials0 && b.tokens == tokens0)
		vf.Assert("closed-stays-closed", c.state.Current() == connStatusClosed)
		vf.Reach("refused")
		return
	}
	vf.Assert("old-wire-conn-closed", old.closeCount >= 1)
	vf.Assert("token-per-attempt", b.tokens-tokens0 >= b.dials-dials0)
	if c.state.Current() == connStatusClosed {
		// Close arrived meanwhile: must not end up connected
		vf.Assert("close-wins", rerr != nil)
		vf.Reach("closed-meanwhile")
		return
	}
	vf.Assert("eventually-connected", rerr == nil && c.state.Current() == connStatusConnected)
	vf.Assert("attempts-as-scripted", b.tokens-tokens0 == nfail+1)
	vf.Assert("new-wire-conn-installed", c.wireConn != nil && b.last() != old && b.last().closeCount == 0)
	vf.Assert("lock-free", vf.Unlocked(&c.wireConnMu))
	vf.Reach("reconnected")
}

var _ = wire.Connect
