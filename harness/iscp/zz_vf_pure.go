package iscp

import (
	"time"

	"github.com/aptpod/iscp-go/internal/vf"
)

// C01.f: chunk numbering.
func zzC01fSequence() {
	cur := vf.U32("cur")
	g := newSequenceNumberGenerator(cur)
	n := g.Next()
	vf.Assert("next-is-cur-plus-1", n == cur+1)
	vf.Assert("current-follows", g.CurrentValue() == n)
	vf.Reach("end")
}

func zzNeverFires(tick <-chan time.Time) bool {
	select {
	case <-tick:
		return false
	default:
		return true
	}
}

// C20.a: flush policy predicates.
func zzC20aPolicies() {
	size, th := vf.U32("size"), vf.U32("threshold")
	iv := time.Duration(vf.I64("interval"))
	vf.Assume(iv > 0)
	none := &flushPolicyNone{}
	vf.Assert("none-never", !none.IsFlush(size))
	t1, stop1 := none.Ticker()
	vf.Assert("none-ticker-silent", zzNeverFires(t1))
	stop1()
	io := &flushPolicyIntervalOnly{Interval: iv}
	vf.Assert("interval-never-by-size", !io.IsFlush(size))
	bs := &flushPolicyBufferSizeOnly{BufferSize: th}
	vf.Assert("size-exactly-above", bs.IsFlush(size) == (size > th))
	t2, stop2 := bs.Ticker()
	vf.Assert("size-ticker-silent", zzNeverFires(t2))
	stop2()
	both := &flushPolicyIntervalOrBufferSize{BufferPolicy: bs, IntervalPolicy: io}
	vf.Assert("either-exactly-above", both.IsFlush(size) == (size > th))
	im := &flushPolicyImmediately{}
	vf.Assert("immediate-always", im.IsFlush(size))
	t3, stop3 := im.Ticker()
	vf.Assert("immediate-ticker-silent", zzNeverFires(t3))
	stop3()
	vf.Reach("end")
}

// C20.a (time part): the interval policies tick with exactly the configured period.
func zzC20aTicker() {
	ivMs := vf.Choose("intervalMs", 3) + 1
	iv := time.Duration(ivMs) * 5 * time.Millisecond
	var p FlushPolicy
	if vf.Choose("kind", 2) == 0 {
		p = &flushPolicyIntervalOnly{Interval: iv}
	} else {
		p = &flushPolicyIntervalOrBufferSize{BufferPolicy: &flushPolicyBufferSizeOnly{BufferSize: 10}, IntervalPolicy: &flushPolicyIntervalOnly{Interval: iv}}
	}
	tick, stop := p.Ticker()
	defer stop()
	if vf.Symbolic() {
		// virtual clock: nothing before the period has elapsed, one tick once it has
		vf.Advance(iv - 1)
		vf.Assert("silent-before-interval", zzNeverFires(tick))
		vf.Advance(1)
		vf.Assert("fires-at-interval", !zzNeverFires(tick))
		vf.Advance(iv)
		vf.Assert("fires-again", !zzNeverFires(tick))
	} else {
		vf.Advance(iv)
		vf.Assert("fires-at-interval", !zzNeverFires(tick))
	}
	vf.Reach("end")
}

func zzDur(label string) time.Duration { return time.Duration(vf.I64(label)) }
