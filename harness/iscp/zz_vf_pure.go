package iscp

import (
	"time"

	"github.com/aptpod/iscp-go/internal/vf"
)

// C01.f: chunk numbering.
func zzC01fSequence() {
	cur := vf.U32("cur")
	g := newSequenceNumberGenerator(cur)
	n := g.Next()
	vf.Assert("next-is-cur-plus-1", n == cur+1)
	vf.Assert("current-follows", g.CurrentValue() == n)
	vf.Reach("end")
}

func zzNeverFires(tick <-chan time.Time) bool {
	select {
	case <-tick:
		return false
	default:
		return true
	}
}

// C20.a: flush policy predicates.
func zzC20aPolicies() {
	size, th := vf.U32("size"), vf.U32("threshold")
	iv := time.Duration(vf.I64("interval"))
	vf.Assume(iv > 0)
	none := &flushPolicyNone{}
	vf.Assert("none-never", !none.IsFlush(size))
	t1, stop1 := none.Ticker()
	vf.Assert("none-ticker-silent", zzNeverFires(t1))
	stop1()
	io := &flushPolicyIntervalOnly{Interval: iv}
	vf.Assert("interval-never-by-size", !io.IsFlush(size))
	bs := &flushPolicyBufferSizeOnly{BufferSize: th}
	vf.Assert("size-exactly-above", bs.IsFlush(size) == (size > th))
	t2, stop2 := bs.Ticker()
	vf.Assert("size-ticker-silent", zzNeverFires(t2))
	stop2()
	both := &flushPolicyIntervalOrBufferSize{BufferPolicy: bs, IntervalPolicy: io}
	vf.Assert("either-exactly-above", both.IsFlush(size) == (size > th))
	im := &flushPolicyImmediately{}
	vf.Assert("immediate-always", im.IsFlush(size))
	t3, stop3 := im.Ticker()
	vf.Assert("immediate-ticker-silent", zzNeverFires(t3))
	stop3()
	vf.Reach("end")
}

// C20.a (time part): the interval policies tick with exactly the configured period.
func zzC20aTicker() {
	ivMs := vf.Choose("intervalMs", 3) + 1
	iv := time.Duration(ivMs) * 5 * time.Millisecond
	var p FlushPolicy
	if vf.Choose("kind", 2) == 0 {
		p = &flushPolicyIntervalOnly{Interval: iv}
	} else {
		p = &flushPolicyIntervalOrBufferSize{BufferPolicy: &flushPolicyBufferSizeOnly{BufferSize: 10}, IntervalPolicy: &flushPolicyIntervalOnly{Interval: iv}}
	}
	tick, stop := p.Ticker()
	defer stop()
	if vf.Symbolic() {
		// virtual clock: nothing before the period has elapsed, one tick once it has
		vf.Advance(iv - 1)
		vf.Assert("silent-before-interval", zzNeverFires(tick))
		vf.Advance(1)
		vf.Assert("fires-at-interval", !zzNeverFires(tick))
		vf.Advance(iv)
		vf.Assert("fires-again", !zzNeverFires(tick))
	} else {
		vf.Advance(iv)
		vf.Assert("fires-at-interval", !zzNeverFires(tick))
	}
	vf.Reach("end")
}

func zzDur(label string) time.Duration { return time.Duration(vf.I64(label)) }

// zzPolicyFacts reads what a configured policy promises: whether it cuts at this size, and its
// interval (0 = no interval).
func zzPolicyFacts(p FlushPolicy, size uint32) (bool, time.Duration) {
	switch q := p.(type) {
	case *flushPolicyIntervalOnly:
		return p.IsFlush(size), q.Interval
	case *flushPolicyIntervalOrBufferSize:
		return p.IsFlush(size), q.IntervalPolicy.Interval
	}
	return p.IsFlush(size), 0
}

// C20.j: the policy options build per-stream policies: configuring stream B (or any later stream)
// never changes what stream A's policy promises, nor the defaults a third stream gets.
func zzC20jPolicyOptionsIsolated() {
	size := vf.U32("buffered.size")
	mk := func(l string) (UpstreamOption, func(uint32) bool, time.Duration) {
		iv := time.Duration(vf.I64(l + ".interval"))
		vf.Assume(iv > 0)
		th := vf.U32(l + ".threshold")
		switch vf.Choose(l+".policy", 5) {
		case 0:
			return WithUpstreamFlushPolicyIntervalOrBufferSize(iv, th), func(s uint32) bool { return s > th }, iv
		case 1:
			return WithUpstreamFlushPolicyIntervalOnly(iv), func(uint32) bool { return false }, iv
		case 2:
			return WithUpstreamFlushPolicyBufferSizeOnly(th), func(s uint32) bool { return s > th }, 0
		case 3:
			return WithUpstreamFlushPolicyImmediately(), func(uint32) bool { return true }, 0
		}
		return WithUpstreamFlushPolicyNone(), func(uint32) bool { return false }, 0
	}
	optA, cutA, ivA := mk("a")
	optB, cutB, ivB := mk("b")
	// what a stream without options gets, observed before anything was configured
	d0 := defaultUpstreamConfig
	defCut, defIv := zzPolicyFacts(d0.FlushPolicy, size)
	// OpenUpstream copies the default configuration and applies the options to the copy
	confA := defaultUpstreamConfig
	optA(&confA)
	confB := defaultUpstreamConfig
	optB(&confB)
	confC := defaultUpstreamConfig
	gotA, gotIvA := zzPolicyFacts(confA.FlushPolicy, size)
	gotB, gotIvB := zzPolicyFacts(confB.FlushPolicy, size)
	gotC, gotIvC := zzPolicyFacts(confC.FlushPolicy, size)
	vf.Assert("stream-a-keeps-its-own-policy", gotA == cutA(size) && gotIvA == ivA)
	vf.Assert("stream-b-gets-its-own-policy", gotB == cutB(size) && gotIvB == ivB)
	vf.Assert("defaults-unchanged-for-later-streams", gotC == defCut && gotIvC == defIv)
	vf.Reach("end")
}
