package iscp

import (
	"context"
	"sync"

	"github.com/aptpod/iscp-go/internal/vf"
	"github.com/aptpod/iscp-go/log"
	"github.com/aptpod/iscp-go/message"
	"github.com/aptpod/iscp-go/wire"
	uuid "github.com/google/uuid"
)

// zzLog is the ordered event log shared by the harness fakes.
type zzLog struct {
	mu sync.Mutex
	ev []string
}

func (l *zzLog) add(s string) {
	l.mu.Lock()
	l.ev = append(l.ev, s)
	l.mu.Unlock()
}

func (l *zzLog) index(s string) int {
	l.mu.Lock()
	defer l.mu.Unlock()
	for i, e := range l.ev {
		if e == s {
			return i
		}
	}
	return -1
}

func (l *zzLog) count(s string) int {
	l.mu.Lock()
	defer l.mu.Unlock()
	n := 0
	for _, e := range l.ev {
		if e == s {
			n++
		}
	}
	return n
}

// zzLogStorage records Store/Remove/Clear calls in front of a real storage.
type zzLogStorage struct {
	inner  sentStorage
	log    *zzLog
	stored []zzStored
}

type zzStored struct {
	id  uuid.UUID
	seq uint32
	dps DataPointGroups
}

func (s *zzLogStorage) Store(ctx context.Context, id uuid.UUID, seq uint32, dps DataPointGroups) error {
	s.log.add("store")
	s.stored = append(s.stored, zzStored{id, seq, dps})
	return s.inner.Store(ctx, id, seq, dps)
}
func (s *zzLogStorage) Remove(ctx context.Context, id uuid.UUID, seq uint32) (DataPointGroups, error) {
	s.log.add("remove")
	return s.inner.Remove(ctx, id, seq)
}
func (s *zzLogStorage) List(ctx context.Context, id uuid.UUID) (map[uint32]DataPointGroups, error) {
	return s.inner.List(ctx, id)
}
func (s *zzLogStorage) Clear(ctx context.Context, id uuid.UUID) error {
	s.log.add("clear")
	return s.inner.Clear(ctx, id)
}

type zzSendHook struct {
	log    *zzLog
	chunks []UpstreamChunk
	ids    []uuid.UUID
}

func (h *zzSendHook) HookBefore(id uuid.UUID, c UpstreamChunk) {
	h.log.add("send-hook")
	h.chunks = append(h.chunks, c)
	h.ids = append(h.ids, id)
}

type zzAckHook struct {
	log     *zzLog
	results []UpstreamChunkResult
}

func (h *zzAckHook) HookAfter(id uuid.UUID, r UpstreamChunkResult) {
	h.log.add("ack-hook")
	h.results = append(h.results, r)
}

type zzClosedHandler struct {
	log    *zzLog
	events []*UpstreamClosedEvent
}

func (h *zzClosedHandler) OnUpstreamClosed(ev *UpstreamClosedEvent) {
	h.log.add("closed-event")
	h.events = append(h.events, ev)
}

// zzWorld is one upstream wired to a real wire.ClientConn over a scripted transport.
type zzWorld struct {
	log    *zzLog
	tr     *wire.ZZFakeTransport
	wc     *wire.ClientConn
	st     *zzLogStorage
	u      *Upstream
	send   *zzSendHook
	ack    *zzAckHook
	closed *zzClosedHandler
	cs     *connStatus

	autoClose bool
	closeReqs []*message.UpstreamCloseRequest
}

// zzNewWorld builds the Upstream the way Conn.OpenUpstream does (same fields), without the open
// handshake and without starting run(); storage is the given one behind a recorder.
func zzNewWorld(qos message.QoS, policy FlushPolicy, storage sentStorage) *zzWorld {
	w := &zzWorld{log: &zzLog{}}
	w.tr = wire.ZZNewFakeTransport()
	w.tr.OnWrite = func(m message.Message) error {
		switch m.(type) {
		case *message.UpstreamChunk:
			w.log.add("wire-chunk")
		case *message.UpstreamCloseRequest:
			w.log.add("wire-close-request")
			if w.autoClose {
				req := m.(*message.UpstreamCloseRequest)
				w.closeReqs = append(w.closeReqs, req)
				wire.ZZDeliverRequest(w.wc, &message.UpstreamCloseResponse{RequestID: req.RequestID, ResultCode: message.ResultCodeSucceeded})
			}
		}
		return nil
	}
	w.autoClose = true
	w.wc = wire.ZZNewClientConn(w.tr, nil)
	wire.ZZStartRequestLoop(w.wc)
	id := zzUUID("stream.id")
	alias := vf.U32("stream.alias")
	wire.ZZOpenUpstream(w.wc, qos, id, alias)
	ackCh, _ := w.wc.SubscribeUpstreamChunkAck(context.Background(), alias)
	w.st = &zzLogStorage{inner: storage, log: w.log}
	w.send = &zzSendHook{log: w.log}
	w.ack = &zzAckHook{log: w.log}
	w.closed = &zzClosedHandler{log: w.log}
	w.cs = newConnState()
	conf := defaultUpstreamConfig
	conf.QoS = qos
	conf.FlushPolicy = policy
	conf.ClosedEventHandler = w.closed
	ctx, cancel := context.WithCancel(context.Background())
	w.u = &Upstream{
		ctx:              ctx,
		cancel:           cancel,
		ID:               id,
		dataIDAliases:    map[uint32]*message.DataID{},
		revDataIDAliases: map[message.DataID]uint32{},
		idAlias:          alias,
		wireConn:         w.wc,
		sequence:         newSequenceNumberGenerator(0),
		logger:           log.NewNop(),

		ackCh:        ackCh,
		dpgCh:        make(chan *DataPointGroup),
		sent:         w.st,
		resCh:        make(chan []*message.UpstreamChunkResult, 8),
		aliasCh:      make(chan map[uint32]*message.DataID, 8),
		closeTimeout: *conf.CloseTimeout,

		afterHooker:          w.ack,
		sendDataPointsHooker: w.send,
		eventDispatcher:      newEventDispatcher(),

		connState:               w.cs,
		explicitlyFlushCh:       make(chan (<-chan struct{})),
		explicitlyFlushResultCh: make(chan error),
		Config:                  conf,
		state:                   newStreamState(),
		sendBuffer:              map[message.DataID]DataPoints{},

		upstreamChunkResultChs: map[uint32]chan *message.UpstreamChunkResult{},
		receivedAck:            sync.NewCond(&sync.RWMutex{}),
	}
	return w
}

// zzFillBuffer puts an arbitrary valid buffer (<=nIDs ids x <=nPts points) into the stream,
// keeping the representation invariant (counters = sums). Returns the flat list of what is buffered.
type zzBuffered struct {
	id message.DataID
	dp *message.DataPoint
}

func (w *zzWorld) fillBuffer(nIDs, nPts int) []zzBuffered {
	var all []zzBuffered
	n := vf.Choose("buf.ids", nIDs+1)
	var ids []message.DataID
	for i := 0; i < n; i++ {
		l := "buf" + string(rune('0'+i))
		id := *zzDataID(l)
		for _, p := range ids {
			vf.Assume(p != id)
		}
		ids = append(ids, id)
		k := 1 + vf.Choose(l+".n", nPts)
		pts := zzPoints(l, k)
		w.u.sendBuffer[id] = pts
		for _, p := range pts {
			all = append(all, zzBuffered{id, p})
			w.u.sendBufferDataPointsCount++
			w.u.sendBufferPayloadSize += len(p.Payload)
		}
	}
	return all
}

// fillAliases installs an arbitrary consistent alias table (<=n entries).
func (w *zzWorld) fillAliases(n int) {
	k := vf.Choose("aliases", n+1)
	var ks []message.DataID
	var vs []uint32
	for i := 0; i < k; i++ {
		l := "al" + string(rune('0'+i))
		id := zzDataID(l)
		a := vf.U32(l + ".alias")
		for j := range ks {
			vf.Assume(ks[j] != *id && vs[j] != a)
		}
		ks, vs = append(ks, *id), append(vs, a)
		w.u.revDataIDAliases[*id] = a
		w.u.dataIDAliases[a] = id
	}
}

func (w *zzWorld) resolve(g *message.DataPointGroup) (message.DataID, bool) {
	switch v := g.DataIDOrAlias.(type) {
	case *message.DataID:
		return *v, true
	case message.DataIDAlias:
		id, ok := w.u.dataIDAliases[uint32(v)]
		if !ok {
			return message.DataID{}, false
		}
		return *id, true
	}
	return message.DataID{}, false
}

func (w *zzWorld) chunks() []*message.UpstreamChunk {
	var out []*message.UpstreamChunk
	for _, m := range w.tr.Msgs() {
		if c, ok := m.(*message.UpstreamChunk); ok {
			out = append(out, c)
		}
	}
	return out
}

// chunkHolds asserts that the wire chunk carries exactly the buffered points (resolved through the
// alias table), per-id order kept.
func (w *zzWorld) assertChunkHolds(c *message.UpstreamChunk, want []zzBuffered) {
	total := 0
	for _, g := range c.StreamChunk.DataPointGroups {
		id, ok := w.resolve(g)
		vf.Assert("chunk-group-resolvable", ok)
		// the points of this group must be exactly the buffered points of id, in order
		var exp []*message.DataPoint
		for _, b := range want {
			if b.id == id {
				exp = append(exp, b.dp)
			}
		}
		vf.Assert("chunk-group-len", len(g.DataPoints) == len(exp))
		for i := range exp {
			if i < len(g.DataPoints) {
				vf.Assert("chunk-point-identity", g.DataPoints[i] == exp[i])
			}
		}
		total += len(g.DataPoints)
	}
	vf.Assert("chunk-total", total == len(want))
	// every listed full id is one that is not aliased
	for _, id := range c.DataIDs {
		_, aliased := w.u.revDataIDAliases[*id]
		vf.Assert("listed-ids-unaliased", !aliased)
	}
}

// C01.b / C02.a / C20.c / C20.e: one flush() is a conservation step.
func zzC01bFlush() {
	w := zzNewWorld(message.QoSReliable, &flushPolicyNone{}, newInmemSentStorage())
	u := w.u
	vf.AllMapOrders(true)
	want := w.fillBuffer(2, 2)
	w.fillAliases(1)
	total0 := vf.U64("total")
	seq0 := vf.U32("seq")
	u.totalDataPoints = total0
	u.sequence = newSequenceNumberGenerator(seq0)
	st0 := u.State()
	vf.Assert("state-buffer-count-before", zzCount(st0) == len(want) && st0.TotalDataPoints == total0)

	err := u.flush(context.Background())
	vf.Settle() // lets the send goroutine write the chunk and park on the ack wait
	chunks := w.chunks()

	if len(want) == 0 {
		vf.Assert("empty-no-error", err == nil)
		vf.Assert("empty-no-chunk", len(chunks) == 0 && len(w.log.ev) == 0)
		vf.Assert("empty-no-number-consumed", u.sequence.CurrentValue() == seq0 && u.totalDataPoints == total0)
		vf.Reach("empty")
		return
	}
	overflow := total0+uint64(len(want)) < total0 || seq0 == 0xFFFFFFFF
	if overflow {
		vf.Assert("overflow-error", err != nil)
		vf.Assert("overflow-nothing-cut", len(chunks) == 0 && u.sequence.CurrentValue() == seq0 && u.totalDataPoints == total0)
		vf.Assert("overflow-stream-closed", u.isClosed())
		vf.Reach("overflow")
		return
	}
	vf.Assert("flush-ok", err == nil)
	vf.Assert("exactly-one-chunk", len(chunks) == 1)
	if len(chunks) != 1 {
		return
	}
	c := chunks[0]
	vf.Assert("chunk-number", c.StreamChunk.SequenceNumber == seq0+1 && u.sequence.CurrentValue() == seq0+1)
	vf.Assert("chunk-alias", c.StreamIDAlias == u.idAlias)
	vf.Assert("total-advanced", u.totalDataPoints == total0+uint64(len(want)))
	vf.Assert("buffer-empty", len(u.sendBuffer) == 0 && u.sendBufferDataPointsCount == 0 && u.sendBufferPayloadSize == 0)
	w.assertChunkHolds(c, want)
	// stored before sent, same content, under the stream's id and the chunk's number
	vf.Assert("stored-once", len(w.st.stored) == 1)
	vf.Assert("store-before-wire", w.log.index("store") >= 0 && w.log.index("store") < w.log.index("wire-chunk"))
	if len(w.st.stored) == 1 {
		s := w.st.stored[0]
		vf.Assert("stored-key", s.id == u.ID && s.seq == seq0+1)
		n := 0
		for _, g := range s.dps {
			for i, p := range g.DataPoints {
				// same point objects as buffered, under the same id, same order
				k := 0
				for _, b := range want {
					if b.id == *g.DataID {
						if k == i {
							vf.Assert("stored-point-identity", b.dp == p)
						}
						k++
					}
				}
				n++
			}
		}
		vf.Assert("stored-total", n == len(want))
	}
	// State() conservation: sent + buffered unchanged by a flush
	st1 := u.State()
	vf.Assert("state-conserved", st1.TotalDataPoints+uint64(zzCount(st1)) == total0+uint64(len(want)) && zzCount(st1) == 0)
	vf.Assert("state-last-issued", st1.LastIssuedSequenceNumber == seq0+1)
	// the send hook closure, when dispatched, reports that chunk
	go u.eventDispatcher.dispatchLoop(u.ctx)
	vf.Settle()
	vf.Assert("send-hook-once", len(w.send.chunks) == 1)
	if len(w.send.chunks) == 1 {
		h := w.send.chunks[0]
		vf.Assert("send-hook-number", h.SequenceNumber == seq0+1 && w.send.ids[0] == u.ID)
		n := 0
		for _, g := range h.DataPointGroups {
			n += len(g.DataPoints)
		}
		vf.Assert("send-hook-content", n == len(want))
	}
	vf.Assert("lock-free", vf.RUnlocked(&u.mu))
	vf.Reach("cut")
}

func zzCount(s *UpstreamState) int {
	n := 0
	for _, g := range s.DataPointsBuffer {
		n += len(g.DataPoints)
	}
	return n
}
