package iscp

import (
	"time"
	"context"
	"sync"

	"github.com/aptpod/iscp-go/errors"
	"github.com/aptpod/iscp-go/internal/vf"
	"github.com/aptpod/iscp-go/log"
	"github.com/aptpod/iscp-go/message"
	"github.com/aptpod/iscp-go/wire"
	uuid "github.com/google/uuid"
)

// zzLog is the ordered event log shared by the harness fakes.
type zzLog struct {
	mu sync.Mutex
	ev []string
}

func (l *zzLog) add(s string) {
	l.mu.Lock()
	l.ev = append(l.ev, s)
	l.mu.Unlock()
}

func (l *zzLog) index(s string) int {
	l.mu.Lock()
	defer l.mu.Unlock()
	for i, e := range l.ev {
		if e == s {
			return i
		}
	}
	return -1
}

func (l *zzLog) count(s string) int {
	l.mu.Lock()
	defer l.mu.Unlock()
	n := 0
	for _, e := range l.ev {
		if e == s {
			n++
		}
	}
	return n
}

// zzLogStorage records Store/Remove/Clear calls in front of a real storage.
type zzLogStorage struct {
	inner  sentStorage
	log    *zzLog
	stored []zzStored
}

type zzStored struct {
	id  uuid.UUID
	seq uint32
	dps DataPointGroups
}

func (s *zzLogStorage) Store(ctx context.Context, id uuid.UUID, seq uint32, dps DataPointGroups) error {
	s.log.add("store")
	s.stored = append(s.stored, zzStored{id, seq, dps})
	return s.inner.Store(ctx, id, seq, dps)
}
func (s *zzLogStorage) Remove(ctx context.Context, id uuid.UUID, seq uint32) (DataPointGroups, error) {
	s.log.add("remove")
	return s.inner.Remove(ctx, id, seq)
}
func (s *zzLogStorage) List(ctx context.Context, id uuid.UUID) (map[uint32]DataPointGroups, error) {
	return s.inner.List(ctx, id)
}
func (s *zzLogStorage) Clear(ctx context.Context, id uuid.UUID) error {
	s.log.add("clear")
	return s.inner.Clear(ctx, id)
}

type zzSendHook struct {
	log    *zzLog
	chunks []UpstreamChunk
	ids    []uuid.UUID
}

func (h *zzSendHook) HookBefore(id uuid.UUID, c UpstreamChunk) {
	h.log.add("send-hook")
	h.chunks = append(h.chunks, c)
	h.ids = append(h.ids, id)
}

type zzAckHook struct {
	log     *zzLog
	results []UpstreamChunkResult
}

func (h *zzAckHook) HookAfter(id uuid.UUID, r UpstreamChunkResult) {
	h.log.add("ack-hook")
	h.results = append(h.results, r)
}

type zzClosedHandler struct {
	log    *zzLog
	events []*UpstreamClosedEvent
}

func (h *zzClosedHandler) OnUpstreamClosed(ev *UpstreamClosedEvent) {
	h.log.add("closed-event")
	h.events = append(h.events, ev)
}

// zzWorld is one upstream wired to a real wire.ClientConn over a scripted transport.
type zzWorld struct {
	log    *zzLog
	tr     *wire.ZZFakeTransport
	wc     *wire.ClientConn
	st     *zzLogStorage
	u      *Upstream
	send   *zzSendHook
	ack    *zzAckHook
	closed *zzClosedHandler
	cs     *connStatus

	autoClose bool
	closeReqs []*message.UpstreamCloseRequest
}

// zzNewWorld builds the Upstream the way Conn.OpenUpstream does (same fields), without the open
// handshake and without starting run(); storage is the given one behind a recorder.
func zzNewWorld(qos message.QoS, policy FlushPolicy, storage sentStorage) *zzWorld {
	w := &zzWorld{log: &zzLog{}}
	w.tr = wire.ZZNewFakeTransport()
	w.tr.OnWrite = func(m message.Message) error {
		switch m.(type) {
		case *message.UpstreamChunk:
			w.log.add("wire-chunk")
		case *message.UpstreamCloseRequest:
			w.log.add("wire-close-request")
			if w.autoClose {
				req := m.(*message.UpstreamCloseRequest)
				w.closeReqs = append(w.closeReqs, req)
				wire.ZZDeliverRequest(w.wc, &message.UpstreamCloseResponse{RequestID: req.RequestID, ResultCode: message.ResultCodeSucceeded})
			}
		}
		return nil
	}
	w.autoClose = true
	w.wc = wire.ZZNewClientConn(w.tr, nil)
	wire.ZZStartRequestLoop(w.wc)
	id := zzUUID("stream.id")
	alias := vf.U32("stream.alias")
	wire.ZZOpenUpstream(w.wc, qos, id, alias)
	ackCh, _ := w.wc.SubscribeUpstreamChunkAck(context.Background(), alias)
	w.st = &zzLogStorage{inner: storage, log: w.log}
	w.send = &zzSendHook{log: w.log}
	w.ack = &zzAckHook{log: w.log}
	w.closed = &zzClosedHandler{log: w.log}
	w.cs = newConnState()
	conf := defaultUpstreamConfig
	conf.QoS = qos
	conf.FlushPolicy = policy
	conf.ClosedEventHandler = w.closed
	ctx, cancel := context.WithCancel(context.Background())
	w.u = &Upstream{
		ctx:              ctx,
		cancel:           cancel,
		ID:               id,
		dataIDAliases:    map[uint32]*message.DataID{},
		revDataIDAliases: map[message.DataID]uint32{},
		idAlias:          alias,
		wireConn:         w.wc,
		sequence:         newSequenceNumberGenerator(0),
		logger:           log.NewNop(),

		ackCh:        ackCh,
		dpgCh:        make(chan *DataPointGroup),
		sent:         w.st,
		resCh:        make(chan []*message.UpstreamChunkResult, 8),
		aliasCh:      make(chan map[uint32]*message.DataID, 8),
		closeTimeout: *conf.CloseTimeout,

		afterHooker:          w.ack,
		sendDataPointsHooker: w.send,
		eventDispatcher:      newEventDispatcher(),

		connState:               w.cs,
		explicitlyFlushCh:       make(chan (<-chan struct{})),
		explicitlyFlushResultCh: make(chan error),
		Config:                  conf,
		state:                   newStreamState(),
		sendBuffer:              map[message.DataID]DataPoints{},

		upstreamChunkResultChs: map[uint32]chan *message.UpstreamChunkResult{},
		receivedAck:            sync.NewCond(&sync.RWMutex{}),
	}
	return w
}

// zzFillBuffer puts an arbitrary valid buffer (<=nIDs ids x <=nPts points) into the stream,
// keeping the representation invariant (counters = sums). Returns the flat list of what is buffered.
type zzBuffered struct {
	id message.DataID
	dp *message.DataPoint
}

func (w *zzWorld) fillBuffer(nIDs, nPts int) []zzBuffered {
	var all []zzBuffered
	n := vf.Choose("buf.ids", nIDs+1)
	var ids []message.DataID
	for i := 0; i < n; i++ {
		l := "buf" + string(rune('0'+i))
		id := *zzDataID(l)
		for _, p := range ids {
			vf.Assume(p != id)
		}
		ids = append(ids, id)
		k := 1 + vf.Choose(l+".n", nPts)
		pts := zzPoints(l, k)
		w.u.sendBuffer[id] = pts
		for _, p := range pts {
			all = append(all, zzBuffered{id, p})
			w.u.sendBufferDataPointsCount++
			w.u.sendBufferPayloadSize += len(p.Payload)
		}
	}
	return all
}

// fillAliases installs an arbitrary consistent alias table (<=n entries).
func (w *zzWorld) fillAliases(n int) {
	k := vf.Choose("aliases", n+1)
	var ks []message.DataID
	var vs []uint32
	for i := 0; i < k; i++ {
		l := "al" + string(rune('0'+i))
		id := zzDataID(l)
		a := vf.U32(l + ".alias")
		for j := range ks {
			vf.Assume(ks[j] != *id && vs[j] != a)
		}
		ks, vs = append(ks, *id), append(vs, a)
		w.u.revDataIDAliases[*id] = a
		w.u.dataIDAliases[a] = id
	}
}

func (w *zzWorld) resolve(g *message.DataPointGroup) (message.DataID, bool) {
	switch v := g.DataIDOrAlias.(type) {
	case *message.DataID:
		return *v, true
	case message.DataIDAlias:
		id, ok := w.u.dataIDAliases[uint32(v)]
		if !ok {
			return message.DataID{}, false
		}
		return *id, true
	}
	return message.DataID{}, false
}

func (w *zzWorld) chunks() []*message.UpstreamChunk {
	var out []*message.UpstreamChunk
	for _, m := range w.tr.Msgs() {
		if c, ok := m.(*message.UpstreamChunk); ok {
			out = append(out, c)
		}
	}
	return out
}

// chunkHolds asserts that the wire chunk carries exactly the buffered points (resolved through the
// alias table), per-id order kept.
func (w *zzWorld) assertChunkHolds(c *message.UpstreamChunk, want []zzBuffered) {
	total := 0
	for _, g := range c.StreamChunk.DataPointGroups {
		id, ok := w.resolve(g)
		vf.Assert("chunk-group-resolvable", ok)
		// the points of this group must be exactly the buffered points of id, in order
		var exp []*message.DataPoint
		for _, b := range want {
			if b.id == id {
				exp = append(exp, b.dp)
			}
		}
		vf.Assert("chunk-group-len", len(g.DataPoints) == len(exp))
		for i := range exp {
			if i < len(g.DataPoints) {
				vf.Assert("chunk-point-identity", g.DataPoints[i] == exp[i])
			}
		}
		total += len(g.DataPoints)
	}
	vf.Assert("chunk-total", total == len(want))
	// every listed full id is one that is not aliased
	for _, id := range c.DataIDs {
		_, aliased := w.u.revDataIDAliases[*id]
		vf.Assert("listed-ids-unaliased", !aliased)
	}
}

// zzDeep widens the collection bounds of the step lemmas (thorough tier).
var zzDeep = 0

func zzC01bFlushDeep()   { zzDeep = 1; zzC01bFlush() }
func zzC01cAcceptDeep()  { zzDeep = 1; zzC01cAccept() }
func zzC03aReadDeep()    { zzDeep = 1; zzC03aRead() }
func zzC04aAssignDeep()  { zzDeep = 1; zzC04aAssignDataID() }
func zzC04bAssignUpDeep() { zzDeep = 1; zzC04bAssignUpstream() }
func zzC04cFlushAckDeep() { zzDeep = 1; zzC04cFlushAck() }

// C01.b / C02.a / C20.c / C20.e: one flush() is a conservation step.
func zzC01bFlush() {
	w := zzNewWorld(message.QoSReliable, &flushPolicyNone{}, newInmemSentStorage())
	u := w.u
	vf.AllMapOrders(true)
	want := w.fillBuffer(2+zzDeep, 2+zzDeep)
	w.fillAliases(1 + zzDeep)
	total0 := vf.U64("total")
	seq0 := vf.U32("seq")
	u.totalDataPoints = total0
	u.sequence = newSequenceNumberGenerator(seq0)
	st0 := u.State()
	vf.Assert("state-buffer-count-before", zzCount(st0) == len(want) && st0.TotalDataPoints == total0)

	err := u.flush(context.Background())
	vf.Settle() // lets the send goroutine write the chunk and park on the ack wait
	chunks := w.chunks()

	if len(want) == 0 {
		vf.Assert("empty-no-error", err == nil)
		vf.Assert("empty-no-chunk", len(chunks) == 0 && len(w.log.ev) == 0)
		vf.Assert("empty-no-number-consumed", u.sequence.CurrentValue() == seq0 && u.totalDataPoints == total0)
		vf.Reach("empty")
		return
	}
	overflow := total0+uint64(len(want)) < total0 || seq0 == 0xFFFFFFFF
	if overflow {
		vf.Assert("overflow-error", err != nil)
		vf.Assert("overflow-nothing-cut", len(chunks) == 0 && u.sequence.CurrentValue() == seq0 && u.totalDataPoints == total0)
		vf.Assert("overflow-stream-closed", u.isClosed())
		vf.Reach("overflow")
		return
	}
	vf.Assert("flush-ok", err == nil)
	vf.Assert("exactly-one-chunk", len(chunks) == 1)
	if len(chunks) != 1 {
		return
	}
	c := chunks[0]
	vf.Assert("chunk-number", c.StreamChunk.SequenceNumber == seq0+1 && u.sequence.CurrentValue() == seq0+1)
	vf.Assert("chunk-alias", c.StreamIDAlias == u.idAlias)
	vf.Assert("total-advanced", u.totalDataPoints == total0+uint64(len(want)))
	vf.Assert("buffer-empty", len(u.sendBuffer) == 0 && u.sendBufferDataPointsCount == 0 && u.sendBufferPayloadSize == 0)
	w.assertChunkHolds(c, want)
	// stored before sent, same content, under the stream's id and the chunk's number
	vf.Assert("stored-once", len(w.st.stored) == 1)
	vf.Assert("store-before-wire", w.log.index("store") >= 0 && w.log.index("store") < w.log.index("wire-chunk"))
	if len(w.st.stored) == 1 {
		s := w.st.stored[0]
		vf.Assert("stored-key", s.id == u.ID && s.seq == seq0+1)
		n := 0
		for _, g := range s.dps {
			for i, p := range g.DataPoints {
				// same point objects as buffered, under the same id, same order
				k := 0
				for _, b := range want {
					if b.id == *g.DataID {
						if k == i {
							vf.Assert("stored-point-identity", b.dp == p)
						}
						k++
					}
				}
				n++
			}
		}
		vf.Assert("stored-total", n == len(want))
	}
	// State() conservation: sent + buffered unchanged by a flush
	st1 := u.State()
	vf.Assert("state-conserved", st1.TotalDataPoints+uint64(zzCount(st1)) == total0+uint64(len(want)) && zzCount(st1) == 0)
	vf.Assert("state-last-issued", st1.LastIssuedSequenceNumber == seq0+1)
	// the send hook closure, when dispatched, reports that chunk
	go u.eventDispatcher.dispatchLoop(u.ctx)
	vf.Settle()
	vf.Assert("send-hook-once", len(w.send.chunks) == 1)
	if len(w.send.chunks) == 1 {
		h := w.send.chunks[0]
		vf.Assert("send-hook-number", h.SequenceNumber == seq0+1 && w.send.ids[0] == u.ID)
		n := 0
		for _, g := range h.DataPointGroups {
			n += len(g.DataPoints)
		}
		vf.Assert("send-hook-content", n == len(want))
	}
	vf.Assert("lock-free", vf.RUnlocked(&u.mu))
	vf.Reach("cut")
}

func zzCount(s *UpstreamState) int {
	n := 0
	for _, g := range s.DataPointsBuffer {
		n += len(g.DataPoints)
	}
	return n
}

func zzPolicy(label string) (FlushPolicy, string, uint32) {
	th := vf.U32(label + ".threshold")
	switch vf.Choose(label, 5) {
	case 0:
		return &flushPolicyNone{}, "none", 0
	case 1:
		return &flushPolicyIntervalOnly{Interval: 1 << 40}, "interval", 0
	case 2:
		return &flushPolicyBufferSizeOnly{BufferSize: th}, "size", th
	case 3:
		return &flushPolicyIntervalOrBufferSize{BufferPolicy: &flushPolicyBufferSizeOnly{BufferSize: th}, IntervalPolicy: &flushPolicyIntervalOnly{Interval: 1 << 40}}, "either", th
	}
	return &flushPolicyImmediately{}, "immediate", 0
}

// C01.c / C20.b / C20.c: one accept step of flushLoop through the public WriteDataPoints.
func zzC01cAccept() {
	policy, kind, th := zzPolicy("policy")
	w := zzNewWorld(message.QoSReliable, policy, newInmemSentStorage())
	u := w.u
	vf.AllMapOrders(true)
	have := w.fillBuffer(1+zzDeep, 2+zzDeep)
	// the buffered payload size is an arbitrary value not yet over the threshold (the invariant of a
	// stream that has not cut yet); point payloads themselves stay tiny
	p0 := vf.U32("buffered.size")
	u.sendBufferPayloadSize = int(p0)
	if kind == "size" || kind == "either" {
		vf.Assume(p0 <= th)
	}
	total0, seq0 := vf.U64("total"), vf.U32("seq")
	vf.Assume(total0 < 1<<62 && seq0 < 0xFFFFFFF0)
	u.totalDataPoints = total0
	u.sequence = newSequenceNumberGenerator(seq0)

	ctx, cancel := context.WithCancel(context.Background())
	defer cancel()
	go u.flushLoop(ctx)

	// incoming group: same id as a buffered one, or a new id; 0..2 points
	var id *message.DataID
	sameID := len(have) > 0 && vf.Choose("incoming.sameid", 2) == 1
	if sameID {
		c := have[0].id
		id = &c
	} else {
		id = zzDataID("incoming")
		for _, b := range have {
			vf.Assume(b.id != *id)
		}
	}
	pts := zzPoints("incoming", vf.Choose("incoming.n", 3))
	s := 0
	for _, p := range pts {
		s += len(p.Payload)
	}
	err := u.WriteDataPoints(context.Background(), id, pts...)
	vf.Settle()
	vf.Assert("write-accepted", err == nil)

	var all []zzBuffered
	all = append(all, have...)
	for _, p := range pts {
		all = append(all, zzBuffered{*id, p})
	}
	cut := false
	switch kind {
	case "size", "either":
		vf.Assume(int(p0)+s < 1<<32) // sizes below 2^32 (the code truncates the size to uint32)
		cut = int(p0)+s > int(th)
	case "immediate":
		cut = true
	}
	chunks := w.chunks()
	if cut {
		vf.Assert("cut-exactly-one-chunk", len(chunks) == 1)
		if len(chunks) == 1 {
			w.assertChunkHolds(chunks[0], all)
			vf.Assert("cut-number", chunks[0].StreamChunk.SequenceNumber == seq0+1)
		}
		vf.Assert("cut-buffer-empty", len(u.sendBuffer) == 0 && u.sendBufferPayloadSize == 0 && u.sendBufferDataPointsCount == 0)
		vf.Assert("cut-total", u.totalDataPoints == total0+uint64(len(all)))
		vf.Reach("cut")
	} else {
		vf.Assert("no-chunk-below-threshold", len(chunks) == 0 && len(w.log.ev) == 0)
		vf.Assert("nothing-consumed", u.sequence.CurrentValue() == seq0 && u.totalDataPoints == total0)
		// buffer gained exactly the incoming points, appended after the existing ones of that id
		got := u.sendBuffer[*id]
		var exp []*message.DataPoint
		for _, b := range all {
			if b.id == *id {
				exp = append(exp, b.dp)
			}
		}
		vf.Assert("buffer-id-len", len(got) == len(exp))
		for i := range exp {
			if i < len(got) {
				vf.Assert("buffer-append-order", got[i] == exp[i])
			}
		}
		vf.Assert("buffer-count", u.sendBufferDataPointsCount == len(all))
		vf.Assert("buffer-size", u.sendBufferPayloadSize == int(p0)+s)
		vf.Reach("kept")
	}
	// State(): sent + buffered grew by exactly the accepted count
	st := u.State()
	vf.Assert("state-conserved", st.TotalDataPoints+uint64(zzCount(st)) == total0+uint64(len(all)))
	// the snapshot is a copy
	if len(st.DataPointsBuffer) > 0 && len(st.DataPointsBuffer[0].DataPoints) > 0 {
		st.DataPointsBuffer[0].DataPoints[0] = nil
		st2 := u.State()
		ok := true
		for _, g := range st2.DataPointsBuffer {
			for _, p := range g.DataPoints {
				if p == nil {
					ok = false
				}
			}
		}
		vf.Assert("snapshot-is-copy", ok)
	}
	vf.Assert("lock-free", vf.RUnlocked(&u.mu))
}

// C02.c: the per-chunk waiter tells ack / ack-timeout / cancellation apart: only the first two may
// drop the stored chunk.
func zzC02cWaiter() {
	w := zzNewWorld(message.QoSReliable, &flushPolicyNone{}, newInmemSentStorage())
	u := w.u
	withTimeout := vf.Choose("ackTimeout.configured", 2) == 1
	if withTimeout {
		u.Config.AckTimeout = 50 * time.Millisecond
	}
	id := zzDataID("d")
	u.sendBuffer[*id] = zzPoints("d", 1)
	u.sendBufferDataPointsCount = 1
	u.sendBufferPayloadSize = len(u.sendBuffer[*id][0].Payload)
	seq0 := vf.U32("seq")
	vf.Assume(seq0 != 0xFFFFFFFF)
	u.sequence = newSequenceNumberGenerator(seq0)
	runCtx, cancelRun := context.WithCancel(u.ctx)
	defer cancelRun()
	err := u.flush(runCtx)
	vf.Settle()
	vf.Assume(err == nil)
	m, _ := u.sent.List(context.Background(), u.ID)
	_, stored := m[seq0+1]
	vf.Assert("stored-after-flush", stored && len(w.chunks()) == 1)

	scenario := vf.Choose("scenario", 4)
	vf.Known("KF-C02-cancel-delivers-nil", scenario == 2)
	switch scenario {
	case 0: // the broker acknowledges: the dispatcher hands the result to the waiter
		u.processResult(runCtx, &message.UpstreamChunkResult{SequenceNumber: seq0 + 1, ResultCode: message.ResultCodeSucceeded})
	case 1: // ack timeout elapses
		vf.Assume(withTimeout)
		vf.Advance(60 * time.Millisecond)
	case 2: // the run context ends (disconnect): the chunk must stay stored for the resend
		cancelRun()
	case 3: // the stream itself is cancelled
		u.cancel()
	}
	vf.Settle()
	m2, _ := u.sent.List(context.Background(), u.ID)
	_, still := m2[seq0+1]
	switch scenario {
	case 0:
		vf.Assert("ack-removes", !still)
		vf.Assert("ack-recorded", u.maxSequenceNumberInReceivedUpstreamChunkResults == seq0+1)
	case 1:
		vf.Assert("timeout-removes", !still)
	case 2:
		vf.Assert("disconnect-keeps-stored", still)
	case 3:
		vf.Assert("stream-cancel-keeps-stored", still)
	}
	vf.Reach("end")
}

// zzDefaultStorage returns the sent storage ConnectWithConfig installs when the caller configured
// none — read from the real code: the config is filled in before the (here failing) dial.
func zzDefaultStorage() sentStorage {
	conf := defaultClientConfig
	conf.Transport = "zz-no-such-transport"
	_, err := ConnectWithConfig(&conf)
	vf.Assume(err != nil)
	return conf.sentStorage
}

// C02.b: after a resume a reliable stream retransmits every stored chunk under its original number
// with its original content (payload included).
func zzC02bResend() {
	storage := zzDefaultStorage()
	vf.Assert("default-storage-installed", storage != nil)
	w := zzNewWorld(message.QoSReliable, &flushPolicyNone{}, storage)
	u := w.u
	wire.ZZStartAckLoop(w.wc)
	vf.AllMapOrders(true)
	n := 1 + vf.Choose("stored", 2)
	type rec struct {
		seq uint32
		id  message.DataID
		dp  *message.DataPoint
	}
	var recs []rec
	anyPayload := false
	for i := 0; i < n; i++ {
		l := "c" + string(rune('0'+i))
		seq := vf.U32(l + ".seq")
		for _, r := range recs {
			vf.Assume(r.seq != seq)
		}
		id := zzDataID(l)
		dp := &message.DataPoint{ElapsedTime: zzDur(l + ".t"), Payload: vf.Bytes(l+".p", 1)}
		if len(dp.Payload) > 0 {
			anyPayload = true
		}
		recs = append(recs, rec{seq, *id, dp})
		// what flush() does with a cut chunk
		u.sent.Store(u.ctx, u.ID, seq, DataPointGroups{&DataPointGroup{DataID: id, DataPoints: DataPoints{dp}}})
	}
	vf.Known("KF-C02-default-storage-drops-payload", anyPayload)
	// arbitrary ack history before the disconnect (acks are per chunk, not cumulative)
	u.maxSequenceNumberInReceivedUpstreamChunkResults = vf.U32("max.acked.before")
	w.st.stored = nil
	w.log.ev = nil

	done := make(chan error, 1)
	go func() { done <- u.run(true) }()
	// play the broker: acknowledge whatever chunk arrives, one at a time
	acked := 0
	for round := 0; round < n+1; round++ {
		vf.Settle()
		cs := w.chunks()
		if len(cs) <= acked {
			break
		}
		c := cs[acked]
		acked++
		wire.ZZDeliverAck(w.wc, &message.UpstreamChunkAck{StreamIDAlias: u.idAlias, Results: []*message.UpstreamChunkResult{{SequenceNumber: c.StreamChunk.SequenceNumber, ResultCode: message.ResultCodeSucceeded}}})
	}
	vf.Settle()
	cs := w.chunks()
	vf.Assert("one-resend-per-stored-chunk", len(cs) == n)
	for _, r := range recs {
		hits := 0
		for _, c := range cs {
			if c.StreamChunk.SequenceNumber != r.seq {
				continue
			}
			hits++
			vf.Assert("resend-alias", c.StreamIDAlias == u.idAlias)
			vf.Assert("resend-one-group", len(c.StreamChunk.DataPointGroups) == 1)
			if len(c.StreamChunk.DataPointGroups) == 1 {
				g := c.StreamChunk.DataPointGroups[0]
				id, ok := w.resolve(g)
				vf.Assert("resend-id", ok && id == r.id)
				vf.Assert("resend-one-point", len(g.DataPoints) == 1)
				if len(g.DataPoints) == 1 {
					vf.Assert("resend-elapsed-time", g.DataPoints[0].ElapsedTime == r.dp.ElapsedTime)
					vf.Assert("resend-payload-same", zzBytesEq(g.DataPoints[0].Payload, r.dp.Payload))
				}
			}
		}
		vf.Assert("resend-original-number-once", hits == 1)
	}
	// acknowledged resends leave the store empty
	m, _ := u.sent.List(context.Background(), u.ID)
	vf.Assert("acked-resends-removed", len(m) == 0)
	vf.Reach("end")
}

func zzBytesEq(a, b []byte) bool {
	if len(a) != len(b) {
		return false
	}
	for i := range a {
		if a[i] != b[i] {
			return false
		}
	}
	return true
}

// C02.d: a non-reliable stream, on resume, clears its own stored chunks only.
func zzC02dClearOwn() {
	storage := zzDefaultStorage()
	qos := message.QoSUnreliable
	if vf.Choose("qos", 2) == 1 {
		qos = message.QoSPartial
	}
	w := zzNewWorld(qos, &flushPolicyNone{}, storage)
	u := w.u
	other := zzUUID("other.id")
	vf.Assume(other != u.ID)
	oseq := vf.U32("other.seq")
	og := zzGroups("other.g")
	storage.Store(context.Background(), other, oseq, og)
	u.sent.Store(u.ctx, u.ID, vf.U32("own.seq"), zzGroups("own.g"))
	vf.Known("KF-C07-clear-wipes-all-streams", true)
	go u.run(true)
	vf.Settle()
	own, _ := storage.List(context.Background(), u.ID)
	vf.Assert("own-cleared", len(own) == 0)
	vf.Assert("nothing-resent", len(w.chunks()) == 0)
	oth, err := storage.List(context.Background(), other)
	vf.Assert("other-stream-kept", err == nil && len(oth) == 1 && len(oth[oseq]) == 1)
	vf.Reach("end")
}

// C01.c2: two accept steps with caller-owned slices that have spare capacity: the library must not
// write into the caller's memory, and what it buffers must stay what was written even when the
// caller goes on using its slice.
func zzC01c2CallerSlices() {
	w := zzNewWorld(message.QoSReliable, &flushPolicyNone{}, newInmemSentStorage())
	u := w.u
	ctx, cancel := context.WithCancel(context.Background())
	defer cancel()
	go u.flushLoop(ctx)
	idA, idB := zzDataID("A"), zzDataID("B")
	vf.Assume(*idA != *idB)
	p1, p2, p3 := zzPoints("p1", 1)[0], zzPoints("p2", 1)[0], zzPoints("p3", 1)[0]
	batch := make([]*message.DataPoint, 2, 4)
	batch[0], batch[1] = p1, p2
	k := 1 + vf.Choose("first.len", 2) // first write passes batch[:k]
	e1 := u.WriteDataPoints(context.Background(), idA, batch[:k]...)
	vf.Settle()
	e2 := u.WriteDataPoints(context.Background(), idA, p3)
	vf.Settle()
	vf.Assert("writes-accepted", e1 == nil && e2 == nil)
	vf.Assert("caller-memory-untouched", batch[0] == p1 && batch[1] == p2 && len(batch) == 2)
	full := batch[:4]
	vf.Assert("caller-spare-capacity-untouched", full[2] == nil && full[3] == nil)
	// the caller reuses its slice afterwards
	e3 := u.WriteDataPoints(context.Background(), idB, batch[k:]...)
	batch[0] = nil
	vf.Settle()
	vf.Assert("third-write-accepted", e3 == nil)
	gotA, gotB := u.sendBuffer[*idA], u.sendBuffer[*idB]
	if k == 1 {
		vf.Assert("buffered-exactly-what-was-written", len(gotA) == 2 && gotA[0] == p1 && gotA[1] == p3 && len(gotB) == 1 && gotB[0] == p2)
	} else {
		vf.Assert("buffered-exactly-what-was-written", len(gotA) == 3 && gotA[0] == p1 && gotA[1] == p2 && gotA[2] == p3 && len(gotB) == 0)
	}
	// and the cut chunk carries exactly that
	ferr := u.Flush(context.Background())
	vf.Settle()
	vf.Assert("flush-ok", ferr == nil)
	cs := w.chunks()
	vf.Assert("one-chunk", len(cs) == 1)
	if len(cs) == 1 {
		n := 0
		for _, g := range cs[0].StreamChunk.DataPointGroups {
			for _, p := range g.DataPoints {
				vf.Assert("chunk-has-no-nil-or-foreign-point", p == p1 || p == p2 || p == p3)
				n++
			}
		}
		vf.Assert("chunk-point-total", n == 3)
	}
	vf.Reach("end")
}

// C02.e: Upstream.resume — the resume request carries the original stream id; on success the stream
// talks under exactly the alias the broker assigned (0 included), listens to that alias's acks and is
// Connected again; on ResumeRequestConflict it retries; any other code closes the stream with an error.
func zzC02eResume() {
	w := zzNewWorld(message.QoSReliable, &flushPolicyNone{}, newInmemSentStorage())
	u := w.u
	oldAlias := u.idAlias
	newAlias := vf.U32("resume.alias")
	conflicts := vf.Choose("conflicts.first", 2)
	conflictAlias := vf.U32("alias.in.the.conflict.response")
	final := vf.Choose("final.code", 2) // 0 succeeded, 1 stream not found
	var reqs []*message.UpstreamResumeRequest
	// a fresh wire connection (after the reconnect) answering the resume request
	tr2 := wire.ZZNewFakeTransport()
	wc2 := wire.ZZNewClientConn(tr2, nil)
	wire.ZZStartRequestLoop(wc2)
	tr2.OnWrite = func(m message.Message) error {
		switch r := m.(type) {
		case *message.UpstreamResumeRequest:
			reqs = append(reqs, r)
			code := message.ResultCodeSucceeded
			if len(reqs) <= conflicts {
				code = message.ResultCodeResumeRequestConflict
			} else if final == 1 {
				code = message.ResultCodeStreamNotFound
			}
			alias := newAlias
			if code == message.ResultCodeResumeRequestConflict {
				alias = conflictAlias // what a refusing broker puts there is arbitrary (usually 0)
			}
			wire.ZZDeliverRequest(wc2, &message.UpstreamResumeResponse{RequestID: r.RequestID, AssignedStreamIDAlias: alias, ResultCode: code})
		case *message.UpstreamCloseRequest:
			wire.ZZDeliverRequest(wc2, &message.UpstreamCloseResponse{RequestID: r.RequestID, ResultCode: message.ResultCodeSucceeded})
		}
		return nil
	}
	u.state.Swap(streamStatusResuming)
	err := u.resume(wc2)
	vf.Assert("resume-requests-carry-the-original-stream-id", len(reqs) == conflicts+1 && reqs[0].StreamID == u.ID && reqs[len(reqs)-1].StreamID == u.ID)
	if final == 1 {
		vf.Assert("refused-resume-is-an-error", err != nil)
		vf.Assert("refused-resume-closes-the-stream", u.isClosed())
		vf.Reach("refused")
		return
	}
	vf.Assert("resume-ok", err == nil)
	vf.Assert("talks-under-the-assigned-alias", u.idAlias == newAlias)
	vf.Assert("uses-the-new-connection", u.wireConn == wc2)
	vf.Assert("connected-again", u.state.Current() == streamStatusConnected)
	// a chunk cut after the resume goes out on the new connection under the new alias
	id := zzDataID("after")
	u.sendBuffer[*id] = zzPoints("after", 1)
	u.sendBufferDataPointsCount = 1
	ferr := u.flush(u.ctx)
	vf.Settle()
	var sent []*message.UpstreamChunk
	for _, m := range tr2.Msgs() {
		if c, ok := m.(*message.UpstreamChunk); ok {
			sent = append(sent, c)
		}
	}
	vf.Assert("chunk-after-resume-reaches-the-new-connection", ferr == nil && len(sent) == 1 && len(w.chunks()) == 0)
	if len(sent) == 1 {
		vf.Assert("chunk-after-resume-carries-the-new-alias", sent[0].StreamIDAlias == newAlias)
	}
	// acks for the new alias reach the stream's ack channel
	wire.ZZStartAckLoop(wc2)
	ack := &message.UpstreamChunkAck{StreamIDAlias: newAlias}
	wire.ZZDeliverAck(wc2, ack)
	vf.Settle()
	var got *message.UpstreamChunkAck
	select {
	case got = <-u.ackCh:
	default:
	}
	vf.Assert("acks-of-the-new-alias-reach-the-stream", got == ack)
	_ = oldAlias
	vf.Reach("resumed")
}

// C10.c: stream Close is final whatever the broker answers to the close request (success, a failure
// code, or nothing until the caller's context ends): afterwards the stream is closed, writes and
// flushes fail with ErrStreamClosed, a second Close sends no second close request, and the closed
// event fires at most once.
func zzC10cUpstreamCloseFinal() {
	w := zzNewWorld(message.QoSReliable, &flushPolicyNone{}, newInmemSentStorage())
	u := w.u
	w.autoClose = false
	outcome := vf.Choose("close.response", 3) // 0 success, 1 failure code, 2 silence
	nreq := 0
	w.tr.OnWrite = func(m message.Message) error {
		if r, ok := m.(*message.UpstreamCloseRequest); ok {
			nreq++
			switch outcome {
			case 0:
				wire.ZZDeliverRequest(w.wc, &message.UpstreamCloseResponse{RequestID: r.RequestID, ResultCode: message.ResultCodeSucceeded})
			case 1:
				wire.ZZDeliverRequest(w.wc, &message.UpstreamCloseResponse{RequestID: r.RequestID, ResultCode: message.ResultCodeStreamNotFound, ResultString: "no such stream"})
			}
		}
		return nil
	}
	runCtx, cancelRun := context.WithCancel(u.ctx)
	defer cancelRun()
	go u.flushLoop(runCtx)
	go u.eventDispatcher.dispatchLoop(context.Background())
	ctx, cancel := context.WithCancel(context.Background())
	defer cancel()
	var cerr error
	closed := false
	go func() { cerr = u.Close(ctx); closed = true }()
	vf.Settle()
	if outcome == 2 {
		vf.Assert("close-waits-for-the-broker", !closed)
		cancel()
		vf.Settle()
	}
	vf.Assert("close-returns", closed)
	vf.Assert("close-request-sent-once", nreq == 1)
	if outcome == 0 {
		vf.Assert("close-ok", cerr == nil)
	} else {
		vf.Assert("failed-close-reports-an-error", cerr != nil)
	}
	vf.Assert("stream-is-closed-afterwards", u.isClosed())
	werr := u.WriteDataPoints(context.Background(), zzDataID("late"), zzPoints("late", 1)...)
	vf.Assert("write-after-close-is-stream-closed", werr != nil && errors.Is(werr, errors.ErrStreamClosed) && errors.Is(werr, errors.ErrISCP))
	ferr := u.Flush(context.Background())
	vf.Assert("flush-after-close-is-stream-closed", ferr != nil && errors.Is(ferr, errors.ErrStreamClosed))
	panicked := vf.Panics(func() { u.Close(context.Background()) })
	vf.Settle()
	vf.Assert("second-close-no-panic-no-second-request", !panicked && nreq == 1)
	vf.Assert("no-chunk-ever", len(w.chunks()) == 0)
	vf.Assert("closed-event-at-most-once", len(w.closed.events) <= 1)
	if outcome == 0 {
		vf.Assert("closed-event-once-on-success", len(w.closed.events) == 1)
	}
	vf.Reach("end")
}
