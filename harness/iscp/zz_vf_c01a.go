package iscp

import (
	"github.com/aptpod/iscp-go/internal/vf"
	"github.com/aptpod/iscp-go/message"
)

func zzDataID(label string) *message.DataID {
	return &message.DataID{Name: vf.Str(label + ".name"), Type: vf.Str(label + ".type")}
}

func zzPoints(label string, n int) DataPoints {
	var ps DataPoints
	for i := 0; i < n; i++ {
		l := label + string(rune('a'+i))
		ps = append(ps, &message.DataPoint{ElapsedTime: zzDur(l + ".t"), Payload: vf.Bytes(l+".p", 1)})
	}
	return ps
}

// C01.a: alias substitution is faithful.
func zzC01aAlias() {
	ng := vf.Choose("groups", 4)
	var in DataPointGroups
	for i := 0; i < ng; i++ {
		l := "g" + string(rune('0'+i))
		in = append(in, &DataPointGroup{DataID: zzDataID(l), DataPoints: zzPoints(l, vf.Choose(l+".n", 3))})
	}
	// arbitrary injective reverse-alias table with <=2 entries
	rev := map[message.DataID]uint32{}
	nt := vf.Choose("table", 3)
	var tk []message.DataID
	var tv []uint32
	for i := 0; i < nt; i++ {
		l := "t" + string(rune('0'+i))
		k := *zzDataID(l)
		v := vf.U32(l + ".alias")
		for j := range tk {
			vf.Assume(tk[j] != k && tv[j] != v)
		}
		tk, tv = append(tk, k), append(tv, v)
		rev[k] = v
	}
	out, ids := in.toUpstreamDataPointGroups(rev)
	vf.Assert("same-group-count", len(out) == len(in))
	for i := range in {
		if i >= len(out) {
			break
		}
		g := out[i]
		// reference resolver
		var wantAlias uint32
		known := false
		for j := range tk {
			if tk[j] == *in[i].DataID {
				known, wantAlias = true, tv[j]
			}
		}
		switch v := g.DataIDOrAlias.(type) {
		case message.DataIDAlias:
			vf.Assert("alias-only-if-known", known)
			vf.Assert("alias-is-the-tables", uint32(v) == wantAlias)
		case *message.DataID:
			vf.Assert("full-id-only-if-unknown", !known)
			vf.Assert("full-id-is-the-groups", *v == *in[i].DataID)
		default:
			vf.Assert("id-or-alias-set", false)
		}
		vf.Assert("same-point-count", len(g.DataPoints) == len(in[i].DataPoints))
		for j := range in[i].DataPoints {
			if j < len(g.DataPoints) {
				vf.Assert("same-points-in-order", g.DataPoints[j] == in[i].DataPoints[j])
			}
		}
	}
	// id list: exactly the distinct un-aliased ids, each once, in first-appearance order
	var want []message.DataID
	for i := range in {
		known := false
		for j := range tk {
			if tk[j] == *in[i].DataID {
				known = true
			}
		}
		dup := false
		for _, w := range want {
			if w == *in[i].DataID {
				dup = true
			}
		}
		if !known && !dup {
			want = append(want, *in[i].DataID)
		}
	}
	vf.Assert("id-list-length", len(ids) == len(want))
	for i := range want {
		if i < len(ids) {
			vf.Assert("id-list-content", *ids[i] == want[i])
		}
	}
	vf.Reach("end")
}
