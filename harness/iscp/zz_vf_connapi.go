package iscp

import (
	"context"
	"time"

	"github.com/aptpod/iscp-go/log"
	"github.com/aptpod/iscp-go/wire"

	"github.com/aptpod/iscp-go/errors"
	"github.com/aptpod/iscp-go/internal/vf"
	"github.com/aptpod/iscp-go/message"
	uuid "github.com/google/uuid"
)

var zzStreamID1 = uuid.UUID{1, 1, 1, 1, 1, 1, 1, 1, 1, 1, 1, 1, 1, 1, 1, 1}
var zzStreamID2 = uuid.UUID{2, 2, 2, 2, 2, 2, 2, 2, 2, 2, 2, 2, 2, 2, 2, 2}

// zzServeStreams is the default well-behaved broker for stream and call requests.
func zzServeStreams(b *zzBroker) {
	nextAlias := uint32(0)
	calls := 0
	b.handler = func(t *zzTr, m message.Message) bool {
		switch r := m.(type) {
		case *message.UpstreamOpenRequest:
			nextAlias++
			t.in <- zzEncode(&message.UpstreamOpenResponse{RequestID: r.RequestID, AssignedStreamID: zzStreamID1, AssignedStreamIDAlias: nextAlias, ResultCode: message.ResultCodeSucceeded, DataIDAliases: map[uint32]*message.DataID{}})
		case *message.UpstreamResumeRequest:
			nextAlias++
			t.in <- zzEncode(&message.UpstreamResumeResponse{RequestID: r.RequestID, AssignedStreamIDAlias: nextAlias, ResultCode: message.ResultCodeSucceeded})
		case *message.UpstreamCloseRequest:
			t.in <- zzEncode(&message.UpstreamCloseResponse{RequestID: r.RequestID, ResultCode: message.ResultCodeSucceeded})
		case *message.DownstreamOpenRequest:
			t.in <- zzEncode(&message.DownstreamOpenResponse{RequestID: r.RequestID, AssignedStreamID: zzStreamID2, ResultCode: message.ResultCodeSucceeded})
		case *message.DownstreamResumeRequest:
			t.in <- zzEncode(&message.DownstreamResumeResponse{RequestID: r.RequestID, ResultCode: message.ResultCodeSucceeded})
		case *message.DownstreamCloseRequest:
			t.in <- zzEncode(&message.DownstreamCloseResponse{RequestID: r.RequestID, ResultCode: message.ResultCodeSucceeded})
		case *message.UpstreamMetadata:
			t.in <- zzEncode(&message.UpstreamMetadataAck{RequestID: r.RequestID, ResultCode: message.ResultCodeSucceeded})
		case *message.UpstreamCall:
			calls++
			t.in <- zzEncode(&message.UpstreamCallAck{CallID: r.CallID, ResultCode: message.ResultCodeSucceeded})
		default:
			return false
		}
		return true
	}
}

func zzConnect(b *zzBroker) *Conn {
	n := 0
	randomString = func() string {
		n++
		return "call-" + string(rune('a'+n))
	}
	conn, err := ConnectWithConfig(b.config())
	vf.Assume(err == nil)
	vf.Settle()
	return conn
}

func zzIsClosedErr(err error) bool {
	return err != nil && errors.Is(err, errors.ErrConnectionClosed) && errors.Is(err, errors.ErrISCP)
}

// C10.a: after Conn.Close every API call fails promptly with the documented error and nothing more
// is written to the wire.
func zzC10aConnGuards() {
	b := zzNewBroker()
	zzServeStreams(b)
	conn := zzConnect(b)
	tr := b.last()
	withStreams := vf.Choose("streams.open", 2) == 1
	var up *Upstream
	var down *Downstream
	if withStreams {
		var err error
		up, err = conn.OpenUpstream(context.Background(), "session")
		vf.Assume(err == nil)
		down, err = conn.OpenDownstream(context.Background(), []*message.DownstreamFilter{{SourceNodeID: "node", DataFilters: []*message.DataFilter{{Name: "#", Type: "#"}}}})
		vf.Assume(err == nil)
		vf.Settle()
	}
	cerr := conn.Close(context.Background())
	vf.Settle()
	vf.Assert("close-ok", cerr == nil)
	msgs := tr.msgs()
	nDisc := 0
	for _, m := range msgs {
		if _, ok := m.(*message.Disconnect); ok {
			nDisc++
		}
	}
	vf.Assert("one-disconnect", nDisc == 1)
	if nDisc == 1 {
		_, last := msgs[len(msgs)-1].(*message.Disconnect)
		vf.Assert("disconnect-is-last-on-the-wire", last)
	}
	vf.Assert("transport-closed", tr.closeCount >= 1)
	dials := b.dials
	n0 := len(msgs)

	ctx, cancel := context.WithTimeout(context.Background(), 200*time.Millisecond)
	defer cancel()
	var err error
	blocked := false
	switch vf.Choose("op", 9) {
	case 0:
		blocked = vf.Blocked(func() { _, err = conn.OpenUpstream(ctx, "s2") })
		vf.Assert("open-upstream-closed", !blocked && zzIsClosedErr(err))
	case 1:
		blocked = vf.Blocked(func() { _, err = conn.OpenDownstream(ctx, nil) })
		vf.Assert("open-downstream-closed", !blocked && zzIsClosedErr(err))
	case 2:
		blocked = vf.Blocked(func() { err = conn.SendMetadata(ctx, &message.BaseTime{SessionID: "s", Name: "n"}) })
		vf.Assert("send-metadata-closed", !blocked && zzIsClosedErr(err))
	case 3:
		blocked = vf.Blocked(func() { _, err = conn.SendCall(ctx, &UpstreamCall{DestinationNodeID: "d", Name: "n", Type: "t"}) })
		vf.Assert("send-call-closed", !blocked && zzIsClosedErr(err))
	case 4:
		blocked = vf.Blocked(func() { _, err = conn.SendReplyCall(ctx, &UpstreamReplyCall{RequestCallID: "r", DestinationNodeID: "d"}) })
		vf.Assert("send-reply-closed", !blocked && zzIsClosedErr(err))
	case 5:
		blocked = vf.Blocked(func() { _, err = conn.SendCallAndWaitReplayCall(ctx, &UpstreamCall{DestinationNodeID: "d", Name: "n", Type: "t"}) })
		vf.Assert("call-and-wait-closed", !blocked && zzIsClosedErr(err))
	case 6:
		blocked = vf.Blocked(func() { _, err = conn.ReceiveCall(ctx) })
		vf.Assert("receive-call-closed", !blocked && zzIsClosedErr(err))
	case 7:
		panicked := vf.Panics(func() { err = conn.Close(context.Background()) })
		vf.Assert("second-close-no-panic", !panicked)
	case 8:
		if withStreams {
			werr := up.WriteDataPoints(ctx, &message.DataID{Name: "n", Type: "t"}, &message.DataPoint{Payload: []byte{1}})
			vf.Assert("write-on-closed-conn-stream-closed", werr != nil && errors.Is(werr, errors.ErrStreamClosed) && errors.Is(werr, errors.ErrISCP))
			ferr := up.Flush(ctx)
			vf.Assert("flush-on-closed-conn-stream-closed", ferr != nil && errors.Is(ferr, errors.ErrStreamClosed))
			_, rerr := down.ReadDataPoints(ctx)
			vf.Assert("read-on-closed-conn-stream-closed", rerr != nil && errors.Is(rerr, errors.ErrStreamClosed))
			_, merr := down.ReadMetadata(ctx)
			vf.Assert("readmeta-on-closed-conn-stream-closed", merr != nil && errors.Is(merr, errors.ErrStreamClosed))
		}
	}
	vf.Settle()
	after := tr.msgs()
	vf.Assert("silence-after-disconnect", len(after) == n0)
	vf.Assert("never-reconnects", b.dials == dials)
	vf.Reach("end")
}

func zzCallsOf(t *zzTr) []*message.UpstreamCall {
	var out []*message.UpstreamCall
	for _, m := range t.msgs() {
		if c, ok := m.(*message.UpstreamCall); ok {
			out = append(out, c)
		}
	}
	return out
}

// C16: two concurrent callers; acks, replies, spurious and duplicated messages in any of several orders.
func zzC16Calls() {
	b := zzNewBroker()
	b.handler = func(t *zzTr, m message.Message) bool { return true } // the scenario answers by hand
	conn := zzConnect(b)
	tr := b.last()
	ctx := context.Background()

	var replyA *DownstreamReplyCall
	var errA, errB error
	var idB string
	doneA, doneB := false, false
	pa, pb := vf.U8("payload.a"), vf.U8("payload.b")
	go func() {
		replyA, errA = conn.SendCallAndWaitReplayCall(ctx, &UpstreamCall{DestinationNodeID: "dst", Name: "na", Type: "ta", Payload: []byte{pa}})
		doneA = true
	}()
	vf.Settle()
	go func() {
		idB, errB = conn.SendCall(ctx, &UpstreamCall{DestinationNodeID: "dst", Name: "nb", Type: "tb", Payload: []byte{pb}})
		doneB = true
	}()
	vf.Settle()
	calls := zzCallsOf(tr)
	vf.Assert("both-calls-on-the-wire", len(calls) == 2)
	if len(calls) != 2 {
		return
	}
	ca, cb := calls[0], calls[1]
	vf.Assert("calls-unmodified", ca.Name == "na" && cb.Name == "nb" && len(ca.Payload) == 1 && ca.Payload[0] == pa && len(cb.Payload) == 1 && cb.Payload[0] == pb)
	vf.Assert("fresh-call-ids", ca.CallID != cb.CallID && ca.CallID != "" && cb.CallID != "")
	vf.Assert("still-waiting", !doneA && !doneB)

	negB := vf.Choose("b.ack.negative", 2) == 1
	codeB := message.ResultCodeSucceeded
	if negB {
		codeB = message.ResultCodeUnspecifiedError
	}
	rp := vf.U8("reply.payload")
	ackA := &message.UpstreamCallAck{CallID: ca.CallID, ResultCode: message.ResultCodeSucceeded}
	ackB := &message.UpstreamCallAck{CallID: cb.CallID, ResultCode: codeB, ResultString: "rb"}
	reply := &message.DownstreamCall{CallID: "reply-1", RequestCallID: ca.CallID, SourceNodeID: "dst", Name: "rn", Type: "rt", Payload: []byte{rp}}
	foreign := &message.DownstreamCall{CallID: "reply-x", RequestCallID: "nobody", SourceNodeID: "x", Name: "x", Type: "x"}
	spurious := &message.UpstreamCallAck{CallID: "unknown-call", ResultCode: message.ResultCodeSucceeded}

	switch vf.Choose("order", 5) {
	case 0:
		tr.push(ackA); tr.push(ackB); tr.push(reply)
	case 1:
		tr.push(ackB); tr.push(reply); tr.push(ackA) // reply before its ack
	case 2:
		tr.push(spurious); tr.push(foreign); tr.push(ackB); tr.push(ackA); tr.push(reply)
	case 3:
		tr.push(ackA); tr.push(ackA); tr.push(reply); tr.push(ackB); tr.push(ackB) // duplicated acks
	case 4:
		tr.push(reply); tr.push(foreign); tr.push(ackA); tr.push(spurious); tr.push(ackB)
	}
	vf.Settle()
	vf.Assert("both-returned", doneA && doneB)
	if !(doneA && doneB) {
		return
	}
	vf.Assert("caller-a-gets-its-reply", errA == nil && replyA != nil)
	if replyA != nil {
		vf.Assert("reply-is-for-a", replyA.RequestCallID == ca.CallID && replyA.CallID == "reply-1")
		vf.Assert("reply-unmodified", replyA.SourceNodeID == "dst" && replyA.Name == "rn" && replyA.Type == "rt" && len(replyA.Payload) == 1 && replyA.Payload[0] == rp)
	}
	if negB {
		vf.Assert("negative-ack-is-an-error-for-b-only", errB != nil && idB == "" && errA == nil)
	} else {
		vf.Assert("caller-b-gets-its-call-id", errB == nil && idB == cb.CallID)
	}
	// waiters are gone, locks free
	vf.Assert("ack-table-empty", len(conn.upstreamCallAckCh) == 0)
	vf.Assert("locks-free", vf.RUnlocked(&conn.upstreamCallAckMu) && vf.RUnlocked(&conn.replyCallsChsMu))
	// the reply inbox also holds the reply (once) and the foreign reply, in arrival order
	first, rerr := conn.ReceiveReplyCall(ctx)
	vf.Assert("reply-inbox-delivers", rerr == nil && first != nil)
	conn.Close(ctx)
	vf.Reach("end")
}

// C16.d: incoming calls are handed to ReceiveCall once each, unmodified, in arrival order.
func zzC16Receive() {
	b := zzNewBroker()
	conn := zzConnect(b)
	tr := b.last()
	ctx := context.Background()
	p1, p2 := vf.U8("p1"), vf.U8("p2")
	tr.push(&message.DownstreamCall{CallID: "c1", SourceNodeID: "n1", Name: "a", Type: "b", Payload: []byte{p1}})
	tr.push(&message.DownstreamCall{CallID: "c2", SourceNodeID: "n2", Name: "c", Type: "d", Payload: []byte{p2}})
	vf.Settle()
	g1, e1 := conn.ReceiveCall(ctx)
	g2, e2 := conn.ReceiveCall(ctx)
	vf.Assert("both-received", e1 == nil && e2 == nil && g1 != nil && g2 != nil)
	if g1 != nil && g2 != nil {
		vf.Assert("in-arrival-order-unmodified", g1.CallID == "c1" && g1.SourceNodeID == "n1" && g1.Name == "a" && g1.Type == "b" && len(g1.Payload) == 1 && g1.Payload[0] == p1 &&
			g2.CallID == "c2" && g2.SourceNodeID == "n2" && g2.Name == "c" && g2.Type == "d" && len(g2.Payload) == 1 && g2.Payload[0] == p2)
	}
	cctx, cancel := context.WithCancel(ctx)
	var e3 error
	returned := false
	go func() { _, e3 = conn.ReceiveCall(cctx); returned = true }()
	vf.Settle()
	vf.Assert("no-third-call", !returned)
	cancel()
	vf.Settle()
	vf.Assert("cancelled-receive-returns", returned && e3 != nil)
	conn.Close(ctx)
	vf.Reach("end")
}


// C03.c: metadata of one source node is returned by ReadMetadata in the broker's order, each item
// once — also when several filters of the stream name the same source node — under every
// non-preemptive schedule of the forwarding goroutines.
func zzC03cMetadataOrder() {
	b := zzNewBroker()
	zzServeStreams(b)
	conn := zzConnect(b)
	tr := b.last()
	ctx := context.Background()
	filters := []*message.DownstreamFilter{{SourceNodeID: "node", DataFilters: []*message.DataFilter{{Name: "#", Type: "#"}}}}
	if vf.Choose("two.filters.same.node", 2) == 1 {
		filters = append(filters, &message.DownstreamFilter{SourceNodeID: "node", DataFilters: []*message.DataFilter{{Name: "x", Type: "y"}}})
	}
	down, err := conn.OpenDownstream(ctx, filters)
	vf.Assume(err == nil)
	vf.Settle()
	var alias uint32
	for _, m := range tr.msgs() {
		if r, ok := m.(*message.DownstreamOpenRequest); ok {
			alias = r.DesiredStreamIDAlias
		}
	}
	tr.push(&message.DownstreamMetadata{RequestID: 101, StreamIDAlias: alias, SourceNodeID: "node", Metadata: &message.BaseTime{SessionID: "s", Name: "first"}})
	tr.push(&message.DownstreamMetadata{RequestID: 103, StreamIDAlias: alias, SourceNodeID: "node", Metadata: &message.BaseTime{SessionID: "s", Name: "second"}})
	vf.Settle()
	m1, e1 := down.ReadMetadata(ctx)
	m2, e2 := down.ReadMetadata(ctx)
	vf.Assert("both-metadata-read", e1 == nil && e2 == nil && m1 != nil && m2 != nil)
	if m1 != nil && m2 != nil {
		b1, ok1 := m1.Metadata.(*message.BaseTime)
		b2, ok2 := m2.Metadata.(*message.BaseTime)
		vf.Assert("metadata-unmodified", ok1 && ok2 && m1.SourceNodeID == "node" && m2.SourceNodeID == "node")
		if ok1 && ok2 {
			vf.Assert("metadata-in-broker-order", b1.Name == "first" && b2.Name == "second")
		}
	}
	// each read acknowledged once with the item's request id, in order
	var acks []*message.DownstreamMetadataAck
	for _, m := range tr.msgs() {
		if a, ok := m.(*message.DownstreamMetadataAck); ok {
			acks = append(acks, a)
		}
	}
	vf.Assert("one-ack-per-read-with-its-request-id", len(acks) == 2 && acks[0].RequestID == 101 && acks[1].RequestID == 103)
	third := vf.Blocked(func() { down.ReadMetadata(ctx) })
	vf.Assert("each-item-once", third)
	conn.Close(ctx)
	vf.Reach("end")
}


// C03.c2: the metadata fan-in of one stream (subscribeDownstreamMetadata + the wire dispatcher)
// keeps the broker's order per source node under every non-preemptive schedule of its goroutines.
func zzC03cFanIn() {
	tr := wire.ZZNewFakeTransport()
	wc := wire.ZZNewClientConn(tr, nil)
	c := &Conn{wireConn: wc, logger: log.NewNop(), state: newConnState()}
	alias := vf.U32("alias")
	filters := []*message.DownstreamFilter{{SourceNodeID: "node"}}
	switch vf.Choose("filters", 3) {
	case 1:
		filters = append(filters, &message.DownstreamFilter{SourceNodeID: "node"}) // same node twice
	case 2:
		filters = append(filters, &message.DownstreamFilter{SourceNodeID: "other"})
	}
	resCh, err := c.subscribeDownstreamMetadata(context.Background(), alias, filters)
	vf.Assume(err == nil)
	wire.ZZStartMetadataLoop(wc)
	vf.Settle()
	m1 := &message.DownstreamMetadata{RequestID: 1, StreamIDAlias: alias, SourceNodeID: "node"}
	m2 := &message.DownstreamMetadata{RequestID: 3, StreamIDAlias: alias, SourceNodeID: "node"}
	vf.AllSchedules(true)
	wire.ZZDeliverMetadata(wc, m1)
	wire.ZZDeliverMetadata(wc, m2)
	vf.Settle()
	vf.AllSchedules(false)
	var got []*message.DownstreamMetadata
	for i := 0; i < 3; i++ {
		select {
		case m := <-resCh:
			got = append(got, m)
		default:
		}
	}
	vf.Assert("each-item-once", len(got) == 2)
	if len(got) == 2 {
		vf.Assert("broker-order-per-source-node", got[0] == m1 && got[1] == m2)
	}
	vf.Reach("end")
}

// C10.p: Close with a request in flight: the pending call fails promptly with the closed error, the
// connection stays closed, later calls fail instead of blocking, and nothing is redialled.
func zzC10pPendingAtClose() {
	b := zzNewBroker()
	b.handler = func(t *zzTr, m message.Message) bool { return true } // the broker never answers requests
	conn := zzConnect(b)
	ctx := context.Background()
	var perr error
	done := false
	// (OpenUpstream and SendMetadata keep wireConnMu for the whole exchange; their interplay with
	// Close is the subject of zzC08cCloseBounded)
	go func() {
		_, perr = conn.OpenDownstream(ctx, []*message.DownstreamFilter{{SourceNodeID: "n"}})
		done = true
	}()
	vf.Settle()
	vf.Assert("request-in-flight", !done)
	dials := b.dials
	cerr := conn.Close(ctx)
	vf.Settle()
	vf.Assert("close-ok", cerr == nil)
	vf.Assert("pending-call-fails-with-closed-error", done && zzIsClosedErr(perr))
	vf.Assert("stays-closed", conn.isClosed())
	var lerr error
	blocked := vf.Blocked(func() { lerr = conn.SendMetadata(ctx, &message.BaseTime{SessionID: "s", Name: "n2"}) })
	vf.Assert("later-call-fails-instead-of-blocking", !blocked && zzIsClosedErr(lerr))
	vf.Assert("never-reconnects", b.dials == dials)
	vf.Reach("end")
}


// C08.c: Conn.Close is bounded by its context even while another request is in flight and the
// broker stays silent (but keeps answering pings, so keepalive does not end the connection).
func zzC08cCloseBounded() {
	b := zzNewBroker()
	b.handler = func(t *zzTr, m message.Message) bool { return true }
	conn := zzConnect(b)
	which := vf.Choose("pending", 3)
	vf.Known("KF-C08-conn-close-waits-behind-inflight-request", which != 0)
	pctx, pcancel := context.WithCancel(context.Background())
	defer pcancel()
	go func() {
		switch which {
		case 0:
			conn.OpenDownstream(pctx, []*message.DownstreamFilter{{SourceNodeID: "n"}})
		case 1:
			conn.OpenUpstream(pctx, "session")
		case 2:
			conn.SendMetadata(pctx, &message.BaseTime{SessionID: "s", Name: "n"})
		}
	}()
	vf.Settle()
	cctx, ccancel := context.WithTimeout(context.Background(), 50*time.Millisecond)
	defer ccancel()
	returned := false
	go func() {
		conn.Close(cctx)
		returned = true
	}()
	vf.Settle()
	vf.Advance(60 * time.Millisecond)
	vf.Assert("close-returns-by-its-context-deadline", returned)
	pcancel()
	vf.Settle()
	vf.Assert("close-returns-once-the-request-ends", returned)
	vf.Reach("end")
}

// C16.e: a caller that gives up (its context ends) does not disturb later callers, whatever the
// broker sends for the abandoned call id afterwards (late ack, duplicated late acks, late reply).
func zzC16eAbandonedCall() {
	b := zzNewBroker()
	b.handler = func(t *zzTr, m message.Message) bool { return true }
	conn := zzConnect(b)
	tr := b.last()
	actx, acancel := context.WithCancel(context.Background())
	var errA error
	doneA := false
	waitReply := vf.Choose("a.waits.for.reply", 2) == 1
	go func() {
		if waitReply {
			_, errA = conn.SendCallAndWaitReplayCall(actx, &UpstreamCall{DestinationNodeID: "dst", Name: "na", Type: "ta"})
		} else {
			_, errA = conn.SendCall(actx, &UpstreamCall{DestinationNodeID: "dst", Name: "na", Type: "ta"})
		}
		doneA = true
	}()
	vf.Settle()
	calls := zzCallsOf(tr)
	vf.Assume(len(calls) == 1)
	idA := calls[0].CallID
	acancel()
	vf.Settle()
	vf.Assert("abandoned-caller-returns-an-error", doneA && errA != nil)
	// late traffic for the abandoned id
	for i, n := 0, vf.Choose("late.acks", 4); i < n; i++ {
		tr.push(&message.UpstreamCallAck{CallID: idA, ResultCode: message.ResultCodeSucceeded})
	}
	if vf.Choose("late.reply", 2) == 1 {
		tr.push(&message.DownstreamCall{CallID: "late-reply", RequestCallID: idA, SourceNodeID: "dst"})
		tr.push(&message.DownstreamCall{CallID: "late-reply-2", RequestCallID: idA, SourceNodeID: "dst"})
	}
	vf.Settle()
	// a later caller still gets the ack for its own id
	var idB string
	var errB error
	doneB := false
	go func() {
		idB, errB = conn.SendCall(context.Background(), &UpstreamCall{DestinationNodeID: "dst", Name: "nb", Type: "tb"})
		doneB = true
	}()
	vf.Settle()
	calls = zzCallsOf(tr)
	vf.Assert("later-call-on-the-wire", len(calls) == 2)
	if len(calls) == 2 {
		tr.push(&message.UpstreamCallAck{CallID: calls[1].CallID, ResultCode: message.ResultCodeSucceeded})
		vf.Settle()
		vf.Assert("later-caller-gets-its-own-ack", doneB && errB == nil && idB == calls[1].CallID && idB != idA)
	}
	conn.Close(context.Background())
	vf.Reach("end")
}

func zzUpstreamChunksOf(t *zzTr) []*message.UpstreamChunk {
	var out []*message.UpstreamChunk
	for _, m := range t.msgs() {
		if c, ok := m.(*message.UpstreamChunk); ok {
			out = append(out, c)
		}
	}
	return out
}

// C20.d: Flush is a barrier, on a stream obtained from the real OpenUpstream: after a Flush whose
// context was already cancelled (whatever way it ended), a later Flush that returns nil has cut every
// point accepted before it, the visible buffer is empty and the totals match.
func zzC20dFlushBarrier() {
	b := zzNewBroker()
	zzServeStreams(b)
	conn := zzConnect(b)
	tr := b.last()
	ctx := context.Background()
	up, err := conn.OpenUpstream(ctx, "session", WithUpstreamFlushPolicyNone(), WithUpstreamQoS(message.QoSReliable))
	vf.Assume(err == nil)
	vf.Settle()
	id := &message.DataID{Name: "n", Type: "t"}
	p1 := vf.U8("p1")
	vf.Assert("write-1", up.WriteDataPoints(ctx, id, &message.DataPoint{Payload: []byte{p1}}) == nil)
	vf.Settle()
	// a Flush that gives up: cancelled before, or while, the flush loop serves it
	cancelled, cancel := context.WithCancel(ctx)
	cancel()
	rounds := 1 + vf.Choose("cancelled.flushes", 2)
	for i := 0; i < rounds; i++ {
		up.Flush(cancelled)
		vf.Settle()
	}
	p2 := vf.U8("p2")
	vf.Assert("write-2", up.WriteDataPoints(ctx, id, &message.DataPoint{Payload: []byte{p2}}, &message.DataPoint{}) == nil)
	vf.Settle()
	ferr := up.Flush(ctx)
	if ferr == nil {
		st := up.State()
		vf.Assert("flush-nil-means-buffer-empty", len(st.DataPointsBuffer) == 0)
		vf.Assert("flush-nil-means-all-accepted-points-cut", st.TotalDataPoints == 3)
		vf.Settle()
		n := 0
		for _, c := range zzUpstreamChunksOf(tr) {
			vf.Assert("chunk-number-at-most-last-issued", c.StreamChunk.SequenceNumber <= st.LastIssuedSequenceNumber)
			vf.Assert("no-empty-chunk", len(c.StreamChunk.DataPointGroups) > 0)
			for _, g := range c.StreamChunk.DataPointGroups {
				n += len(g.DataPoints)
			}
		}
		vf.Assert("all-points-on-the-wire", n == 3)
		vf.Reach("flushed")
	}
	conn.Close(ctx)
	vf.Reach("end")
}
