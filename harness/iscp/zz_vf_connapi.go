package iscp

import (
	"context"
	"time"

	"github.com/aptpod/iscp-go/errors"
	"github.com/aptpod/iscp-go/internal/vf"
	"github.com/aptpod/iscp-go/message"
	uuid "github.com/google/uuid"
)

var zzStreamID1 = uuid.UUID{1, 1, 1, 1, 1, 1, 1, 1, 1, 1, 1, 1, 1, 1, 1, 1}
var zzStreamID2 = uuid.UUID{2, 2, 2, 2, 2, 2, 2, 2, 2, 2, 2, 2, 2, 2, 2, 2}

// zzServeStreams is the default well-behaved broker for stream and call requests.
func zzServeStreams(b *zzBroker) {
	nextAlias := uint32(0)
	calls := 0
	b.handler = func(t *zzTr, m message.Message) bool {
		switch r := m.(type) {
		case *message.UpstreamOpenRequest:
			nextAlias++
			t.in <- zzEncode(&message.UpstreamOpenResponse{RequestID: r.RequestID, AssignedStreamID: zzStreamID1, AssignedStreamIDAlias: nextAlias, ResultCode: message.ResultCodeSucceeded, DataIDAliases: map[uint32]*message.DataID{}})
		case *message.UpstreamResumeRequest:
			nextAlias++
			t.in <- zzEncode(&message.UpstreamResumeResponse{RequestID: r.RequestID, AssignedStreamIDAlias: nextAlias, ResultCode: message.ResultCodeSucceeded})
		case *message.UpstreamCloseRequest:
			t.in <- zzEncode(&message.UpstreamCloseResponse{RequestID: r.RequestID, ResultCode: message.ResultCodeSucceeded})
		case *message.DownstreamOpenRequest:
			t.in <- zzEncode(&message.DownstreamOpenResponse{RequestID: r.RequestID, AssignedStreamID: zzStreamID2, ResultCode: message.ResultCodeSucceeded})
		case *message.DownstreamResumeRequest:
			t.in <- zzEncode(&message.DownstreamResumeResponse{RequestID: r.RequestID, ResultCode: message.ResultCodeSucceeded})
		case *message.DownstreamCloseRequest:
			t.in <- zzEncode(&message.DownstreamCloseResponse{RequestID: r.RequestID, ResultCode: message.ResultCodeSucceeded})
		case *message.UpstreamMetadata:
			t.in <- zzEncode(&message.UpstreamMetadataAck{RequestID: r.RequestID, ResultCode: message.ResultCodeSucceeded})
		case *message.UpstreamCall:
			calls++
			t.in <- zzEncode(&message.UpstreamCallAck{CallID: r.CallID, ResultCode: message.ResultCodeSucceeded})
		default:
			return false
		}
		return true
	}
}

func zzConnect(b *zzBroker) *Conn {
	n := 0
	randomString = func() string {
		n++
		return "call-" + string(rune('a'+n))
	}
	conn, err := ConnectWithConfig(b.config())
	vf.Assume(err == nil)
	vf.Settle()
	return conn
}

func zzIsClosedErr(err error) bool {
	return err != nil && errors.Is(err, errors.ErrConnectionClosed) && errors.Is(err, errors.ErrISCP)
}

// C10.a: after Conn.Close every API call fails promptly with the documented error and nothing more
// is written to the wire.
func zzC10aConnGuards() {
	b := zzNewBroker()
	zzServeStreams(b)
	conn := zzConnect(b)
	tr := b.last()
	withStreams := vf.Choose("streams.open", 2) == 1
	var up *Upstream
	var down *Downstream
	if withStreams {
		var err error
		up, err = conn.OpenUpstream(context.Background(), "session")
		vf.Assume(err == nil)
		down, err = conn.OpenDownstream(context.Background(), []*message.DownstreamFilter{{SourceNodeID: "node", DataFilters: []*message.DataFilter{{Name: "#", Type: "#"}}}})
		vf.Assume(err == nil)
		vf.Settle()
	}
	cerr := conn.Close(context.Background())
	vf.Settle()
	vf.Assert("close-ok", cerr == nil)
	msgs := tr.msgs()
	nDisc := 0
	for _, m := range msgs {
		if _, ok := m.(*message.Disconnect); ok {
			nDisc++
		}
	}
	vf.Assert("one-disconnect", nDisc == 1)
	if nDisc == 1 {
		_, last := msgs[len(msgs)-1].(*message.Disconnect)
		vf.Assert("disconnect-is-last-on-the-wire", last)
	}
	vf.Assert("transport-closed", tr.closeCount >= 1)
	dials := b.dials
	n0 := len(msgs)

	ctx, cancel := context.WithTimeout(context.Background(), 200*time.Millisecond)
	defer cancel()
	var err error
	blocked := false
	switch vf.Choose("op", 9) {
	case 0:
		blocked = vf.Blocked(func() { _, err = conn.OpenUpstream(ctx, "s2") })
		vf.Assert("open-upstream-closed", !blocked && zzIsClosedErr(err))
	case 1:
		blocked = vf.Blocked(func() { _, err = conn.OpenDownstream(ctx, nil) })
		vf.Assert("open-downstream-closed", !blocked && zzIsClosedErr(err))
	case 2:
		blocked = vf.Blocked(func() { err = conn.SendMetadata(ctx, &message.BaseTime{SessionID: "s", Name: "n"}) })
		vf.Assert("send-metadata-closed", !blocked && zzIsClosedErr(err))
	case 3:
		blocked = vf.Blocked(func() { _, err = conn.SendCall(ctx, &UpstreamCall{DestinationNodeID: "d", Name: "n", Type: "t"}) })
		vf.Assert("send-call-closed", !blocked && zzIsClosedErr(err))
	case 4:
		blocked = vf.Blocked(func() { _, err = conn.SendReplyCall(ctx, &UpstreamReplyCall{RequestCallID: "r", DestinationNodeID: "d"}) })
		vf.Assert("send-reply-closed", !blocked && zzIsClosedErr(err))
	case 5:
		blocked = vf.Blocked(func() { _, err = conn.SendCallAndWaitReplayCall(ctx, &UpstreamCall{DestinationNodeID: "d", Name: "n", Type: "t"}) })
		vf.Assert("call-and-wait-closed", !blocked && zzIsClosedErr(err))
	case 6:
		blocked = vf.Blocked(func() { _, err = conn.ReceiveCall(ctx) })
		vf.Assert("receive-call-closed", !blocked && zzIsClosedErr(err))
	case 7:
		panicked := vf.Panics(func() { err = conn.Close(context.Background()) })
		vf.Assert("second-close-no-panic", !panicked)
	case 8:
		if withStreams {
			werr := up.WriteDataPoints(ctx, &message.DataID{Name: "n", Type: "t"}, &message.DataPoint{Payload: []byte{1}})
			vf.Assert("write-on-closed-conn-stream-closed", werr != nil && errors.Is(werr, errors.ErrStreamClosed) && errors.Is(werr, errors.ErrISCP))
			ferr := up.Flush(ctx)
			vf.Assert("flush-on-closed-conn-stream-closed", ferr != nil && errors.Is(ferr, errors.ErrStreamClosed))
			_, rerr := down.ReadDataPoints(ctx)
			vf.Assert("read-on-closed-conn-stream-closed", rerr != nil && errors.Is(rerr, errors.ErrStreamClosed))
			_, merr := down.ReadMetadata(ctx)
			vf.Assert("readmeta-on-closed-conn-stream-closed", merr != nil && errors.Is(merr, errors.ErrStreamClosed))
		}
	}
	vf.Settle()
	after := tr.msgs()
	vf.Assert("silence-after-disconnect", len(after) == n0)
	vf.Assert("never-reconnects", b.dials == dials)
	vf.Reach("end")
}
