package iscp

import (
	"context"
	"fmt"
	"sync"
	"time"

	"github.com/aptpod/iscp-go/log"
	"github.com/aptpod/iscp-go/wire"

	"github.com/aptpod/iscp-go/errors"
	"github.com/aptpod/iscp-go/internal/vf"
	"github.com/aptpod/iscp-go/message"
	uuid "github.com/google/uuid"
)

var zzStreamID1 = uuid.UUID{1, 1, 1, 1, 1, 1, 1, 1, 1, 1, 1, 1, 1, 1, 1, 1}
var zzStreamID2 = uuid.UUID{2, 2, 2, 2, 2, 2, 2, 2, 2, 2, 2, 2, 2, 2, 2, 2}

// zzServeStreams is the default well-behaved broker for stream and call requests.
func zzServeStreams(b *zzBroker) {
	nextAlias := uint32(0)
	calls := 0
	b.handler = func(t *zzTr, m message.Message) bool {
		switch r := m.(type) {
		case *message.UpstreamOpenRequest:
			nextAlias++
			t.in <- zzEncode(&message.UpstreamOpenResponse{RequestID: r.RequestID, AssignedStreamID: zzStreamID1, AssignedStreamIDAlias: nextAlias, ResultCode: message.ResultCodeSucceeded, DataIDAliases: map[uint32]*message.DataID{}})
		case *message.UpstreamResumeRequest:
			nextAlias++
			t.in <- zzEncode(&message.UpstreamResumeResponse{RequestID: r.RequestID, AssignedStreamIDAlias: nextAlias, ResultCode: message.ResultCodeSucceeded})
		case *message.UpstreamCloseRequest:
			t.in <- zzEncode(&message.UpstreamCloseResponse{RequestID: r.RequestID, ResultCode: message.ResultCodeSucceeded})
		case *message.DownstreamOpenRequest:
			t.in <- zzEncode(&message.DownstreamOpenResponse{RequestID: r.RequestID, AssignedStreamID: zzStreamID2, ResultCode: message.ResultCodeSucceeded})
		case *message.DownstreamResumeRequest:
			t.in <- zzEncode(&message.DownstreamResumeResponse{RequestID: r.RequestID, ResultCode: message.ResultCodeSucceeded})
		case *message.DownstreamCloseRequest:
			t.in <- zzEncode(&message.DownstreamCloseResponse{RequestID: r.RequestID, ResultCode: message.ResultCodeSucceeded})
		case *message.UpstreamMetadata:
			t.in <- zzEncode(&message.UpstreamMetadataAck{RequestID: r.RequestID, ResultCode: message.ResultCodeSucceeded})
		case *message.UpstreamCall:
			calls++
			t.in <- zzEncode(&message.UpstreamCallAck{CallID: r.CallID, ResultCode: message.ResultCodeSucceeded})
		default:
			return false
		}
		return true
	}
}

// zzDeviations > 0 switches on delay-bounded schedule exploration for the whole-API scenarios
// (thorough tier): all schedules that deviate at most that many times from the canonical one.
var zzDeviations = 0

func zzC04eLifeDev2()         { zzDeviations = 2; zzC04eDownstreamLife() }
func zzC20dBarrierDev2()      { zzDeviations = 2; zzC20dFlushBarrier() }
func zzC05eOutageDev1()       { zzDeviations = 1; zzC05eOutage() }
func zzC05fRefusedDev1()      { zzDeviations = 1; zzC05fResumeRefused() }
func zzC01eEndToEndDev1()     { zzDeviations = 1; zzC01eEndToEnd() }
func zzC04eLifeDev1()         { zzDeviations = 1; zzC04eDownstreamLife() }
func zzC10gCensusDev1()       { zzDeviations = 1; zzC10gNoGoroutineLeft() }
func zzC16CallsDev1()         { zzDeviations = 1; zzC16Calls() }
func zzC07dTwoUpstreamsDev1() { zzDeviations = 1; zzC07dTwoUpstreams() }
func zzC20dBarrierDev1()      { zzDeviations = 1; zzC20dFlushBarrier() }

func zzConnect(b *zzBroker) *Conn {
	n := 0
	randomString = func() string {
		n++
		return "call-" + string(rune('a'+n))
	}
	conn, err := ConnectWithConfig(b.config())
	vf.Assume(err == nil)
	vf.Settle()
	vf.Deviations(zzDeviations)
	return conn
}

func zzIsClosedErr(err error) bool {
	return err != nil && errors.Is(err, errors.ErrConnectionClosed) && errors.Is(err, errors.ErrISCP)
}

// C10.a: after Conn.Close every API call fails promptly with the documented error and nothing more
// is written to the wire.
func zzC10aConnGuards() {
	b := zzNewBroker()
	zzServeStreams(b)
	conn := zzConnect(b)
	tr := b.last()
	withStreams := vf.Choose("streams.open", 2) == 1
	var up *Upstream
	var down *Downstream
	if withStreams {
		var err error
		up, err = conn.OpenUpstream(context.Background(), "session")
		vf.Assume(err == nil)
		down, err = conn.OpenDownstream(context.Background(), []*message.DownstreamFilter{{SourceNodeID: "node", DataFilters: []*message.DataFilter{{Name: "#", Type: "#"}}}})
		vf.Assume(err == nil)
		vf.Settle()
	}
	cerr := conn.Close(context.Background())
	vf.Settle()
	vf.Assert("close-ok", cerr == nil)
	msgs := tr.msgs()
	nDisc := 0
	for _, m := range msgs {
		if _, ok := m.(*message.Disconnect); ok {
			nDisc++
		}
	}
	vf.Assert("one-disconnect", nDisc == 1)
	if nDisc == 1 {
		_, last := msgs[len(msgs)-1].(*message.Disconnect)
		vf.Assert("disconnect-is-last-on-the-wire", last)
	}
	vf.Assert("transport-closed", tr.closeCount >= 1)
	dials := b.dials
	n0 := len(msgs)

	ctx, cancel := context.WithTimeout(context.Background(), 200*time.Millisecond)
	defer cancel()
	var err error
	blocked := false
	switch vf.Choose("op", 9) {
	case 0:
		blocked = vf.Blocked(func() { _, err = conn.OpenUpstream(ctx, "s2") })
		vf.Assert("open-upstream-closed", !blocked && zzIsClosedErr(err))
	case 1:
		blocked = vf.Blocked(func() { _, err = conn.OpenDownstream(ctx, nil) })
		vf.Assert("open-downstream-closed", !blocked && zzIsClosedErr(err))
	case 2:
		blocked = vf.Blocked(func() { err = conn.SendMetadata(ctx, &message.BaseTime{SessionID: "s", Name: "n"}) })
		vf.Assert("send-metadata-closed", !blocked && zzIsClosedErr(err))
	case 3:
		blocked = vf.Blocked(func() { _, err = conn.SendCall(ctx, &UpstreamCall{DestinationNodeID: "d", Name: "n", Type: "t"}) })
		vf.Assert("send-call-closed", !blocked && zzIsClosedErr(err))
	case 4:
		blocked = vf.Blocked(func() { _, err = conn.SendReplyCall(ctx, &UpstreamReplyCall{RequestCallID: "r", DestinationNodeID: "d"}) })
		vf.Assert("send-reply-closed", !blocked && zzIsClosedErr(err))
	case 5:
		blocked = vf.Blocked(func() { _, err = conn.SendCallAndWaitReplayCall(ctx, &UpstreamCall{DestinationNodeID: "d", Name: "n", Type: "t"}) })
		vf.Assert("call-and-wait-closed", !blocked && zzIsClosedErr(err))
	case 6:
		blocked = vf.Blocked(func() { _, err = conn.ReceiveCall(ctx) })
		vf.Assert("receive-call-closed", !blocked && zzIsClosedErr(err))
	case 7:
		panicked := vf.Panics(func() { err = conn.Close(context.Background()) })
		vf.Assert("second-close-no-panic", !panicked)
	case 8:
		if withStreams {
			werr := up.WriteDataPoints(ctx, &message.DataID{Name: "n", Type: "t"}, &message.DataPoint{Payload: []byte{1}})
			vf.Assert("write-on-closed-conn-stream-closed", werr != nil && errors.Is(werr, errors.ErrStreamClosed) && errors.Is(werr, errors.ErrISCP))
			ferr := up.Flush(ctx)
			vf.Assert("flush-on-closed-conn-stream-closed", ferr != nil && errors.Is(ferr, errors.ErrStreamClosed))
			_, rerr := down.ReadDataPoints(ctx)
			vf.Assert("read-on-closed-conn-stream-closed", rerr != nil && errors.Is(rerr, errors.ErrStreamClosed))
			_, merr := down.ReadMetadata(ctx)
			vf.Assert("readmeta-on-closed-conn-stream-closed", merr != nil && errors.Is(merr, errors.ErrStreamClosed))
		}
	}
	vf.Settle()
	after := tr.msgs()
	vf.Assert("silence-after-disconnect", len(after) == n0)
	vf.Assert("never-reconnects", b.dials == dials)
	vf.Reach("end")
}

func zzCallsOf(t *zzTr) []*message.UpstreamCall {
	var out []*message.UpstreamCall
	for _, m := range t.msgs() {
		if c, ok := m.(*message.UpstreamCall); ok {
			out = append(out, c)
		}
	}
	return out
}

// C16: two concurrent callers; acks, replies, spurious and duplicated messages in any of several orders.
func zzC16Calls() {
	b := zzNewBroker()
	b.handler = func(t *zzTr, m message.Message) bool { return true } // the scenario answers by hand
	conn := zzConnect(b)
	tr := b.last()
	ctx := context.Background()

	var replyA *DownstreamReplyCall
	var errA, errB error
	var idB string
	doneA, doneB := false, false
	pa, pb := vf.U8("payload.a"), vf.U8("payload.b")
	go func() {
		replyA, errA = conn.SendCallAndWaitReplayCall(ctx, &UpstreamCall{DestinationNodeID: "dst", Name: "na", Type: "ta", Payload: []byte{pa}})
		doneA = true
	}()
	vf.Settle()
	go func() {
		idB, errB = conn.SendCall(ctx, &UpstreamCall{DestinationNodeID: "dst", Name: "nb", Type: "tb", Payload: []byte{pb}})
		doneB = true
	}()
	vf.Settle()
	calls := zzCallsOf(tr)
	vf.Assert("both-calls-on-the-wire", len(calls) == 2)
	if len(calls) != 2 {
		return
	}
	ca, cb := calls[0], calls[1]
	vf.Assert("calls-unmodified", ca.Name == "na" && cb.Name == "nb" && len(ca.Payload) == 1 && ca.Payload[0] == pa && len(cb.Payload) == 1 && cb.Payload[0] == pb)
	vf.Assert("fresh-call-ids", ca.CallID != cb.CallID && ca.CallID != "" && cb.CallID != "")
	vf.Assert("still-waiting", !doneA && !doneB)

	negB := vf.Choose("b.ack.negative", 2) == 1
	codeB := message.ResultCodeSucceeded
	if negB {
		codeB = message.ResultCodeUnspecifiedError
	}
	rp := vf.U8("reply.payload")
	ackA := &message.UpstreamCallAck{CallID: ca.CallID, ResultCode: message.ResultCodeSucceeded}
	ackB := &message.UpstreamCallAck{CallID: cb.CallID, ResultCode: codeB, ResultString: "rb"}
	reply := &message.DownstreamCall{CallID: "reply-1", RequestCallID: ca.CallID, SourceNodeID: "dst", Name: "rn", Type: "rt", Payload: []byte{rp}}
	foreign := &message.DownstreamCall{CallID: "reply-x", RequestCallID: "nobody", SourceNodeID: "x", Name: "x", Type: "x"}
	spurious := &message.UpstreamCallAck{CallID: "unknown-call", ResultCode: message.ResultCodeSucceeded}

	switch vf.Choose("order", 5) {
	case 0:
		tr.push(ackA); tr.push(ackB); tr.push(reply)
	case 1:
		tr.push(ackB); tr.push(reply); tr.push(ackA) // reply before its ack
	case 2:
		tr.push(spurious); tr.push(foreign); tr.push(ackB); tr.push(ackA); tr.push(reply)
	case 3:
		tr.push(ackA); tr.push(ackA); tr.push(reply); tr.push(ackB); tr.push(ackB) // duplicated acks
	case 4:
		tr.push(reply); tr.push(foreign); tr.push(ackA); tr.push(spurious); tr.push(ackB)
	}
	vf.Settle()
	vf.Assert("both-returned", doneA && doneB)
	if !(doneA && doneB) {
		return
	}
	vf.Assert("caller-a-gets-its-reply", errA == nil && replyA != nil)
	if replyA != nil {
		vf.Assert("reply-is-for-a", replyA.RequestCallID == ca.CallID && replyA.CallID == "reply-1")
		vf.Assert("reply-unmodified", replyA.SourceNodeID == "dst" && replyA.Name == "rn" && replyA.Type == "rt" && len(replyA.Payload) == 1 && replyA.Payload[0] == rp)
	}
	if negB {
		vf.Assert("negative-ack-is-an-error-for-b-only", errB != nil && idB == "" && errA == nil)
	} else {
		vf.Assert("caller-b-gets-its-call-id", errB == nil && idB == cb.CallID)
	}
	// waiters are gone, locks free
	vf.Assert("ack-table-empty", len(conn.upstreamCallAckCh) == 0)
	vf.Assert("locks-free", vf.RUnlocked(&conn.upstreamCallAckMu) && vf.RUnlocked(&conn.replyCallsChsMu))
	// the reply inbox also holds the reply (once) and the foreign reply, in arrival order
	first, rerr := conn.ReceiveReplyCall(ctx)
	vf.Assert("reply-inbox-delivers", rerr == nil && first != nil)
	conn.Close(ctx)
	vf.Reach("end")
}

// C16.f: a caller waiting in SendCallAndWaitReplayCall gets its reply also when the shared reply
// inbox (ReceiveReplyCall's queue) is full because nobody drains it; the inbox keeps its oldest
// entries in order.
func zzC16fInboxFull() {
	b := zzNewBroker()
	b.handler = func(t *zzTr, m message.Message) bool { return true }
	conn := zzConnect(b)
	tr := b.last()
	ctx := context.Background()
	// state construction: the inbox is full of replies nobody has collected
	n := cap(conn.replyCallCh)
	for i := 0; i < n; i++ {
		conn.replyCallCh <- &message.DownstreamCall{CallID: "old", RequestCallID: "nobody"}
	}
	var reply *DownstreamReplyCall
	var err error
	done := false
	go func() {
		reply, err = conn.SendCallAndWaitReplayCall(ctx, &UpstreamCall{DestinationNodeID: "dst", Name: "n", Type: "t"})
		done = true
	}()
	vf.Settle()
	calls := zzCallsOf(tr)
	vf.Assume(len(calls) == 1)
	rp := vf.U8("reply.payload")
	if vf.Choose("reply.before.ack", 2) == 1 {
		tr.push(&message.DownstreamCall{CallID: "r1", RequestCallID: calls[0].CallID, SourceNodeID: "dst", Name: "rn", Type: "rt", Payload: []byte{rp}})
		tr.push(&message.UpstreamCallAck{CallID: calls[0].CallID, ResultCode: message.ResultCodeSucceeded})
	} else {
		tr.push(&message.UpstreamCallAck{CallID: calls[0].CallID, ResultCode: message.ResultCodeSucceeded})
		tr.push(&message.DownstreamCall{CallID: "r1", RequestCallID: calls[0].CallID, SourceNodeID: "dst", Name: "rn", Type: "rt", Payload: []byte{rp}})
	}
	vf.Settle()
	vf.Assert("waiter-gets-reply-with-full-inbox", done && err == nil && reply != nil)
	if reply != nil {
		vf.Assert("reply-unmodified", reply.CallID == "r1" && reply.RequestCallID == calls[0].CallID && len(reply.Payload) == 1 && reply.Payload[0] == rp)
	}
	vf.Assert("waiter-table-empty", len(conn.replyCallChs) == 0 && vf.Unlocked(&conn.replyCallsChsMu))
	first, rerr := conn.ReceiveReplyCall(ctx)
	vf.Assert("inbox-keeps-oldest", rerr == nil && first != nil && first.CallID == "old")
	// the connection still serves calls afterwards
	tr.push(&message.DownstreamCall{CallID: "c9", SourceNodeID: "n9", Name: "a", Type: "b"})
	vf.Settle()
	g, gerr := conn.ReceiveCall(ctx)
	vf.Assert("still-serving", gerr == nil && g != nil && g.CallID == "c9")
	conn.Close(ctx)
	vf.Reach("end")
}

// C16.d: incoming calls are handed to ReceiveCall once each, unmodified, in arrival order.
func zzC16Receive() {
	b := zzNewBroker()
	conn := zzConnect(b)
	tr := b.last()
	ctx := context.Background()
	p1, p2 := vf.U8("p1"), vf.U8("p2")
	tr.push(&message.DownstreamCall{CallID: "c1", SourceNodeID: "n1", Name: "a", Type: "b", Payload: []byte{p1}})
	tr.push(&message.DownstreamCall{CallID: "c2", SourceNodeID: "n2", Name: "c", Type: "d", Payload: []byte{p2}})
	vf.Settle()
	g1, e1 := conn.ReceiveCall(ctx)
	g2, e2 := conn.ReceiveCall(ctx)
	vf.Assert("both-received", e1 == nil && e2 == nil && g1 != nil && g2 != nil)
	if g1 != nil && g2 != nil {
		vf.Assert("in-arrival-order-unmodified", g1.CallID == "c1" && g1.SourceNodeID == "n1" && g1.Name == "a" && g1.Type == "b" && len(g1.Payload) == 1 && g1.Payload[0] == p1 &&
			g2.CallID == "c2" && g2.SourceNodeID == "n2" && g2.Name == "c" && g2.Type == "d" && len(g2.Payload) == 1 && g2.Payload[0] == p2)
	}
	cctx, cancel := context.WithCancel(ctx)
	var e3 error
	returned := false
	go func() { _, e3 = conn.ReceiveCall(cctx); returned = true }()
	vf.Settle()
	vf.Assert("no-third-call", !returned)
	cancel()
	vf.Settle()
	vf.Assert("cancelled-receive-returns", returned && e3 != nil)
	conn.Close(ctx)
	vf.Reach("end")
}


// C03.c: metadata of one source node is returned by ReadMetadata in the broker's order, each item
// once — also when several filters of the stream name the same source node — under every
// non-preemptive schedule of the forwarding goroutines.
func zzC03cMetadataOrder() {
	b := zzNewBroker()
	zzServeStreams(b)
	conn := zzConnect(b)
	tr := b.last()
	ctx := context.Background()
	filters := []*message.DownstreamFilter{{SourceNodeID: "node", DataFilters: []*message.DataFilter{{Name: "#", Type: "#"}}}}
	if vf.Choose("two.filters.same.node", 2) == 1 {
		filters = append(filters, &message.DownstreamFilter{SourceNodeID: "node", DataFilters: []*message.DataFilter{{Name: "x", Type: "y"}}})
	}
	// the context of the open call ends once the call has returned (a helper with `defer cancel()`):
	// the stream must not depend on it
	octx, ocancel := context.WithCancel(ctx)
	down, err := conn.OpenDownstream(octx, filters)
	vf.Assume(err == nil)
	if vf.Choose("open.context.cancelled.afterwards", 2) == 1 {
		ocancel()
	}
	defer ocancel()
	vf.Settle()
	var alias uint32
	for _, m := range tr.msgs() {
		if r, ok := m.(*message.DownstreamOpenRequest); ok {
			alias = r.DesiredStreamIDAlias
		}
	}
	tr.push(&message.DownstreamMetadata{RequestID: 101, StreamIDAlias: alias, SourceNodeID: "node", Metadata: &message.BaseTime{SessionID: "s", Name: "first"}})
	tr.push(&message.DownstreamMetadata{RequestID: 103, StreamIDAlias: alias, SourceNodeID: "node", Metadata: &message.BaseTime{SessionID: "s", Name: "second"}})
	vf.Settle()
	m1, e1 := down.ReadMetadata(ctx)
	m2, e2 := down.ReadMetadata(ctx)
	vf.Assert("both-metadata-read", e1 == nil && e2 == nil && m1 != nil && m2 != nil)
	if m1 != nil && m2 != nil {
		b1, ok1 := m1.Metadata.(*message.BaseTime)
		b2, ok2 := m2.Metadata.(*message.BaseTime)
		vf.Assert("metadata-unmodified", ok1 && ok2 && m1.SourceNodeID == "node" && m2.SourceNodeID == "node")
		if ok1 && ok2 {
			vf.Assert("metadata-in-broker-order", b1.Name == "first" && b2.Name == "second")
		}
	}
	// each read acknowledged once with the item's request id, in order
	var acks []*message.DownstreamMetadataAck
	for _, m := range tr.msgs() {
		if a, ok := m.(*message.DownstreamMetadataAck); ok {
			acks = append(acks, a)
		}
	}
	vf.Assert("one-ack-per-read-with-its-request-id", len(acks) == 2 && acks[0].RequestID == 101 && acks[1].RequestID == 103)
	third := vf.Blocked(func() { down.ReadMetadata(ctx) })
	vf.Assert("each-item-once", third)
	conn.Close(ctx)
	vf.Reach("end")
}


// C03.c2: the metadata fan-in of one stream (subscribeDownstreamMetadata + the wire dispatcher)
// keeps the broker's order per source node under every non-preemptive schedule of its goroutines.
func zzC03cFanIn() {
	tr := wire.ZZNewFakeTransport()
	wc := wire.ZZNewClientConn(tr, nil)
	c := &Conn{wireConn: wc, logger: log.NewNop(), state: newConnState()}
	alias := vf.U32("alias")
	filters := []*message.DownstreamFilter{{SourceNodeID: "node"}}
	switch vf.Choose("filters", 3) {
	case 1:
		filters = append(filters, &message.DownstreamFilter{SourceNodeID: "node"}) // same node twice
	case 2:
		filters = append(filters, &message.DownstreamFilter{SourceNodeID: "other"})
	}
	resCh, err := c.subscribeDownstreamMetadata(context.Background(), alias, filters)
	vf.Assume(err == nil)
	wire.ZZStartMetadataLoop(wc)
	vf.Settle()
	m1 := &message.DownstreamMetadata{RequestID: 1, StreamIDAlias: alias, SourceNodeID: "node"}
	m2 := &message.DownstreamMetadata{RequestID: 3, StreamIDAlias: alias, SourceNodeID: "node"}
	vf.AllSchedules(true)
	wire.ZZDeliverMetadata(wc, m1)
	wire.ZZDeliverMetadata(wc, m2)
	vf.Settle()
	vf.AllSchedules(false)
	var got []*message.DownstreamMetadata
	for i := 0; i < 3; i++ {
		select {
		case m := <-resCh:
			got = append(got, m)
		default:
		}
	}
	vf.Assert("each-item-once", len(got) == 2)
	if len(got) == 2 {
		vf.Assert("broker-order-per-source-node", got[0] == m1 && got[1] == m2)
	}
	vf.Reach("end")
}

// C10.p: Close with a request in flight: the pending call fails promptly with the closed error, the
// connection stays closed, later calls fail instead of blocking, and nothing is redialled.
func zzC10pPendingAtClose() {
	b := zzNewBroker()
	b.handler = func(t *zzTr, m message.Message) bool { return true } // the broker never answers requests
	conn := zzConnect(b)
	ctx := context.Background()
	var perr error
	done := false
	which := vf.Choose("pending", 4)
	go func() {
		switch which {
		case 0:
			_, perr = conn.OpenDownstream(ctx, []*message.DownstreamFilter{{SourceNodeID: "n"}})
		case 1:
			_, perr = conn.OpenUpstream(ctx, "session")
		case 2:
			perr = conn.SendMetadata(ctx, &message.BaseTime{SessionID: "s", Name: "n"})
		case 3:
			_, perr = conn.SendCall(ctx, &UpstreamCall{DestinationNodeID: "d", Name: "n", Type: "t"})
		}
		done = true
	}()
	vf.Settle()
	vf.Assert("request-in-flight", !done)
	dials := b.dials
	cerr := conn.Close(ctx)
	vf.Settle()
	vf.Assert("close-ok", cerr == nil)
	vf.Assert("pending-call-fails-with-closed-error", done && zzIsClosedErr(perr))
	vf.Assert("stays-closed", conn.isClosed())
	var lerr error
	blocked := vf.Blocked(func() { lerr = conn.SendMetadata(ctx, &message.BaseTime{SessionID: "s", Name: "n2"}) })
	vf.Assert("later-call-fails-instead-of-blocking", !blocked && zzIsClosedErr(lerr))
	vf.Assert("never-reconnects", b.dials == dials)
	vf.Reach("end")
}


// C08.c: Conn.Close is bounded by its context even while another request is in flight and the
// broker stays silent (but keeps answering pings, so keepalive does not end the connection).
func zzC08cCloseBounded() {
	b := zzNewBroker()
	b.handler = func(t *zzTr, m message.Message) bool { return true }
	conn := zzConnect(b)
	which := vf.Choose("pending", 3)
	pctx, pcancel := context.WithCancel(context.Background())
	defer pcancel()
	go func() {
		switch which {
		case 0:
			conn.OpenDownstream(pctx, []*message.DownstreamFilter{{SourceNodeID: "n"}})
		case 1:
			conn.OpenUpstream(pctx, "session")
		case 2:
			conn.SendMetadata(pctx, &message.BaseTime{SessionID: "s", Name: "n"})
		}
	}()
	vf.Settle()
	cctx, ccancel := context.WithTimeout(context.Background(), 50*time.Millisecond)
	defer ccancel()
	returned := false
	go func() {
		conn.Close(cctx)
		returned = true
	}()
	vf.Settle()
	vf.Advance(60 * time.Millisecond)
	vf.Assert("close-returns-by-its-context-deadline", returned)
	pcancel()
	vf.Settle()
	vf.Assert("close-returns-once-the-request-ends", returned)
	vf.Reach("end")
}

// C16.e: a caller that gives up (its context ends) does not disturb later callers, whatever the
// broker sends for the abandoned call id afterwards (late ack, duplicated late acks, late reply).
func zzC16eAbandonedCall() {
	b := zzNewBroker()
	b.handler = func(t *zzTr, m message.Message) bool { return true }
	conn := zzConnect(b)
	tr := b.last()
	actx, acancel := context.WithCancel(context.Background())
	var errA error
	doneA := false
	waitReply := vf.Choose("a.waits.for.reply", 2) == 1
	go func() {
		if waitReply {
			_, errA = conn.SendCallAndWaitReplayCall(actx, &UpstreamCall{DestinationNodeID: "dst", Name: "na", Type: "ta"})
		} else {
			_, errA = conn.SendCall(actx, &UpstreamCall{DestinationNodeID: "dst", Name: "na", Type: "ta"})
		}
		doneA = true
	}()
	vf.Settle()
	calls := zzCallsOf(tr)
	vf.Assume(len(calls) == 1)
	idA := calls[0].CallID
	// the caller goes away with an error: its context ends before the ack, or after the ack while it
	// waits for the reply, or the broker acks negatively
	switch how := vf.Choose("a.goes.away", 3); {
	case how == 1 && waitReply:
		tr.push(&message.UpstreamCallAck{CallID: idA, ResultCode: message.ResultCodeSucceeded})
		vf.Settle()
		acancel()
	case how == 2:
		tr.push(&message.UpstreamCallAck{CallID: idA, ResultCode: message.ResultCodeUnspecifiedError, ResultString: "no such node"})
	default:
		acancel()
	}
	vf.Settle()
	vf.Assert("abandoned-caller-returns-an-error", doneA && errA != nil)
	// late traffic for the abandoned id
	for i, n := 0, vf.Choose("late.acks", 4); i < n; i++ {
		tr.push(&message.UpstreamCallAck{CallID: idA, ResultCode: message.ResultCodeSucceeded})
	}
	if vf.Choose("late.reply", 2) == 1 {
		tr.push(&message.DownstreamCall{CallID: "late-reply", RequestCallID: idA, SourceNodeID: "dst"})
		tr.push(&message.DownstreamCall{CallID: "late-reply-2", RequestCallID: idA, SourceNodeID: "dst"})
	}
	vf.Settle()
	// an incoming call still reaches ReceiveCall
	tr.push(&message.DownstreamCall{CallID: "incoming", SourceNodeID: "peer", Name: "ni", Type: "ti"})
	vf.Settle()
	var in *DownstreamCall
	var rerr error
	stuck := vf.Blocked(func() { in, rerr = conn.ReceiveCall(context.Background()) })
	vf.Assert("incoming-call-still-delivered", !stuck && rerr == nil && in != nil && in.CallID == "incoming")
	// a later caller still gets the ack (and the reply) for its own id
	var idB string
	var errB error
	var replyB *DownstreamReplyCall
	doneB := false
	bWaits := vf.Choose("b.waits.for.reply", 2) == 1
	go func() {
		if bWaits {
			replyB, errB = conn.SendCallAndWaitReplayCall(context.Background(), &UpstreamCall{DestinationNodeID: "dst", Name: "nb", Type: "tb"})
		} else {
			idB, errB = conn.SendCall(context.Background(), &UpstreamCall{DestinationNodeID: "dst", Name: "nb", Type: "tb"})
		}
		doneB = true
	}()
	vf.Settle()
	calls = zzCallsOf(tr)
	vf.Assert("later-call-on-the-wire", len(calls) == 2)
	if len(calls) == 2 {
		tr.push(&message.UpstreamCallAck{CallID: calls[1].CallID, ResultCode: message.ResultCodeSucceeded})
		vf.Settle()
		if bWaits {
			tr.push(&message.DownstreamCall{CallID: "reply-b", RequestCallID: calls[1].CallID, SourceNodeID: "dst"})
			vf.Settle()
			vf.Assert("later-caller-gets-its-own-reply", doneB && errB == nil && replyB != nil && replyB.CallID == "reply-b" && replyB.RequestCallID == calls[1].CallID)
		} else {
			vf.Assert("later-caller-gets-its-own-ack", doneB && errB == nil && idB == calls[1].CallID && idB != idA)
		}
	}
	conn.Close(context.Background())
	vf.Reach("end")
}

func zzUpstreamChunksOf(t *zzTr) []*message.UpstreamChunk {
	var out []*message.UpstreamChunk
	for _, m := range t.msgs() {
		if c, ok := m.(*message.UpstreamChunk); ok {
			out = append(out, c)
		}
	}
	return out
}

// C20.d: Flush is a barrier, on a stream obtained from the real OpenUpstream: after a Flush whose
// context was already cancelled (whatever way it ended), a later Flush that returns nil has cut every
// point accepted before it, the visible buffer is empty and the totals match.
func zzC20dFlushBarrier() {
	b := zzNewBroker()
	zzServeStreams(b)
	conn := zzConnect(b)
	tr := b.last()
	ctx := context.Background()
	up, err := conn.OpenUpstream(ctx, "session", WithUpstreamFlushPolicyNone(), WithUpstreamQoS(message.QoSReliable))
	vf.Assume(err == nil)
	vf.Settle()
	id := &message.DataID{Name: "n", Type: "t"}
	p1 := vf.U8("p1")
	vf.Assert("write-1", up.WriteDataPoints(ctx, id, &message.DataPoint{Payload: []byte{p1}}) == nil)
	vf.Settle()
	// a Flush that gives up: cancelled before, or while, the flush loop serves it
	cancelled, cancel := context.WithCancel(ctx)
	cancel()
	rounds := 1 + vf.Choose("cancelled.flushes", 2)
	for i := 0; i < rounds; i++ {
		up.Flush(cancelled)
		vf.Settle()
	}
	p2 := vf.U8("p2")
	vf.Assert("write-2", up.WriteDataPoints(ctx, id, &message.DataPoint{Payload: []byte{p2}}, &message.DataPoint{}) == nil)
	vf.Settle()
	ferr := up.Flush(ctx)
	if ferr == nil {
		st := up.State()
		vf.Assert("flush-nil-means-buffer-empty", len(st.DataPointsBuffer) == 0)
		vf.Assert("flush-nil-means-all-accepted-points-cut", st.TotalDataPoints == 3)
		vf.Settle()
		n := 0
		for _, c := range zzUpstreamChunksOf(tr) {
			vf.Assert("chunk-number-at-most-last-issued", c.StreamChunk.SequenceNumber <= st.LastIssuedSequenceNumber)
			vf.Assert("no-empty-chunk", len(c.StreamChunk.DataPointGroups) > 0)
			for _, g := range c.StreamChunk.DataPointGroups {
				n += len(g.DataPoints)
			}
		}
		vf.Assert("all-points-on-the-wire", n == 3)
		vf.Reach("flushed")
	}
	conn.Close(ctx)
	vf.Reach("end")
}

type zzHooks struct {
	sent  []UpstreamChunk
	acked []UpstreamChunkResult
}

func (h *zzHooks) HookBefore(id uuid.UUID, c UpstreamChunk)      { h.sent = append(h.sent, c) }
func (h *zzHooks) HookAfter(id uuid.UUID, r UpstreamChunkResult) { h.acked = append(h.acked, r) }

// C01.e: a whole upstream life on a real Conn: open, a bounded write/flush history, acknowledged by
// the broker (immediately or in one batch at the end, with or without data-id alias assignment),
// Close. The broker must have received exactly what was written, in chunks numbered 1..N, the close
// request must report N and the point total, hooks fire once per chunk, nothing follows the close request.
func zzC01eEndToEnd() {
	b := zzNewBroker()
	zzServeStreams(b)
	base := b.handler
	batchAcks := vf.Choose("broker.acks.in.one.batch", 2) == 1
	assignAliases := vf.Choose("broker.assigns.aliases", 2) == 1
	rejectSecond := vf.Choose("broker.rejects.chunk.2", 2) == 1
	var pending []*message.UpstreamChunkResult
	nextAlias := uint32(100)
	var closeReq *message.UpstreamCloseRequest
	chunksAfterClose := 0
	b.handler = func(t *zzTr, m message.Message) bool {
		switch r := m.(type) {
		case *message.UpstreamChunk:
			if closeReq != nil {
				chunksAfterClose++
			}
			// the broker's verdict on a chunk may be a failure code: it is reported to the hook all the same
			code, str := message.ResultCodeSucceeded, "ok"
			if rejectSecond && r.StreamChunk.SequenceNumber == 2 {
				code, str = message.ResultCodeInvalidPayload, "rejected"
			}
			res := &message.UpstreamChunkResult{SequenceNumber: r.StreamChunk.SequenceNumber, ResultCode: code, ResultString: str}
			aliases := map[uint32]*message.DataID{}
			if assignAliases {
				for _, id := range r.DataIDs {
					nextAlias++
					aliases[nextAlias] = id
				}
			}
			if batchAcks {
				pending = append(pending, res)
				if len(aliases) > 0 {
					t.in <- zzEncode(&message.UpstreamChunkAck{StreamIDAlias: r.StreamIDAlias, DataIDAliases: aliases})
				}
			} else {
				t.in <- zzEncode(&message.UpstreamChunkAck{StreamIDAlias: r.StreamIDAlias, Results: []*message.UpstreamChunkResult{res}, DataIDAliases: aliases})
			}
			return true
		case *message.UpstreamCloseRequest:
			closeReq = r
		}
		return base(t, m)
	}
	conn := zzConnect(b)
	tr := b.last()
	ctx := context.Background()
	hooks := &zzHooks{}
	var policy UpstreamOption
	switch vf.Choose("policy", 3) {
	case 0:
		policy = WithUpstreamFlushPolicyNone()
	case 1:
		policy = WithUpstreamFlushPolicyImmediately()
	default:
		policy = WithUpstreamFlushPolicyBufferSizeOnly(1)
	}
	octx, ocancel := context.WithCancel(ctx)
	up, err := conn.OpenUpstream(octx, "session", policy, WithUpstreamQoS(message.QoSReliable),
		WithUpstreamReceiveAckHooker(hooks), WithUpstreamSendDataPointsHooker(hooks), WithUpstreamCloseTimeout(time.Second))
	vf.Assume(err == nil)
	ocancel() // the open call's context ends after the call: the stream must not depend on it
	vf.Settle()
	// write history: 3 writes over 2 data ids, symbolic payload bytes, one explicit Flush in between
	idA, idB := &message.DataID{Name: "a", Type: "t"}, &message.DataID{Name: "b", Type: "t"}
	type written struct {
		id string
		b  byte
	}
	var all []written
	write := func(id *message.DataID, label string, n int) {
		var dps []*message.DataPoint
		for i := 0; i < n; i++ {
			v := vf.U8(label + string(rune('0'+i)))
			// (elapsed times are the application's business: late and repeated samples, not increasing)
			dps = append(dps, &message.DataPoint{ElapsedTime: time.Duration((7 * (len(all) + 1)) % 5), Payload: []byte{v}})
			all = append(all, written{id.Name, v})
		}
		vf.Assert("write-accepted", up.WriteDataPoints(ctx, id, dps...) == nil)
		vf.Settle()
	}
	write(idA, "w1", 2)
	write(idB, "w2", 1)
	if vf.Choose("flush.in.between", 2) == 1 {
		vf.Assert("flush-ok", up.Flush(ctx) == nil)
		vf.Settle()
	}
	// a Flush whose caller gives up (context already ended: it is abandoned before or while the
	// flush loop serves it, every ready select arm explored) must not disturb what follows
	if vf.Choose("abandoned.flush", 2) == 1 {
		gone, cancel := context.WithCancel(ctx)
		cancel()
		up.Flush(gone)
		vf.Settle()
	}
	write(idA, "w3", 1)
	if batchAcks {
		// the broker acknowledges everything received so far in one (reordered) batch when the stream drains
		go func() {
			for i := 0; i < 20; i++ {
				vf.Settle()
				if len(pending) > 0 {
					var rs []*message.UpstreamChunkResult
					for j := len(pending) - 1; j >= 0; j-- {
						rs = append(rs, pending[j])
					}
					pending = nil
					tr.push(&message.UpstreamChunkAck{StreamIDAlias: 1, Results: rs})
				}
			}
		}()
	}
	cerr := up.Close(ctx)
	vf.Settle()
	vf.Assert("close-ok", cerr == nil)
	chunks := zzUpstreamChunksOf(tr)
	n := len(chunks)
	vf.Assert("at-least-one-chunk", n >= 1)
	total := 0
	var got []written
	aliasTable := map[uint32]string{}
	for i, c := range chunks {
		vf.Assert("chunks-numbered-1-to-N-in-order", c.StreamChunk.SequenceNumber == uint32(i+1))
		vf.Assert("no-empty-chunk", len(c.StreamChunk.DataPointGroups) > 0)
		for _, g := range c.StreamChunk.DataPointGroups {
			name := ""
			switch v := g.DataIDOrAlias.(type) {
			case *message.DataID:
				name = v.Name
			case message.DataIDAlias:
				name = aliasTable[uint32(v)]
				vf.Assert("alias-was-assigned-by-the-broker", name != "")
			}
			for _, p := range g.DataPoints {
				vf.Assert("payload-length-kept", len(p.Payload) == 1)
				if len(p.Payload) == 1 {
					got = append(got, written{name, p.Payload[0]})
				}
				total++
			}
		}
		if assignAliases {
			// the broker's assignment order mirrors the handler above
			for _, id := range c.DataIDs {
				_ = id
			}
		}
		// rebuild the alias table the way the broker handed it out
		if assignAliases {
			for _, id := range c.DataIDs {
				na := uint32(101 + len(aliasTable))
				aliasTable[na] = id.Name
			}
		}
	}
	vf.Assert("point-total", total == len(all))
	// per data id: exactly the written payloads in order
	for _, name := range []string{"a", "b"} {
		var w, g []byte
		for _, x := range all {
			if x.id == name {
				w = append(w, x.b)
			}
		}
		for _, x := range got {
			if x.id == name {
				g = append(g, x.b)
			}
		}
		vf.Assert("per-id-count", len(w) == len(g))
		for i := range w {
			if i < len(g) {
				vf.Assert("per-id-order-and-payload", w[i] == g[i])
			}
		}
	}
	vf.Assert("close-request-sent-once", closeReq != nil)
	if closeReq != nil {
		vf.Assert("close-request-totals", closeReq.FinalSequenceNumber == uint32(n) && closeReq.TotalDataPoints == uint64(len(all)) && closeReq.StreamID == up.ID)
	}
	vf.Assert("no-chunk-after-close-request", chunksAfterClose == 0)
	vf.Assert("send-hook-once-per-chunk", len(hooks.sent) == n)
	vf.Assert("ack-hook-once-per-chunk", len(hooks.acked) == n)
	for i := range hooks.sent {
		if i < n {
			cnt := 0
			for _, g := range hooks.sent[i].DataPointGroups {
				cnt += len(g.DataPoints)
			}
			wire := 0
			for _, g := range chunks[i].StreamChunk.DataPointGroups {
				wire += len(g.DataPoints)
			}
			vf.Assert("send-hook-reports-what-was-sent", hooks.sent[i].SequenceNumber == chunks[i].StreamChunk.SequenceNumber && cnt == wire)
		}
	}
	seen := map[uint32]int{}
	for _, r := range hooks.acked {
		seen[r.SequenceNumber]++
		if rejectSecond && r.SequenceNumber == 2 {
			vf.Assert("ack-hook-has-the-brokers-code", r.ResultCode == message.ResultCodeInvalidPayload && r.ResultString == "rejected")
		} else {
			vf.Assert("ack-hook-has-the-brokers-code", r.ResultCode == message.ResultCodeSucceeded && r.ResultString == "ok")
		}
	}
	for i := 1; i <= n; i++ {
		vf.Assert("each-result-reported-once", seen[uint32(i)] == 1)
	}
	conn.Close(ctx)
	vf.Reach("end")
}

// C04.e / C03: a whole downstream life on a real Conn: the broker sends chunks (full forms first,
// then the aliases the client announced), the application reads them; acks go out on the flush
// interval and at Close. Every consumed chunk is acknowledged exactly once with its upstream's stream
// id and sequence number, ack ids count from 1, each upstream / data id is announced once under one
// alias, and the last acks precede the close request.
func zzC04eDownstreamLife() {
	b := zzNewBroker()
	zzServeStreams(b)
	conn := zzConnect(b)
	tr := b.last()
	ctx := context.Background()
	octx, ocancel := context.WithCancel(ctx)
	down, err := conn.OpenDownstream(octx, []*message.DownstreamFilter{{SourceNodeID: "node", DataFilters: []*message.DataFilter{{Name: "#", Type: "#"}}}},
		WithDownstreamAckFlushInterval(50*time.Millisecond))
	vf.Assume(err == nil)
	if vf.Choose("open.context.cancelled.afterwards", 2) == 1 {
		ocancel() // the open call's context ends after the call: the stream must not depend on it
	}
	defer ocancel()
	vf.Settle()
	var alias uint32
	for _, m := range tr.msgs() {
		if r, ok := m.(*message.DownstreamOpenRequest); ok {
			alias = r.DesiredStreamIDAlias
		}
	}
	upA := &message.UpstreamInfo{SessionID: "sa", SourceNodeID: "node", StreamID: zzStreamID1}
	idX := &message.DataID{Name: "x", Type: "t"}
	s1, s2, s3 := uint32(7), uint32(8), uint32(4000000000) // (symbolic numbers would be forked per varint byte by the real codec)
	pay := vf.U8("payload")
	// chunk 1: everything in full form
	tr.push(&message.DownstreamChunk{StreamIDAlias: alias, UpstreamOrAlias: upA, StreamChunk: &message.StreamChunk{SequenceNumber: s1,
		DataPointGroups: []*message.DataPointGroup{{DataIDOrAlias: idX, DataPoints: []*message.DataPoint{{ElapsedTime: 1, Payload: []byte{pay}}}}}}})
	vf.Settle()
	c1, e1 := down.ReadDataPoints(ctx)
	vf.Assert("chunk1-read", e1 == nil && c1 != nil && c1.SequenceNumber == s1 && *c1.UpstreamInfo == *upA && len(c1.DataPointGroups) == 1 && *c1.DataPointGroups[0].DataID == *idX)
	// the ack interval elapses: the first ack announces the aliases
	vf.Advance(50 * time.Millisecond)
	acks := func() []*message.DownstreamChunkAck {
		var out []*message.DownstreamChunkAck
		for _, m := range tr.msgs() {
			if a, ok := m.(*message.DownstreamChunkAck); ok {
				out = append(out, a)
			}
		}
		return out
	}
	as := acks()
	vf.Assert("first-ack-after-interval", len(as) == 1)
	if len(as) != 1 {
		return
	}
	a1 := as[0]
	vf.Assert("ack-id-starts-at-1", a1.AckID == 1 && a1.StreamIDAlias == alias)
	vf.Assert("result-for-chunk1", len(a1.Results) == 1 && a1.Results[0].SequenceNumberInUpstream == s1 && a1.Results[0].StreamIDOfUpstream == zzStreamID1)
	vf.Assert("one-upstream-alias-announced", len(a1.UpstreamAliases) == 1)
	vf.Assert("one-data-id-alias-announced", len(a1.DataIDAliases) == 1)
	var upAlias, idAlias uint32
	for k, v := range a1.UpstreamAliases {
		upAlias = k
		vf.Assert("announced-upstream-is-the-one-seen", *v == *upA && k != 0)
	}
	for k, v := range a1.DataIDAliases {
		idAlias = k
		vf.Assert("announced-data-id-is-the-one-seen", *v == *idX && k != 0)
	}
	// chunk 2: the broker switches to the aliases; chunk 3: still sends the full forms again
	tr.push(&message.DownstreamChunk{StreamIDAlias: alias, UpstreamOrAlias: message.UpstreamAlias(upAlias), StreamChunk: &message.StreamChunk{SequenceNumber: s2,
		DataPointGroups: []*message.DataPointGroup{{DataIDOrAlias: message.DataIDAlias(idAlias), DataPoints: []*message.DataPoint{{ElapsedTime: 2, Payload: []byte{pay}}}}}}})
	upA2 := &message.UpstreamInfo{SessionID: "sa", SourceNodeID: "node", StreamID: zzStreamID1}
	tr.push(&message.DownstreamChunk{StreamIDAlias: alias, UpstreamOrAlias: upA2, StreamChunk: &message.StreamChunk{SequenceNumber: s3,
		DataPointGroups: []*message.DataPointGroup{{DataIDOrAlias: &message.DataID{Name: "x", Type: "t"}, DataPoints: []*message.DataPoint{{ElapsedTime: 3}}}}}})
	vf.Settle()
	c2, e2 := down.ReadDataPoints(ctx)
	c3, e3 := down.ReadDataPoints(ctx)
	vf.Assert("chunk2-resolved-through-aliases", e2 == nil && c2 != nil && c2.SequenceNumber == s2 && *c2.UpstreamInfo == *upA && *c2.DataPointGroups[0].DataID == *idX &&
		len(c2.DataPointGroups[0].DataPoints) == 1 && c2.DataPointGroups[0].DataPoints[0].Payload[0] == pay)
	vf.Assert("chunk3-full-form-again", e3 == nil && c3 != nil && c3.SequenceNumber == s3 && *c3.UpstreamInfo == *upA)
	// close without waiting for the interval: the pending results must go out before the close request
	cerr := down.Close(ctx)
	vf.Settle()
	vf.Assert("close-ok", cerr == nil)
	as = acks()
	vf.Assert("second-ack-at-close", len(as) == 2)
	if len(as) == 2 {
		a2 := as[1]
		vf.Assert("ack-ids-increase-by-one", a2.AckID == 2)
		vf.Assert("results-for-chunk2-and-3-once-in-order", len(a2.Results) == 2 && a2.Results[0].SequenceNumberInUpstream == s2 && a2.Results[1].SequenceNumberInUpstream == s3 &&
			a2.Results[0].StreamIDOfUpstream == zzStreamID1 && a2.Results[1].StreamIDOfUpstream == zzStreamID1)
		vf.Assert("no-alias-announced-twice", len(a2.UpstreamAliases) == 0 && len(a2.DataIDAliases) == 0)
	}
	// order on the wire: last ack before the close request, nothing of the stream after it
	ackPos, closePos, after := -1, -1, 0
	for i, m := range tr.msgs() {
		switch m.(type) {
		case *message.DownstreamChunkAck:
			ackPos = i
			if closePos >= 0 {
				after++
			}
		case *message.DownstreamCloseRequest:
			closePos = i
		}
	}
	vf.Assert("final-ack-before-close-request", closePos >= 0 && ackPos >= 0 && ackPos < closePos && after == 0)
	_, e4 := down.ReadDataPoints(ctx)
	vf.Assert("read-after-close-is-stream-closed", e4 != nil && errors.Is(e4, errors.ErrStreamClosed))
	conn.Close(ctx)
	vf.Reach("end")
}

// C03.e: pre-registered data-id aliases (WithDownstreamDataIDs) stay what the client announced in its
// open request, also when the list repeats an id and after further ids have been assigned aliases.
func zzC03ePreregistered() {
	b := zzNewBroker()
	zzServeStreams(b)
	conn := zzConnect(b)
	tr := b.last()
	ctx := context.Background()
	pool := []*message.DataID{{Name: "x", Type: "t"}, {Name: "y", Type: "t"}}
	var pre []*message.DataID
	n := 1 + vf.Choose("preregistered.n", 3)
	for i := 0; i < n; i++ {
		pre = append(pre, pool[vf.Choose("pre"+string(rune('0'+i)), 2)]) // may repeat an id
	}
	down, err := conn.OpenDownstream(ctx, []*message.DownstreamFilter{{SourceNodeID: "node"}}, WithDownstreamDataIDs(pre))
	vf.Assume(err == nil)
	vf.Settle()
	var open *message.DownstreamOpenRequest
	for _, m := range tr.msgs() {
		if r, ok := m.(*message.DownstreamOpenRequest); ok {
			open = r
		}
	}
	vf.Assume(open != nil)
	announced := open.DataIDAliases
	for a := range announced {
		vf.Assert("announced-aliases-nonzero", a != 0)
	}
	up := &message.UpstreamInfo{SessionID: "s", SourceNodeID: "node", StreamID: zzStreamID1}
	// first a chunk with a new id in full form (gets a fresh alias) ...
	z := &message.DataID{Name: "z", Type: "t"}
	tr.push(&message.DownstreamChunk{StreamIDAlias: open.DesiredStreamIDAlias, UpstreamOrAlias: up, StreamChunk: &message.StreamChunk{SequenceNumber: 1,
		DataPointGroups: []*message.DataPointGroup{{DataIDOrAlias: z, DataPoints: []*message.DataPoint{{ElapsedTime: 1}}}}}})
	vf.Settle()
	c1, e1 := down.ReadDataPoints(ctx)
	vf.Assert("new-id-chunk-read", e1 == nil && c1 != nil && *c1.DataPointGroups[0].DataID == *z)
	st := down.State()
	for a, id := range st.DataIDAliases {
		if want, ok := announced[a]; ok {
			vf.Assert("announced-alias-keeps-its-id", *id == *want)
		}
	}
	// ... then one chunk per announced alias: each resolves to exactly the id announced for it
	seq := uint32(2)
	for a, want := range announced {
		tr.push(&message.DownstreamChunk{StreamIDAlias: open.DesiredStreamIDAlias, UpstreamOrAlias: up, StreamChunk: &message.StreamChunk{SequenceNumber: seq,
			DataPointGroups: []*message.DataPointGroup{{DataIDOrAlias: message.DataIDAlias(a), DataPoints: []*message.DataPoint{{ElapsedTime: 2}}}}}})
		vf.Settle()
		c, e := down.ReadDataPoints(ctx)
		vf.Assert("preregistered-alias-resolves-to-the-announced-id", e == nil && c != nil && len(c.DataPointGroups) == 1 && *c.DataPointGroups[0].DataID == *want)
		seq++
	}
	conn.Close(ctx)
	vf.Reach("end")
}

type zzEvents struct {
	disconnected, reconnected, upResumed, downResumed, upClosed, downClosed int
	disconnectedTakes                                                        time.Duration // the application's handler is slow
}

func (e *zzEvents) OnDisconnected(*DisconnectedEvent) {
	e.disconnected++
	if e.disconnectedTakes > 0 {
		time.Sleep(e.disconnectedTakes)
	}
}
func (e *zzEvents) OnReconnected(*ReconnectedEvent)            { e.reconnected++ }
func (e *zzEvents) OnUpstreamResumed(*UpstreamResumedEvent)    { e.upResumed++ }
func (e *zzEvents) OnDownstreamResumed(*DownstreamResumedEvent) { e.downResumed++ }
func (e *zzEvents) OnUpstreamClosed(*UpstreamClosedEvent)      { e.upClosed++ }
func (e *zzEvents) OnDownstreamClosed(*DownstreamClosedEvent)  { e.downClosed++ }

// C05.e: one outage, whole API: the transport dies without Close having been called; keepalive
// notices; the connection redials with a fresh token; the upstream and the downstream resume under
// their original ids (the downstream under its original alias); a metadata request issued during the
// outage is sent after recovery instead of failing; the unacknowledged reliable chunk is sent again
// with its number and payload; notifications fire once; both streams keep working.
func zzC05eOutage() {
	b := zzNewBroker()
	zzServeStreams(b)
	ev := &zzEvents{}
	conf := b.config()
	conf.DisconnectedEventHandler = ev
	conf.ReconnectedEventHandler = ev
	n := 0
	randomString = func() string { n++; return "call-" + string(rune('a'+n)) }
	conn, err := ConnectWithConfig(conf)
	vf.Assume(err == nil)
	vf.Settle()
	vf.Deviations(zzDeviations)
	ctx := context.Background()
	tr1 := b.last()
	up, err := conn.OpenUpstream(ctx, "session", WithUpstreamFlushPolicyNone(), WithUpstreamQoS(message.QoSReliable), WithUpstreamResumedEventHandler(ev), WithUpstreamClosedEventHandler(ev))
	vf.Assume(err == nil)
	down, err := conn.OpenDownstream(ctx, []*message.DownstreamFilter{{SourceNodeID: "node"}}, WithDownstreamResumedEventHandler(ev), WithDownstreamClosedEventHandler(ev))
	vf.Assume(err == nil)
	vf.Settle()
	var openDown *message.DownstreamOpenRequest
	for _, m := range tr1.msgs() {
		if r, ok := m.(*message.DownstreamOpenRequest); ok {
			openDown = r
		}
	}
	vf.Assume(openDown != nil)
	pay := vf.U8("payload")
	id := &message.DataID{Name: "n", Type: "t"}
	vf.Assert("write-before-outage", up.WriteDataPoints(ctx, id, &message.DataPoint{ElapsedTime: 1, Payload: []byte{pay}}) == nil)
	vf.Assert("flush-before-outage", up.Flush(ctx) == nil)
	vf.Settle()
	vf.Assert("chunk-1-sent-unacknowledged", len(zzUpstreamChunksOf(tr1)) == 1)
	// the transport dies (the broker never acknowledged chunk 1): either both directions at once (the
	// read loop notices), or only the write direction (the next request notices, the keepalive later)
	halfDead := vf.Choose("only.writes.fail", 2) == 1
	if vf.Choose("slow.disconnected.handler", 2) == 1 {
		ev.disconnectedTakes = 300 * time.Millisecond // the connection's run loop is held up, the stream watchers are not
	}
	if halfDead {
		tr1.mu.Lock()
		tr1.writesFail = true
		tr1.mu.Unlock()
	} else {
		tr1.Close()
	}
	vf.Settle()
	// a request issued during the outage
	var merr error
	mdone := false
	go func() { merr = conn.SendMetadata(ctx, &message.BaseTime{SessionID: "session", Name: "during-outage"}); mdone = true }()
	vf.Settle()
	// keepalive notices at the next ping
	vf.Advance(11 * time.Second)
	vf.Settle()
	vf.Advance(2 * time.Second)
	vf.Settle()
	tr2 := b.last()
	vf.Assert("redialled-once", b.dials == 2 && tr2 != tr1)
	vf.Assert("fresh-token-on-redial", b.tokens == 2 && tr2.token == "token-b")
	var upRes []*message.UpstreamResumeRequest
	var downRes []*message.DownstreamResumeRequest
	metaSeen := 0
	for _, m := range tr2.msgs() {
		switch r := m.(type) {
		case *message.UpstreamResumeRequest:
			upRes = append(upRes, r)
		case *message.DownstreamResumeRequest:
			downRes = append(downRes, r)
		case *message.UpstreamMetadata:
			if bt, ok := r.Metadata.(*message.BaseTime); ok && bt.Name == "during-outage" {
				metaSeen++
			}
		}
	}
	vf.Assert("upstream-resumed-under-its-original-id", len(upRes) == 1 && upRes[0].StreamID == up.ID)
	vf.Assert("downstream-resumed-under-its-original-id-and-alias", len(downRes) == 1 && downRes[0].StreamID == down.ID && downRes[0].DesiredStreamIDAlias == openDown.DesiredStreamIDAlias)
	vf.Assert("request-during-outage-sent-after-recovery", mdone && merr == nil && metaSeen == 1)
	// the unacknowledged reliable chunk is sent again, unchanged, under the new alias
	resent := zzUpstreamChunksOf(tr2)
	vf.Assert("unacked-chunk-resent-once", len(resent) == 1)
	if len(resent) == 1 {
		c := resent[0]
		vf.Assert("resent-with-its-original-number-and-payload", c.StreamChunk.SequenceNumber == 1 && len(c.StreamChunk.DataPointGroups) == 1 &&
			len(c.StreamChunk.DataPointGroups[0].DataPoints) == 1 && len(c.StreamChunk.DataPointGroups[0].DataPoints[0].Payload) == 1 && c.StreamChunk.DataPointGroups[0].DataPoints[0].Payload[0] == pay)
	}
	vf.Assert("notifications-once-per-outage", ev.disconnected == 1 && ev.reconnected == 1 && ev.upResumed == 1 && ev.downResumed == 1)
	vf.Assert("nobody-was-closed", ev.upClosed == 0 && ev.downClosed == 0)
	// both streams keep working
	vf.Assert("write-after-recovery", up.WriteDataPoints(ctx, id, &message.DataPoint{ElapsedTime: 2}) == nil && up.Flush(ctx) == nil)
	vf.Settle()
	after := zzUpstreamChunksOf(tr2)
	vf.Assert("new-chunk-continues-the-numbering", len(after) == 2 && after[1].StreamChunk.SequenceNumber == 2)
	tr2.push(&message.DownstreamChunk{StreamIDAlias: openDown.DesiredStreamIDAlias, UpstreamOrAlias: &message.UpstreamInfo{SessionID: "s", SourceNodeID: "node", StreamID: zzStreamID1},
		StreamChunk: &message.StreamChunk{SequenceNumber: 5, DataPointGroups: []*message.DataPointGroup{{DataIDOrAlias: &message.DataID{Name: "x", Type: "t"}, DataPoints: []*message.DataPoint{{ElapsedTime: 1}}}}}})
	vf.Settle()
	dc, derr := down.ReadDataPoints(ctx)
	vf.Assert("downstream-reads-after-recovery", derr == nil && dc != nil && dc.SequenceNumber == 5)
	conn.Close(ctx)
	vf.Reach("end")
}

// C05.f: one outage in which the broker refuses the resume of the upstream, of the downstream, or of
// both (or cuts the connection again while the upstream's resume request is in flight): exactly the
// refused stream is reported closed with an error and fails with the stream-closed error afterwards;
// the other stream resumes under its original id and keeps working; the connection itself recovers.
func zzC05fResumeRefused() {
	b := zzNewBroker()
	zzServeStreams(b)
	serve := b.handler
	upOutcome := vf.Choose("upstream.resume", 3)     // 0 accepted, 1 refused, 2 connection cut during the exchange
	downOutcome := vf.Choose("downstream.resume", 2) // 0 accepted, 1 refused
	// the broker may first answer "conflict" (it has not noticed yet that the old connection is gone):
	// that is a request to try again, not a refusal
	conflictsFirst := vf.Choose("conflict.answers.first", 2)
	vf.Assume(upOutcome != 0 || downOutcome != 0 || conflictsFirst != 0)
	upConflicts, downConflicts := conflictsFirst, conflictsFirst
	// a broker that no longer knows a stream also refuses the close request the client then sends
	closeRefused := vf.Choose("close.request.refused", 2) == 1
	cuts := 0
	b.handler = func(t *zzTr, m message.Message) bool {
		switch r := m.(type) {
		case *message.UpstreamCloseRequest:
			if closeRefused {
				t.in <- zzEncode(&message.UpstreamCloseResponse{RequestID: r.RequestID, ResultCode: message.ResultCodeStreamNotFound})
				return true
			}
		case *message.DownstreamCloseRequest:
			if closeRefused {
				t.in <- zzEncode(&message.DownstreamCloseResponse{RequestID: r.RequestID, ResultCode: message.ResultCodeStreamNotFound})
				return true
			}
		case *message.UpstreamResumeRequest:
			if upConflicts > 0 {
				upConflicts--
				t.in <- zzEncode(&message.UpstreamResumeResponse{RequestID: r.RequestID, ResultCode: message.ResultCodeResumeRequestConflict})
				return true
			}
			if upOutcome == 1 {
				t.in <- zzEncode(&message.UpstreamResumeResponse{RequestID: r.RequestID, ResultCode: message.ResultCodeStreamNotFound, ResultString: "gone"})
				return true
			}
			if upOutcome == 2 && cuts == 0 {
				cuts++
				go t.Close()
				return true
			}
		case *message.DownstreamResumeRequest:
			if downConflicts > 0 {
				downConflicts--
				t.in <- zzEncode(&message.DownstreamResumeResponse{RequestID: r.RequestID, ResultCode: message.ResultCodeResumeRequestConflict})
				return true
			}
			if downOutcome == 1 {
				t.in <- zzEncode(&message.DownstreamResumeResponse{RequestID: r.RequestID, ResultCode: message.ResultCodeStreamNotFound, ResultString: "gone"})
				return true
			}
		}
		return serve(t, m)
	}
	ev := &zzEvents{}
	conf := b.config()
	conf.DisconnectedEventHandler = ev
	conf.ReconnectedEventHandler = ev
	n := 0
	randomString = func() string { n++; return "call-" + string(rune('a'+n)) }
	conn, err := ConnectWithConfig(conf)
	vf.Assume(err == nil)
	vf.Settle()
	vf.Deviations(zzDeviations)
	ctx := context.Background()
	tr1 := b.last()
	up, err := conn.OpenUpstream(ctx, "session", WithUpstreamFlushPolicyNone(), WithUpstreamResumedEventHandler(ev), WithUpstreamClosedEventHandler(ev))
	vf.Assume(err == nil)
	down, err := conn.OpenDownstream(ctx, []*message.DownstreamFilter{{SourceNodeID: "node"}}, WithDownstreamResumedEventHandler(ev), WithDownstreamClosedEventHandler(ev))
	vf.Assume(err == nil)
	vf.Settle()
	var openDown *message.DownstreamOpenRequest
	for _, m := range tr1.msgs() {
		if r, ok := m.(*message.DownstreamOpenRequest); ok {
			openDown = r
		}
	}
	vf.Assume(openDown != nil)
	tr1.Close()
	vf.Settle()
	for i := 0; i < 4; i++ { // keepalive notices; redial(s); resume exchanges
		vf.Advance(11 * time.Second)
		vf.Settle()
	}
	trN := b.last()
	if upOutcome == 2 {
		vf.Assert("recovers-after-the-second-cut", b.dials == 3 && conn.state.Is(connStatusConnected))
	} else {
		vf.Assert("connection-recovers", b.dials == 2 && conn.state.Is(connStatusConnected))
	}
	id := &message.DataID{Name: "n", Type: "t"}
	cut := upOutcome == 2
	// who must have survived: a stream whose resume was accepted on a connection that stayed up
	if upOutcome == 0 {
		vf.Assert("accepted-upstream-not-closed", ev.upClosed == 0)
	}
	if downOutcome == 0 && !cut {
		vf.Assert("accepted-downstream-not-closed", ev.downClosed == 0)
	}
	// who must have been reported closed: a stream whose resume was refused or cut
	if upOutcome != 0 {
		vf.Assert("refused-upstream-reported-closed", ev.upClosed >= 1)
	}
	if downOutcome == 1 {
		vf.Assert("refused-downstream-reported-closed", ev.downClosed >= 1)
	}
	vf.Assert("closed-reported-at-most-once", ev.upClosed <= 1 && ev.downClosed <= 1)
	// every stream is either working on the new connection or reported closed - never silently detached
	if ev.upClosed == 0 {
		vf.Assert("upstream-resumed", ev.upResumed >= 1)
		vf.Assert("upstream-works", up.WriteDataPoints(ctx, id, &message.DataPoint{ElapsedTime: 2}) == nil && up.Flush(ctx) == nil)
		vf.Settle()
		vf.Assert("upstream-chunk-on-new-connection", len(zzUpstreamChunksOf(trN)) == 1)
	} else {
		werr := up.WriteDataPoints(ctx, id, &message.DataPoint{ElapsedTime: 2})
		vf.Assert("closed-upstream-fails-with-stream-closed", werr != nil && errors.Is(werr, errors.ErrStreamClosed))
		ferr := up.Flush(ctx)
		vf.Assert("closed-upstream-flush-fails", ferr != nil && errors.Is(ferr, errors.ErrStreamClosed))
	}
	if ev.downClosed == 0 {
		vf.Assert("downstream-resumed", ev.downResumed >= 1)
		trN.push(&message.DownstreamChunk{StreamIDAlias: openDown.DesiredStreamIDAlias, UpstreamOrAlias: &message.UpstreamInfo{SessionID: "s", SourceNodeID: "node", StreamID: zzStreamID1},
			StreamChunk: &message.StreamChunk{SequenceNumber: 5, DataPointGroups: []*message.DataPointGroup{{DataIDOrAlias: &message.DataID{Name: "x", Type: "t"}, DataPoints: []*message.DataPoint{{ElapsedTime: 1}}}}}})
		vf.Settle()
		var dc *DownstreamChunk
		var derr error
		blocked := vf.Blocked(func() { dc, derr = down.ReadDataPoints(ctx) })
		vf.Assert("downstream-works", !blocked && derr == nil && dc != nil && dc.SequenceNumber == 5)
	} else {
		var derr error
		blocked := vf.Blocked(func() { _, derr = down.ReadDataPoints(ctx) })
		vf.Assert("closed-downstream-fails-with-stream-closed", !blocked && derr != nil && errors.Is(derr, errors.ErrStreamClosed))
	}
	// the connection still serves new requests
	merr := conn.SendMetadata(ctx, &message.BaseTime{SessionID: "session", Name: "after"})
	vf.Assert("connection-serves-requests", merr == nil)
	conn.Close(ctx)
	vf.Reach("end")
}

// C10.g: goroutine census. After the connection's Close has returned and the peer side is closed
// too, no goroutine started by the library is left - whether streams were open, closed first, or
// still held unread data; closed notifications fired at most once.
func zzC10gNoGoroutineLeft() {
	b := zzNewBroker()
	zzServeStreams(b)
	ev := &zzEvents{}
	conf := b.config()
	conf.DisconnectedEventHandler = ev
	conf.ReconnectedEventHandler = ev
	n := 0
	randomString = func() string { n++; return "call-" + string(rune('a'+n)) }
	conn, err := ConnectWithConfig(conf)
	vf.Assume(err == nil)
	vf.Settle()
	vf.Deviations(zzDeviations)
	ctx := context.Background()
	tr := b.last()
	shape := vf.Choose("streams", 4) // 0 none, 1 open at close, 2 closed before, 3 open with pending traffic
	var up *Upstream
	var down *Downstream
	if shape != 0 {
		up, err = conn.OpenUpstream(ctx, "session", WithUpstreamFlushPolicyNone(), WithUpstreamQoS(message.QoSReliable), WithUpstreamClosedEventHandler(ev), WithUpstreamCloseTimeout(time.Second))
		vf.Assume(err == nil)
		down, err = conn.OpenDownstream(ctx, []*message.DownstreamFilter{{SourceNodeID: "node"}}, WithDownstreamClosedEventHandler(ev))
		vf.Assume(err == nil)
		vf.Settle()
	}
	if shape == 3 {
		var open *message.DownstreamOpenRequest
		for _, m := range tr.msgs() {
			if r, ok := m.(*message.DownstreamOpenRequest); ok {
				open = r
			}
		}
		vf.Assume(open != nil)
		// an unacknowledged chunk upstream, an unread chunk and unread metadata downstream, an unread call
		vf.Assume(up.WriteDataPoints(ctx, &message.DataID{Name: "n", Type: "t"}, &message.DataPoint{ElapsedTime: 1}) == nil)
		vf.Assume(up.Flush(ctx) == nil)
		tr.push(&message.DownstreamChunk{StreamIDAlias: open.DesiredStreamIDAlias, UpstreamOrAlias: &message.UpstreamInfo{SessionID: "s", SourceNodeID: "node", StreamID: zzStreamID1},
			StreamChunk: &message.StreamChunk{SequenceNumber: 1, DataPointGroups: []*message.DataPointGroup{{DataIDOrAlias: &message.DataID{Name: "x", Type: "t"}, DataPoints: []*message.DataPoint{{ElapsedTime: 1}}}}}})
		tr.push(&message.DownstreamMetadata{RequestID: 101, StreamIDAlias: open.DesiredStreamIDAlias, SourceNodeID: "node", Metadata: &message.BaseTime{SessionID: "s", Name: "bt"}})
		tr.push(&message.DownstreamCall{CallID: "c1", SourceNodeID: "n1", Name: "a", Type: "b"})
		vf.Settle()
	}
	if shape == 2 {
		vf.Assert("stream-close-ok", up.Close(ctx) == nil && down.Close(ctx) == nil)
		vf.Settle()
	}
	cctx, cancel := context.WithTimeout(ctx, 5*time.Second)
	cerr := conn.Close(cctx)
	cancel()
	vf.Assert("close-ok", cerr == nil)
	// the peer closes its side too
	tr.Close()
	vf.Settle()
	vf.Advance(30 * time.Second)
	vf.Assert("closed-notifications-at-most-once", ev.upClosed <= 1 && ev.downClosed <= 1)
	if shape == 2 {
		vf.Assert("explicitly-closed-streams-reported-once", ev.upClosed == 1 && ev.downClosed == 1)
	}
	vf.Assert("no-goroutine-left", vf.Leaked() == "")
	vf.Assert("never-reconnected", b.dials == 1 && ev.reconnected == 0)
	vf.Reach("end")
}

// C10.g2: goroutine census after an outage: the goroutines of the first wire connection and of the
// first incarnation of each stream are gone too once the recovered connection has been closed.
func zzC10g2NoGoroutineLeftAfterOutage() {
	b := zzNewBroker()
	zzServeStreams(b)
	ev := &zzEvents{}
	conf := b.config()
	n := 0
	randomString = func() string { n++; return "call-" + string(rune('a'+n)) }
	conn, err := ConnectWithConfig(conf)
	vf.Assume(err == nil)
	vf.Settle()
	vf.Deviations(zzDeviations)
	ctx := context.Background()
	tr1 := b.last()
	up, err := conn.OpenUpstream(ctx, "session", WithUpstreamFlushPolicyNone(), WithUpstreamQoS(message.QoSReliable), WithUpstreamClosedEventHandler(ev), WithUpstreamResumedEventHandler(ev), WithUpstreamCloseTimeout(time.Second))
	vf.Assume(err == nil)
	_, err = conn.OpenDownstream(ctx, []*message.DownstreamFilter{{SourceNodeID: "node"}}, WithDownstreamClosedEventHandler(ev), WithDownstreamResumedEventHandler(ev))
	vf.Assume(err == nil)
	vf.Settle()
	vf.Assume(up.WriteDataPoints(ctx, &message.DataID{Name: "n", Type: "t"}, &message.DataPoint{ElapsedTime: 1}) == nil)
	vf.Assume(up.Flush(ctx) == nil)
	vf.Settle()
	tr1.Close()
	vf.Settle()
	vf.Advance(11 * time.Second)
	vf.Settle()
	vf.Advance(2 * time.Second)
	vf.Settle()
	vf.Assume(b.dials == 2 && ev.upResumed == 1 && ev.downResumed == 1)
	closeStreamsFirst := vf.Choose("close.streams.first", 2) == 1
	if closeStreamsFirst {
		// the resent chunk is never acknowledged: the stream's Close gives up at its close timeout
		var cerr error
		blocked := vf.Blocked(func() { cerr = up.Close(ctx) })
		if blocked {
			vf.Advance(2 * time.Second)
		}
		_ = cerr
	}
	cctx, cancel := context.WithTimeout(ctx, 5*time.Second)
	cerr := conn.Close(cctx)
	cancel()
	vf.Assert("close-ok", cerr == nil)
	b.last().Close()
	vf.Settle()
	vf.Advance(30 * time.Second)
	vf.Assert("no-goroutine-left", vf.Leaked() == "")
	vf.Assert("closed-notifications-at-most-once", ev.upClosed <= 1 && ev.downClosed <= 1)
	vf.Reach("end")
}

// C08.e: Upstream.Close is bounded by its context and by the stream's close timeout when the broker
// never acknowledges the chunks still in flight.
func zzC08eUpstreamCloseBounded() {
	b := zzNewBroker()
	zzServeStreams(b) // answers requests, never acknowledges chunks
	conn := zzConnect(b)
	ctx := context.Background()
	qos := message.QoSUnreliable
	if vf.Choose("reliable", 2) == 1 {
		qos = message.QoSReliable
	}
	up, err := conn.OpenUpstream(ctx, "session", WithUpstreamFlushPolicyNone(), WithUpstreamQoS(qos), WithUpstreamCloseTimeout(3*time.Second))
	vf.Assume(err == nil)
	vf.Settle()
	vf.Assume(up.WriteDataPoints(ctx, &message.DataID{Name: "n", Type: "t"}, &message.DataPoint{ElapsedTime: 1}) == nil)
	if vf.Choose("flushed.before.close", 2) == 1 {
		vf.Assume(up.Flush(ctx) == nil)
		vf.Settle()
	}
	cctx, cancel := ctx, context.CancelFunc(func() {})
	bound := 3 * time.Second // the close timeout
	if vf.Choose("caller.deadline", 2) == 1 {
		cctx, cancel = context.WithTimeout(ctx, time.Second)
		bound = time.Second
	}
	defer cancel()
	done := false
	go func() { up.Close(cctx); done = true }()
	vf.Settle()
	vf.Assert("waits-for-acks-at-first", !done)
	vf.Advance(bound + 100*time.Millisecond)
	vf.Assert("stream-close-returns-by-its-bound", done)
	if !done {
		return
	}
	werr := up.WriteDataPoints(ctx, &message.DataID{Name: "n", Type: "t"}, &message.DataPoint{ElapsedTime: 2})
	vf.Assert("closed-afterwards", werr != nil)
	// the connection keeps working
	merr := conn.SendMetadata(ctx, &message.BaseTime{SessionID: "session", Name: "after"})
	vf.Assert("connection-serves-requests", merr == nil)
	conn.Close(ctx)
	vf.Reach("end")
}

// C20.i: policies through the public API on a virtual clock. An interval policy never holds
// accepted data longer than one interval; 'none' transmits nothing until Flush or Close; 'immediate'
// cuts every write on its own; a size policy cuts exactly when the buffered payload first exceeds
// the threshold; no chunk is cut empty; State() never invents data.
func zzC20iPoliciesWholeAPI() {
	b := zzNewBroker()
	zzServeStreams(b)
	conn := zzConnect(b)
	tr := b.last()
	ctx := context.Background()
	const iv = 2 * time.Second
	policy := vf.Choose("policy", 5)
	var opt UpstreamOption
	switch policy {
	case 0:
		opt = WithUpstreamFlushPolicyIntervalOnly(iv)
	case 1:
		opt = WithUpstreamFlushPolicyIntervalOrBufferSize(iv, 3)
	case 2:
		opt = WithUpstreamFlushPolicyBufferSizeOnly(3)
	case 3:
		opt = WithUpstreamFlushPolicyImmediately()
	default:
		opt = WithUpstreamFlushPolicyNone()
	}
	up, err := conn.OpenUpstream(ctx, "session", opt)
	vf.Assume(err == nil)
	vf.Settle()
	// first write at an arbitrary moment inside an interval: two payload bytes (below the threshold 3)
	off := time.Duration(vf.Choose("offset.quarters", 4)) * iv / 4 // (quarters, so that a native replay is not within timing slack of a tick)
	vf.Advance(off)
	id := &message.DataID{Name: "n", Type: "t"}
	vf.Assert("write-accepted", up.WriteDataPoints(ctx, id, &message.DataPoint{ElapsedTime: 1, Payload: []byte{1, 2}}) == nil)
	vf.Settle()
	st := up.State()
	sent := len(zzUpstreamChunksOf(tr))
	switch policy {
	case 3:
		vf.Assert("immediate-cuts-every-write", sent == 1 && zzBufferedPoints(st) == 0)
	default:
		vf.Assert("nothing-cut-below-threshold-before-the-tick", sent == 0 && zzBufferedPoints(st) == 1)
	}
	vf.Assert("state-never-invents-data", int(st.TotalDataPoints)+zzBufferedPoints(st) == 1)
	// one interval later
	vf.Advance(iv)
	sent = len(zzUpstreamChunksOf(tr))
	switch policy {
	case 0, 1:
		vf.Assert("interval-policy-holds-data-at-most-one-interval", sent == 1)
	case 2, 4:
		vf.Assert("no-interval-no-cut", sent == 0)
	}
	// second write: two more bytes (4 > 3 with the first one still buffered)
	vf.Assert("write-accepted", up.WriteDataPoints(ctx, id, &message.DataPoint{ElapsedTime: 2, Payload: []byte{3, 4}}) == nil)
	vf.Settle()
	chunks := zzUpstreamChunksOf(tr)
	switch policy {
	case 0:
		vf.Assert("interval-only-ignores-size", len(chunks) == 1)
	case 1:
		vf.Assert("buffer-was-emptied-by-the-tick-so-below-threshold", len(chunks) == 1)
	case 2:
		vf.Assert("size-policy-cuts-when-threshold-first-exceeded", len(chunks) == 1 && zzPointCount(chunks[0]) == 2)
	case 3:
		vf.Assert("immediate-cuts-every-write", len(chunks) == 2)
	case 4:
		vf.Assert("none-transmits-nothing-until-flush", len(chunks) == 0)
	}
	vf.Assert("flush-ok", up.Flush(ctx) == nil)
	vf.Settle()
	chunks = zzUpstreamChunksOf(tr)
	total := 0
	for i, c := range chunks {
		vf.Assert("no-empty-chunk", zzPointCount(c) > 0)
		vf.Assert("numbered-from-one", c.StreamChunk.SequenceNumber == uint32(i+1))
		total += zzPointCount(c)
	}
	st = up.State()
	vf.Assert("after-flush-everything-cut", total == 2 && zzBufferedPoints(st) == 0 && st.TotalDataPoints == 2 && int(st.LastIssuedSequenceNumber) == len(chunks))
	// an idle interval cuts nothing
	vf.Advance(2 * iv)
	vf.Assert("idle-ticks-cut-nothing", len(zzUpstreamChunksOf(tr)) == len(chunks))
	conn.Close(ctx)
	vf.Reach("end")
}

func zzBufferedPoints(st *UpstreamState) int {
	n := 0
	for _, g := range st.DataPointsBuffer {
		n += len(g.DataPoints)
	}
	return n
}

func zzPointCount(c *message.UpstreamChunk) int {
	n := 0
	for _, g := range c.StreamChunk.DataPointGroups {
		n += len(g.DataPoints)
	}
	return n
}

type zzAckLog struct{ got []UpstreamChunkResult }

func (l *zzAckLog) HookAfter(_ uuid.UUID, r UpstreamChunkResult) { l.got = append(l.got, r) }

// C07.d: two reliable upstreams on one connection. Acks are delivered to the stream they address
// only; closing one stream (successfully, or with the broker refusing the close) leaves the other
// stream's unacknowledged chunk stored, its later ack delivered once, its numbering, alias and close
// totals intact.
func zzC07dTwoUpstreams() {
	b := zzNewBroker()
	zzServeStreams(b)
	serve := b.handler
	opened := 0
	closeRefused := vf.Choose("close.of.stream1.refused", 2) == 1
	b.handler = func(t *zzTr, m message.Message) bool {
		switch r := m.(type) {
		case *message.UpstreamOpenRequest:
			opened++
			id := zzStreamID1
			if opened == 2 {
				id = zzStreamID2
			}
			t.in <- zzEncode(&message.UpstreamOpenResponse{RequestID: r.RequestID, AssignedStreamID: id, AssignedStreamIDAlias: uint32(10 * opened), ResultCode: message.ResultCodeSucceeded})
			return true
		case *message.UpstreamCloseRequest:
			if closeRefused && r.StreamID == zzStreamID1 {
				t.in <- zzEncode(&message.UpstreamCloseResponse{RequestID: r.RequestID, ResultCode: message.ResultCodeUnspecifiedError})
				return true
			}
		}
		return serve(t, m)
	}
	conn := zzConnect(b)
	tr := b.last()
	ctx := context.Background()
	log1, log2 := &zzAckLog{}, &zzAckLog{}
	up1, err := conn.OpenUpstream(ctx, "s1", WithUpstreamFlushPolicyNone(), WithUpstreamQoS(message.QoSReliable), WithUpstreamReceiveAckHooker(log1), WithUpstreamCloseTimeout(time.Second))
	vf.Assume(err == nil)
	up2, err := conn.OpenUpstream(ctx, "s2", WithUpstreamFlushPolicyNone(), WithUpstreamQoS(message.QoSReliable), WithUpstreamReceiveAckHooker(log2), WithUpstreamCloseTimeout(time.Second))
	vf.Assume(err == nil)
	vf.Settle()
	vf.Assert("distinct-streams", up1.ID == zzStreamID1 && up2.ID == zzStreamID2)
	p1, p2 := vf.U8("payload1"), vf.U8("payload2")
	id := &message.DataID{Name: "n", Type: "t"}
	vf.Assume(up1.WriteDataPoints(ctx, id, &message.DataPoint{ElapsedTime: 1, Payload: []byte{p1}}) == nil && up1.Flush(ctx) == nil)
	vf.Assume(up2.WriteDataPoints(ctx, id, &message.DataPoint{ElapsedTime: 1, Payload: []byte{p2}}) == nil && up2.Flush(ctx) == nil)
	vf.Settle()
	byAlias := func(a uint32) []*message.UpstreamChunk {
		var out []*message.UpstreamChunk
		for _, c := range zzUpstreamChunksOf(tr) {
			if c.StreamIDAlias == a {
				out = append(out, c)
			}
		}
		return out
	}
	// (the two streams' writers may reach the wire in either order)
	vf.Assert("each-stream-sends-under-its-own-alias", len(zzUpstreamChunksOf(tr)) == 2 && len(byAlias(10)) == 1 && len(byAlias(20)) == 1 &&
		byAlias(10)[0].StreamChunk.SequenceNumber == 1 && byAlias(20)[0].StreamChunk.SequenceNumber == 1 &&
		byAlias(10)[0].StreamChunk.DataPointGroups[0].DataPoints[0].Payload[0] == p1 && byAlias(20)[0].StreamChunk.DataPointGroups[0].DataPoints[0].Payload[0] == p2)
	// the broker acknowledges stream 1 only
	tr.push(&message.UpstreamChunkAck{StreamIDAlias: 10, Results: []*message.UpstreamChunkResult{{SequenceNumber: 1, ResultCode: message.ResultCodeSucceeded, ResultString: "one"}}})
	vf.Settle()
	vf.Assert("ack-reaches-its-stream-only", len(log1.got) == 1 && log1.got[0].SequenceNumber == 1 && log1.got[0].ResultString == "one" && len(log2.got) == 0)
	st2, _ := conn.sentStorage.List(ctx, up2.ID)
	vf.Assert("other-streams-unacked-chunk-still-stored", len(st2) == 1)
	// stream 1 is closed
	cerr := up1.Close(ctx)
	vf.Settle()
	vf.Assert("close-result-as-answered", (cerr == nil) == !closeRefused)
	st2, _ = conn.sentStorage.List(ctx, up2.ID)
	vf.Assert("closing-stream1-leaves-stream2s-store", len(st2) == 1 && len(st2[1]) == 1)
	// a late ack for the closed stream's alias reaches nobody; stream 2's ack reaches stream 2 once
	tr.push(&message.UpstreamChunkAck{StreamIDAlias: 10, Results: []*message.UpstreamChunkResult{{SequenceNumber: 1, ResultCode: message.ResultCodeSucceeded, ResultString: "late"}}})
	tr.push(&message.UpstreamChunkAck{StreamIDAlias: 20, Results: []*message.UpstreamChunkResult{{SequenceNumber: 1, ResultCode: message.ResultCodeSucceeded, ResultString: "two"}}})
	vf.Settle()
	vf.Assert("stream2-gets-its-ack-once", len(log2.got) == 1 && log2.got[0].ResultString == "two" && len(log1.got) == 1)
	st2, _ = conn.sentStorage.List(ctx, up2.ID)
	vf.Assert("acked-chunk-removed-from-its-own-store", len(st2) == 0)
	// stream 2 keeps working: numbering, alias, totals
	vf.Assert("stream2-still-writes", up2.WriteDataPoints(ctx, id, &message.DataPoint{ElapsedTime: 2, Payload: []byte{p1}}) == nil && up2.Flush(ctx) == nil)
	vf.Settle()
	vf.Assert("stream2-continues-its-own-numbering", len(zzUpstreamChunksOf(tr)) == 3 && len(byAlias(20)) == 2 && byAlias(20)[1].StreamChunk.SequenceNumber == 2)
	tr.push(&message.UpstreamChunkAck{StreamIDAlias: 20, Results: []*message.UpstreamChunkResult{{SequenceNumber: 2, ResultCode: message.ResultCodeSucceeded}}})
	vf.Settle()
	vf.Assert("stream2-close-ok", up2.Close(ctx) == nil)
	vf.Settle()
	var close2 *message.UpstreamCloseRequest
	for _, m := range tr.msgs() {
		if r, ok := m.(*message.UpstreamCloseRequest); ok && r.StreamID == zzStreamID2 {
			close2 = r
		}
	}
	vf.Assert("stream2-close-totals-are-its-own", close2 != nil && close2.TotalDataPoints == 2 && close2.FinalSequenceNumber == 2)
	conn.Close(ctx)
	vf.Reach("end")
}

// C08.f: every blocking public call returns by its context deadline when the broker goes silent
// (it keeps answering pings, so keepalive does not intervene), and the connection's dispatching
// keeps running: a later request that the broker does answer still works.
func zzC08fCallsBoundedByContext() {
	b := zzNewBroker()
	zzServeStreams(b)
	serve := b.handler
	silent := false
	b.handler = func(t *zzTr, m message.Message) bool {
		if silent {
			return true
		}
		return serve(t, m)
	}
	conn := zzConnect(b)
	ctx := context.Background()
	up, err := conn.OpenUpstream(ctx, "session", WithUpstreamFlushPolicyNone(), WithUpstreamCloseTimeout(time.Second))
	vf.Assume(err == nil)
	down, err := conn.OpenDownstream(ctx, []*message.DownstreamFilter{{SourceNodeID: "node"}})
	vf.Assume(err == nil)
	vf.Settle()
	silent = true
	dctx, cancel := context.WithTimeout(ctx, time.Second)
	defer cancel()
	var cerr error
	done := false
	op := vf.Choose("call", 11)
	go func() {
		switch op {
		case 0:
			_, cerr = down.ReadDataPoints(dctx)
		case 1:
			_, cerr = down.ReadMetadata(dctx)
		case 2:
			_, cerr = conn.ReceiveCall(dctx)
		case 3:
			_, cerr = conn.ReceiveReplyCall(dctx)
		case 4:
			_, cerr = conn.OpenUpstream(dctx, "s2")
		case 5:
			_, cerr = conn.OpenDownstream(dctx, []*message.DownstreamFilter{{SourceNodeID: "n2"}})
		case 6:
			cerr = conn.SendMetadata(dctx, &message.BaseTime{SessionID: "s", Name: "n"})
		case 7:
			_, cerr = conn.SendCall(dctx, &UpstreamCall{DestinationNodeID: "d", Name: "n", Type: "t"})
		case 8:
			_, cerr = conn.SendCallAndWaitReplayCall(dctx, &UpstreamCall{DestinationNodeID: "d", Name: "n", Type: "t"})
		case 9:
			cerr = down.Close(dctx)
		case 10:
			cerr = up.Close(dctx)
		}
		done = true
	}()
	vf.Settle()
	vf.Assert("blocks-while-the-broker-is-silent", !done)
	vf.Advance(time.Second + 100*time.Millisecond)
	vf.Assert("returns-by-its-context-deadline", done)
	if !done {
		return
	}
	vf.Assert("reports-an-error", cerr != nil)
	vf.Assert("connection-not-given-up", b.dials == 1 && conn.state.Is(connStatusConnected))
	// dispatching keeps running: the broker answers again
	silent = false
	merr := conn.SendMetadata(ctx, &message.BaseTime{SessionID: "session", Name: "after"})
	vf.Assert("later-calls-still-work", merr == nil)
	if op != 10 {
		vf.Assert("other-stream-still-works", up.WriteDataPoints(ctx, &message.DataID{Name: "n", Type: "t"}, &message.DataPoint{ElapsedTime: 1}) == nil && up.Flush(ctx) == nil)
	}
	conn.Close(ctx)
	vf.Reach("end")
}

// C08.g: no head-of-line blocking between callers: while one request waits (without a deadline) for
// a broker that does not answer, a second caller's request still returns by its own deadline, and
// Conn.Close by its.
func zzC08gNoHeadOfLineBlocking() {
	b := zzNewBroker()
	b.handler = func(t *zzTr, m message.Message) bool { return true }
	conn := zzConnect(b)
	pctx, pcancel := context.WithCancel(context.Background())
	defer pcancel()
	call := func(k int, ctx context.Context) error {
		var err error
		switch k {
		case 0:
			_, err = conn.OpenUpstream(ctx, "session")
		case 1:
			_, err = conn.OpenDownstream(ctx, []*message.DownstreamFilter{{SourceNodeID: "n"}})
		case 2:
			err = conn.SendMetadata(ctx, &message.BaseTime{SessionID: "s", Name: "n"})
		case 3:
			_, err = conn.SendCall(ctx, &UpstreamCall{DestinationNodeID: "d", Name: "n", Type: "t"})
		case 4:
			_, err = conn.SendReplyCall(ctx, &UpstreamReplyCall{RequestCallID: "r", DestinationNodeID: "d"})
		}
		return err
	}
	first := vf.Choose("pending.call", 5)
	second := vf.Choose("second.call", 5)
	go call(first, pctx)
	vf.Settle()
	dctx, cancel := context.WithTimeout(context.Background(), time.Second)
	defer cancel()
	var serr error
	done := false
	go func() { serr = call(second, dctx); done = true }()
	vf.Settle()
	vf.Advance(time.Second + 100*time.Millisecond)
	vf.Assert("second-caller-returns-by-its-own-deadline", done && serr != nil)
	cctx, ccancel := context.WithTimeout(context.Background(), time.Second)
	defer ccancel()
	closed := false
	go func() { conn.Close(cctx); closed = true }()
	vf.Settle()
	vf.Advance(time.Second + 100*time.Millisecond)
	vf.Assert("close-returns-by-its-deadline", closed)
	vf.Reach("end")
}

// C03.f: a lagging consumer. The broker sends several chunks before the application reads any of
// them; a chunk that uses an upstream alias (or a data-id alias) the client has not announced is an
// error and is never delivered with the attribution of a *later* chunk's full form; the chunks after
// it are returned in order, correctly resolved.
func zzC03fLaggingConsumer() {
	b := zzNewBroker()
	zzServeStreams(b)
	conn := zzConnect(b)
	tr := b.last()
	ctx := context.Background()
	down, err := conn.OpenDownstream(ctx, []*message.DownstreamFilter{{SourceNodeID: "node"}})
	vf.Assume(err == nil)
	vf.Settle()
	var open *message.DownstreamOpenRequest
	for _, m := range tr.msgs() {
		if r, ok := m.(*message.DownstreamOpenRequest); ok {
			open = r
		}
	}
	vf.Assume(open != nil)
	alias := open.DesiredStreamIDAlias
	info := &message.UpstreamInfo{SessionID: "s", SourceNodeID: "node", StreamID: zzStreamID1}
	idX := &message.DataID{Name: "x", Type: "t"}
	pt := func(b byte) []*message.DataPoint { return []*message.DataPoint{{ElapsedTime: 1, Payload: []byte{b}}} }
	// (concrete representatives: the alias the next full form will receive, another small one, the largest;
	// symbolic values through the byte codec cost minutes here and the step lemma C03.a covers all values)
	badAlias := [...]uint32{1, 2, 0xffffffff}[vf.Choose("unannounced.alias", 3)]
	p1, p2, p3 := byte(11), byte(22), byte(33)
	which := vf.Choose("unannounced", 2) // 0: upstream alias, 1: data-id alias
	// chunk 1 uses an alias nobody announced
	if which == 0 {
		tr.push(&message.DownstreamChunk{StreamIDAlias: alias, UpstreamOrAlias: message.UpstreamAlias(badAlias),
			StreamChunk: &message.StreamChunk{SequenceNumber: 7, DataPointGroups: []*message.DataPointGroup{{DataIDOrAlias: idX, DataPoints: pt(p1)}}}})
	} else {
		tr.push(&message.DownstreamChunk{StreamIDAlias: alias, UpstreamOrAlias: info,
			StreamChunk: &message.StreamChunk{SequenceNumber: 7, DataPointGroups: []*message.DataPointGroup{{DataIDOrAlias: message.DataIDAlias(badAlias), DataPoints: pt(p1)}}}})
	}
	// chunk 2 carries the full forms (which get aliases when it is consumed), chunk 3 as well
	tr.push(&message.DownstreamChunk{StreamIDAlias: alias, UpstreamOrAlias: info,
		StreamChunk: &message.StreamChunk{SequenceNumber: 8, DataPointGroups: []*message.DataPointGroup{{DataIDOrAlias: idX, DataPoints: pt(p2)}}}})
	tr.push(&message.DownstreamChunk{StreamIDAlias: alias, UpstreamOrAlias: info,
		StreamChunk: &message.StreamChunk{SequenceNumber: 9, DataPointGroups: []*message.DataPointGroup{{DataIDOrAlias: idX, DataPoints: pt(p3)}}}})
	vf.Settle() // everything has arrived; the application has read nothing yet
	c1, e1 := down.ReadDataPoints(ctx)
	vf.Assert("unannounced-alias-is-an-error-not-a-misattributed-chunk", e1 != nil && c1 == nil)
	c2, e2 := down.ReadDataPoints(ctx)
	vf.Assert("next-chunk-delivered-in-order", e2 == nil && c2 != nil && c2.SequenceNumber == 8)
	if c2 != nil {
		vf.Assert("resolved-to-its-own-full-forms", c2.UpstreamInfo != nil && *c2.UpstreamInfo == *info && len(c2.DataPointGroups) == 1 &&
			*c2.DataPointGroups[0].DataID == *idX && len(c2.DataPointGroups[0].DataPoints) == 1 && c2.DataPointGroups[0].DataPoints[0].Payload[0] == p2)
	}
	c3, e3 := down.ReadDataPoints(ctx)
	vf.Assert("third-chunk-in-order", e3 == nil && c3 != nil && c3.SequenceNumber == 9 && c3.DataPointGroups[0].DataPoints[0].Payload[0] == p3)
	var e4 error
	blocked := vf.Blocked(func() { _, e4 = down.ReadDataPoints(ctx) })
	vf.Assert("nothing-returned-twice", blocked)
	_ = e4
	conn.Close(ctx)
	vf.Reach("end")
}

// C04.h: the ack write stalls (back-pressured link) while the application keeps reading: a chunk
// consumed while an ack is being written is acknowledged by a later ack, exactly once, and an alias
// first seen in it is announced - nothing falls between two acks.
func zzC04hReadDuringAckWrite() {
	b := zzNewBroker()
	zzServeStreams(b)
	serve := b.handler
	inWrite := make(chan struct{}, 4)
	release := make(chan struct{})
	stalls := 0
	b.handler = func(t *zzTr, m message.Message) bool {
		if _, ok := m.(*message.DownstreamChunkAck); ok && stalls == 0 {
			stalls++
			inWrite <- struct{}{}
			<-release // the write of the first ack does not return until the harness says so
			return true
		}
		return serve(t, m)
	}
	conn := zzConnect(b)
	tr := b.last()
	ctx := context.Background()
	down, err := conn.OpenDownstream(ctx, []*message.DownstreamFilter{{SourceNodeID: "node"}}, WithDownstreamAckFlushInterval(50*time.Millisecond))
	vf.Assume(err == nil)
	vf.Settle()
	var alias uint32
	for _, m := range tr.msgs() {
		if r, ok := m.(*message.DownstreamOpenRequest); ok {
			alias = r.DesiredStreamIDAlias
		}
	}
	upA := &message.UpstreamInfo{SessionID: "sa", SourceNodeID: "node", StreamID: zzStreamID1}
	upB := &message.UpstreamInfo{SessionID: "sb", SourceNodeID: "node", StreamID: zzStreamID2}
	mk := func(seq uint32, up *message.UpstreamInfo, name string) *message.DownstreamChunk {
		return &message.DownstreamChunk{StreamIDAlias: alias, UpstreamOrAlias: up, StreamChunk: &message.StreamChunk{SequenceNumber: seq,
			DataPointGroups: []*message.DataPointGroup{{DataIDOrAlias: &message.DataID{Name: name, Type: "t"}, DataPoints: []*message.DataPoint{{ElapsedTime: 1}}}}}}
	}
	tr.push(mk(1, upA, "x"))
	vf.Settle()
	c1, e1 := down.ReadDataPoints(ctx)
	vf.Assume(e1 == nil && c1 != nil)
	vf.Advance(50 * time.Millisecond) // the ack for chunk 1 is being written ...
	stalled := false
	select {
	case <-inWrite:
		stalled = true
	default:
	}
	vf.Assert("first-ack-being-written", stalled)
	// ... and meanwhile chunk 2 (new upstream, new data id) arrives and is read
	tr.push(mk(2, upB, "y"))
	vf.Settle()
	var c2 *DownstreamChunk
	var e2 error
	read2 := false
	go func() { c2, e2 = down.ReadDataPoints(ctx); read2 = true }()
	vf.Settle()
	close(release)
	vf.Settle()
	vf.Assert("second-chunk-read", read2 && e2 == nil && c2 != nil && c2.SequenceNumber == 2)
	vf.Advance(50 * time.Millisecond)
	vf.Advance(50 * time.Millisecond)
	acked := map[uint32]int{}
	upAnnounced, idAnnounced := 0, 0
	lastID := uint32(0)
	for _, m := range tr.msgs() {
		if a, ok := m.(*message.DownstreamChunkAck); ok {
			vf.Assert("ack-ids-increase-from-1", a.AckID == lastID+1)
			lastID = a.AckID
			for _, r := range a.Results {
				acked[r.SequenceNumberInUpstream]++
			}
			for _, v := range a.UpstreamAliases {
				if *v == *upB {
					upAnnounced++
				}
			}
			for _, v := range a.DataIDAliases {
				if v.Name == "y" {
					idAnnounced++
				}
			}
		}
	}
	vf.Assert("every-consumed-chunk-acked-exactly-once", acked[1] == 1 && acked[2] == 1 && len(acked) == 2)
	vf.Assert("aliases-seen-during-the-write-are-announced-once", upAnnounced == 1 && idAnnounced == 1)
	conn.Close(ctx)
	vf.Reach("end")
}

// C16.g: polling receivers. ReceiveCall / ReceiveReplyCall invoked with a context that is already done
// while calls are queued (both select arms ready - each choice explored) either return a call or an
// error, but never lose one: over all invocations every queued call is handed out exactly once, in
// arrival order.
func zzC16gPollingReceiver() {
	b := zzNewBroker()
	conn := zzConnect(b)
	tr := b.last()
	ctx := context.Background()
	replies := vf.Choose("reply.calls", 2) == 1
	for i := 0; i < 3; i++ {
		c := &message.DownstreamCall{CallID: "c" + string(rune('1'+i)), SourceNodeID: "n", Name: "a", Type: "b"}
		if replies {
			c.RequestCallID = "nobody"
		}
		tr.push(c)
	}
	vf.Settle()
	gone, cancel := context.WithCancel(ctx)
	cancel()
	var got []string
	recv := func(c context.Context) error {
		if replies {
			r, err := conn.ReceiveReplyCall(c)
			if err == nil && r != nil {
				got = append(got, r.CallID)
			}
			return err
		}
		r, err := conn.ReceiveCall(c)
		if err == nil && r != nil {
			got = append(got, r.CallID)
		}
		return err
	}
	polls := 1 + vf.Choose("polls.with.done.context", 2)
	for i := 0; i < polls; i++ {
		recv(gone)
	}
	for len(got) < 3 {
		var err error
		blocked := vf.Blocked(func() { err = recv(ctx) })
		vf.Assert("queued-call-is-still-there", !blocked && err == nil)
		if blocked || err != nil {
			return
		}
	}
	vf.Assert("each-call-once-in-arrival-order", len(got) == 3 && got[0] == "c1" && got[1] == "c2" && got[2] == "c3")
	conn.Close(ctx)
	vf.Reach("end")
}

// C15.d: keepalive end to end through ConnectWithConfig on the virtual clock: the configured
// interval / timeout (sub-second values included; the defaults only when unset) are the ones the
// client runs on and announces (at whole seconds); a broker answering every ping is never given
// up; once it falls silent the connection is declared lost within interval + timeout.
func zzC15dKeepaliveEndToEnd() {
	b := zzNewBroker()
	zzServeStreams(b)
	ev := &zzEvents{}
	conf := b.config()
	conf.DisconnectedEventHandler = ev
	conf.ReconnectedEventHandler = ev
	iv := [...]time.Duration{0, 200 * time.Millisecond, 1500 * time.Millisecond, 3 * time.Second}[vf.Choose("interval", 4)]
	to := [...]time.Duration{0, 100 * time.Millisecond, 2 * time.Second}[vf.Choose("timeout", 3)]
	conf.PingInterval, conf.PingTimeout = iv, to
	conn, err := ConnectWithConfig(conf)
	vf.Assume(err == nil)
	vf.Settle()
	vf.Deviations(zzDeviations)
	effIv, effTo := iv, to
	if iv == 0 {
		effIv = 10 * time.Second
	}
	if to == 0 {
		effTo = time.Second
	}
	var cr *message.ConnectRequest
	for _, m := range b.last().msgs() {
		if r, ok := m.(*message.ConnectRequest); ok {
			cr = r
		}
	}
	vf.Assert("announced-values-are-the-configured-ones-in-whole-seconds", cr != nil && cr.PingInterval == effIv/time.Second*time.Second && cr.PingTimeout == effTo/time.Second*time.Second)
	// a live broker is never given up
	for i := 0; i < 3; i++ {
		vf.Advance(effIv)
	}
	vf.Assert("live-broker-never-dropped", ev.disconnected == 0 && b.dials == 1)
	pingsBefore := 0
	for _, m := range b.last().msgs() {
		if _, ok := m.(*message.Ping); ok {
			pingsBefore++
		}
	}
	vf.Assert("pings-at-the-configured-interval", pingsBefore >= 3 && pingsBefore <= 5)
	// the broker falls silent
	b.autoPong = false
	vf.Advance(effIv + effTo + 50*time.Millisecond)
	vf.Assert("dead-broker-detected-within-interval-plus-timeout", ev.disconnected >= 1 || b.dials >= 2)
	b.autoPong = true
	vf.Advance(time.Second)
	conn.Close(context.Background())
	vf.Reach("end")
}

// C10.g3: goroutine census when traffic keeps arriving during Close: while Conn.Close waits for the
// broker to take its Disconnect, the broker pushes a burst of calls, acks, chunks and metadata (more
// than any dispatch queue holds) that nobody reads any more; once the peer has closed too, no
// goroutine of the library is left.
func zzC10g3BurstDuringClose() {
	b := zzNewBroker()
	zzServeStreams(b)
	serve := b.handler
	taking := make(chan struct{}, 1)
	release := make(chan struct{})
	b.handler = func(t *zzTr, m message.Message) bool {
		if _, ok := m.(*message.Disconnect); ok {
			taking <- struct{}{}
			<-release
			return true
		}
		return serve(t, m)
	}
	conn := zzConnect(b)
	tr := b.last()
	ctx := context.Background()
	down, err := conn.OpenDownstream(ctx, []*message.DownstreamFilter{{SourceNodeID: "node"}})
	vf.Assume(err == nil && down != nil)
	vf.Settle()
	var alias uint32
	for _, m := range tr.msgs() {
		if r, ok := m.(*message.DownstreamOpenRequest); ok {
			alias = r.DesiredStreamIDAlias
		}
	}
	closed := false
	go func() { conn.Close(ctx); closed = true }()
	vf.Settle()
	stalled := false
	select {
	case <-taking:
		stalled = true
	default:
	}
	vf.Assert("close-waits-for-the-disconnect-to-be-taken", stalled && !closed)
	kind := vf.Choose("burst", 4)
	for i := 0; i < 12; i++ {
		switch kind {
		case 0:
			tr.push(&message.DownstreamCall{CallID: "c" + string(rune('a'+i)), SourceNodeID: "n", Name: "a", Type: "b"})
		case 1:
			tr.push(&message.UpstreamCallAck{CallID: "x" + string(rune('a'+i)), ResultCode: message.ResultCodeSucceeded})
		case 2:
			tr.push(&message.DownstreamChunk{StreamIDAlias: alias, UpstreamOrAlias: &message.UpstreamInfo{SessionID: "s", SourceNodeID: "node", StreamID: zzStreamID1}, StreamChunk: &message.StreamChunk{SequenceNumber: uint32(i + 1)}})
		case 3:
			tr.push(&message.DownstreamMetadata{RequestID: message.RequestID(2*i + 1), StreamIDAlias: alias, SourceNodeID: "node", Metadata: &message.BaseTime{Name: "n"}})
		}
	}
	vf.Settle()
	close(release)
	vf.Settle()
	vf.Assert("close-returns", closed)
	tr.Close()
	vf.Settle()
	vf.Advance(30 * time.Second)
	vf.Assert("no-goroutine-left", vf.Leaked() == "")
	vf.Reach("end")
}

// zzSlowStore is a sent storage whose List takes a while (a disk-backed store under load).
type zzSlowStore struct {
	sentStorage
	delay time.Duration
	slow  bool
}

func (s *zzSlowStore) List(ctx context.Context, id uuid.UUID) (map[uint32]DataPointGroups, error) {
	if s.slow {
		time.Sleep(s.delay)
	}
	return s.sentStorage.List(ctx, id)
}

// C08.e2: the bound of Upstream.Close (close timeout / caller's deadline) expires while the drain
// loop is between its "is it over?" check and its wait - inside a slow storage List. The wake-up for
// the expiry must not be lost: Close still returns.
func zzC08e2CloseBoundExpiresDuringList() {
	b := zzNewBroker()
	zzServeStreams(b) // never acknowledges chunks
	store := &zzSlowStore{sentStorage: newInmemSentStorage(), delay: 500 * time.Millisecond}
	conf := b.config()
	conf.sentStorage = store
	n := 0
	randomString = func() string { n++; return "call-" + string(rune('a'+n)) }
	conn, err := ConnectWithConfig(conf)
	vf.Assume(err == nil)
	vf.Settle()
	vf.Deviations(zzDeviations)
	ctx := context.Background()
	up, err := conn.OpenUpstream(ctx, "session", WithUpstreamFlushPolicyNone(), WithUpstreamQoS(message.QoSReliable), WithUpstreamCloseTimeout(200*time.Millisecond))
	vf.Assume(err == nil)
	vf.Settle()
	vf.Assume(up.WriteDataPoints(ctx, &message.DataID{Name: "n", Type: "t"}, &message.DataPoint{ElapsedTime: 1}) == nil && up.Flush(ctx) == nil)
	vf.Settle()
	store.slow = true
	cctx, cancel := ctx, context.CancelFunc(func() {})
	if vf.Choose("caller.deadline.instead", 2) == 1 {
		// the caller's own deadline (100 ms) is the one that expires inside List
		cctx, cancel = context.WithTimeout(ctx, 100*time.Millisecond)
	}
	defer cancel()
	done := false
	go func() { up.Close(cctx); done = true }()
	vf.Settle()
	for i := 0; i < 8 && !done; i++ {
		vf.Advance(250 * time.Millisecond)
	}
	vf.Assert("close-returns-although-its-bound-expired-inside-list", done)
	store.slow = false
	conn.Close(ctx)
	vf.Reach("end")
}

// C02.f: reliable upstream across an outage at an arbitrary position of the chunk stream: three
// chunks are written; the transport dies after the broker has received k of them and acknowledged j
// of those; after the recovery the broker acknowledges what it receives. Every accepted point
// reaches the broker with its payload in the chunk number it was first given, a number never carries
// two different contents, unacknowledged chunks are retransmitted after the resume (under the
// original stream id), and the close request reports what was written.
func zzC02fOutagePositions() {
	b := zzNewBroker()
	zzServeStreams(b)
	serve := b.handler
	type point struct {
		elapsed time.Duration
		pay     byte
	}
	type rec struct {
		conn int
		seq  uint32
		pts  []point
	}
	var received []rec
	ackAfterRecovery := false
	var resumes []*message.UpstreamResumeRequest
	var closeReq *message.UpstreamCloseRequest
	b.handler = func(t *zzTr, m message.Message) bool {
		switch r := m.(type) {
		case *message.UpstreamChunk:
			var pts []point
			for _, g := range r.StreamChunk.DataPointGroups {
				for _, p := range g.DataPoints {
					pay := byte(0)
					if len(p.Payload) == 1 {
						pay = p.Payload[0]
					}
					pts = append(pts, point{p.ElapsedTime, pay})
				}
			}
			received = append(received, rec{b.dials, r.StreamChunk.SequenceNumber, pts})
			if ackAfterRecovery {
				t.in <- zzEncode(&message.UpstreamChunkAck{StreamIDAlias: r.StreamIDAlias, Results: []*message.UpstreamChunkResult{{SequenceNumber: r.StreamChunk.SequenceNumber, ResultCode: message.ResultCodeSucceeded}}})
			}
			return true
		case *message.UpstreamResumeRequest:
			resumes = append(resumes, r)
		case *message.UpstreamCloseRequest:
			closeReq = r
		}
		return serve(t, m)
	}
	ev := &zzEvents{}
	conf := b.config()
	n := 0
	randomString = func() string { n++; return "call-" + string(rune('a'+n)) }
	conn, err := ConnectWithConfig(conf)
	vf.Assume(err == nil)
	vf.Settle()
	vf.Deviations(zzDeviations)
	ctx := context.Background()
	tr1 := b.last()
	k := vf.Choose("received.before.the.outage", 4)
	j := vf.Choose("acked.before.the.outage", 4)
	vf.Assume(j <= k)
	// with an ack timeout configured the library gives up on a chunk whose ack is overdue (by
	// design), so that variant is run only when nothing is overdue at the outage; a chunk that could
	// not even be sent (written during the outage) is not "overdue": it must be kept and resent
	opts := []UpstreamOption{WithUpstreamFlushPolicyNone(), WithUpstreamQoS(message.QoSReliable), WithUpstreamResumedEventHandler(ev), WithUpstreamClosedEventHandler(ev), WithUpstreamCloseTimeout(time.Second)}
	if vf.Choose("ack.timeout.configured", 2) == 1 {
		vf.Assume(j == k)
		opts = append(opts, WithUpstreamAckTimeout(200*time.Millisecond))
	}
	up, err := conn.OpenUpstream(ctx, "session", opts...)
	vf.Assume(err == nil)
	vf.Settle()
	id := &message.DataID{Name: "n", Type: "t"}
	pays := []byte{vf.U8("p1"), vf.U8("p2"), vf.U8("p3")}
	written := 0
	write := func() {
		vf.Assert("write-accepted", up.WriteDataPoints(ctx, id, &message.DataPoint{ElapsedTime: time.Duration(written + 1), Payload: []byte{pays[written]}}) == nil && up.Flush(ctx) == nil)
		written++
		vf.Settle()
	}
	for written < k {
		write()
	}
	for s := 1; s <= j; s++ {
		tr1.push(&message.UpstreamChunkAck{StreamIDAlias: 1, Results: []*message.UpstreamChunkResult{{SequenceNumber: uint32(s), ResultCode: message.ResultCodeSucceeded}}})
	}
	vf.Settle()
	// the transport dies; the remaining points are written during the outage (they may share a chunk) or after it
	tr1.Close()
	vf.Settle()
	ackAfterRecovery = true
	if vf.Choose("rest.written.during.the.outage", 2) == 1 {
		for written < 3 {
			werr := up.WriteDataPoints(ctx, id, &message.DataPoint{ElapsedTime: time.Duration(written + 1), Payload: []byte{pays[written]}})
			vf.Assert("write-accepted-during-outage", werr == nil)
			written++
		}
		go up.Flush(ctx)
		vf.Settle()
	}
	vf.Advance(11 * time.Second)
	vf.Advance(2 * time.Second)
	vf.Assert("recovered", b.dials == 2 && ev.upResumed == 1 && ev.upClosed == 0)
	vf.Assert("resumed-under-the-original-stream-id", len(resumes) == 1 && resumes[0].StreamID == up.ID)
	for written < 3 {
		write()
	}
	vf.Settle()
	cerr := up.Close(ctx)
	vf.Settle()
	vf.Assert("close-ok", cerr == nil)
	// a sequence number never carries two different contents
	maxSeq := uint32(0)
	for i, r := range received {
		if r.seq > maxSeq {
			maxSeq = r.seq
		}
		for _, q := range received[:i] {
			if q.seq == r.seq {
				same := len(q.pts) == len(r.pts)
				for x := 0; same && x < len(r.pts); x++ {
					same = q.pts[x] == r.pts[x]
				}
				vf.Assert("a-sequence-number-always-carries-the-same-content", same)
			}
		}
	}
	// every accepted point reached the broker with its payload
	for i := 0; i < 3; i++ {
		got := false
		for _, r := range received {
			for _, p := range r.pts {
				if p.elapsed == time.Duration(i+1) {
					vf.Assert("payload-intact", p.pay == pays[i])
					got = true
				}
			}
		}
		vf.Assert("every-accepted-point-reached-the-broker", got)
	}
	// chunks received but not acknowledged before the outage come again, once, on the new connection
	for s := j + 1; s <= k; s++ {
		again := 0
		for _, r := range received {
			if r.seq == uint32(s) && r.conn == 2 {
				again++
			}
		}
		vf.Assert("unacknowledged-chunk-retransmitted-after-resume", again == 1)
	}
	vf.Assert("numbers-without-gaps", maxSeq >= 1 && maxSeq <= 3)
	vf.Assert("close-totals-equal-what-was-written", closeReq != nil && closeReq.TotalDataPoints == 3 && closeReq.FinalSequenceNumber == maxSeq)
	conn.Close(ctx)
	vf.Reach("end")
}

func zzC02fOutagePositionsDev1() { zzDeviations = 1; zzC02fOutagePositions() }

// C05.g: two outages in a row, with a consumed but not yet acknowledged downstream chunk at the
// first one: each outage is survived (fresh token per dial, both streams resumed under their original
// ids, notifications once per outage), the pending acknowledgement goes out exactly once after the
// recovery with a continuing ack id, and both streams work after the second recovery.
func zzC05gTwoOutages() {
	b := zzNewBroker()
	zzServeStreams(b)
	ev := &zzEvents{}
	conf := b.config()
	conf.DisconnectedEventHandler = ev
	conf.ReconnectedEventHandler = ev
	n := 0
	randomString = func() string { n++; return "call-" + string(rune('a'+n)) }
	conn, err := ConnectWithConfig(conf)
	vf.Assume(err == nil)
	vf.Settle()
	vf.Deviations(zzDeviations)
	ctx := context.Background()
	up, err := conn.OpenUpstream(ctx, "session", WithUpstreamFlushPolicyNone(), WithUpstreamQoS(message.QoSReliable), WithUpstreamResumedEventHandler(ev), WithUpstreamClosedEventHandler(ev))
	vf.Assume(err == nil)
	down, err := conn.OpenDownstream(ctx, []*message.DownstreamFilter{{SourceNodeID: "node"}}, WithDownstreamResumedEventHandler(ev), WithDownstreamClosedEventHandler(ev), WithDownstreamAckFlushInterval(time.Hour))
	vf.Assume(err == nil)
	vf.Settle()
	tr1 := b.last()
	var openDown *message.DownstreamOpenRequest
	for _, m := range tr1.msgs() {
		if r, ok := m.(*message.DownstreamOpenRequest); ok {
			openDown = r
		}
	}
	vf.Assume(openDown != nil)
	alias := openDown.DesiredStreamIDAlias
	info := &message.UpstreamInfo{SessionID: "s", SourceNodeID: "node", StreamID: zzStreamID1}
	chunk := func(seq uint32) *message.DownstreamChunk {
		return &message.DownstreamChunk{StreamIDAlias: alias, UpstreamOrAlias: info, StreamChunk: &message.StreamChunk{SequenceNumber: seq,
			DataPointGroups: []*message.DataPointGroup{{DataIDOrAlias: &message.DataID{Name: "x", Type: "t"}, DataPoints: []*message.DataPoint{{ElapsedTime: 1}}}}}}
	}
	// a chunk is consumed; its acknowledgement is still pending (flush interval 1 h) when the transport dies
	tr1.push(chunk(1))
	vf.Settle()
	c1, e1 := down.ReadDataPoints(ctx)
	vf.Assume(e1 == nil && c1 != nil)
	id := &message.DataID{Name: "n", Type: "t"}
	outage := func(k int) *zzTr {
		b.last().Close()
		vf.Settle()
		vf.Advance(11 * time.Second)
		vf.Advance(2 * time.Second)
		vf.Assert("recovered", b.dials == k+1 && b.tokens == k+1 && conn.state.Is(connStatusConnected))
		vf.Assert("notifications-once-per-outage", ev.disconnected == k && ev.reconnected == k && ev.upResumed == k && ev.downResumed == k && ev.upClosed == 0 && ev.downClosed == 0)
		t := b.last()
		nu, nd := 0, 0
		for _, m := range t.msgs() {
			switch r := m.(type) {
			case *message.UpstreamResumeRequest:
				if r.StreamID == up.ID {
					nu++
				}
			case *message.DownstreamResumeRequest:
				if r.StreamID == down.ID && r.DesiredStreamIDAlias == alias {
					nd++
				}
			}
		}
		vf.Assert("both-streams-resumed-under-their-original-ids", nu == 1 && nd == 1)
		return t
	}
	tr2 := outage(1)
	// streams work between the outages
	vf.Assert("upstream-works", up.WriteDataPoints(ctx, id, &message.DataPoint{ElapsedTime: 1}) == nil && up.Flush(ctx) == nil)
	tr2.push(chunk(2))
	vf.Settle()
	c2, e2 := down.ReadDataPoints(ctx)
	vf.Assert("downstream-works", e2 == nil && c2 != nil && c2.SequenceNumber == 2)
	tr3 := outage(2)
	vf.Assert("upstream-works", up.WriteDataPoints(ctx, id, &message.DataPoint{ElapsedTime: 2}) == nil && up.Flush(ctx) == nil)
	tr3.push(chunk(3))
	vf.Settle()
	c3, e3 := down.ReadDataPoints(ctx)
	vf.Assert("downstream-works", e3 == nil && c3 != nil && c3.SequenceNumber == 3)
	// closing the downstream flushes the pending acknowledgements: every consumed chunk exactly once, ack ids from 1
	vf.Assert("downstream-close-ok", down.Close(ctx) == nil)
	vf.Settle()
	acked := map[uint32]int{}
	last := uint32(0)
	for _, t := range b.trs {
		for _, m := range t.msgs() {
			if a, ok := m.(*message.DownstreamChunkAck); ok {
				vf.Assert("ack-ids-increase-strictly-across-outages", a.AckID > last)
				last = a.AckID
				for _, r := range a.Results {
					acked[r.SequenceNumberInUpstream]++
				}
			}
		}
	}
	vf.Assert("every-consumed-chunk-acknowledged-exactly-once", acked[1] == 1 && acked[2] == 1 && acked[3] == 1 && len(acked) == 3)
	conn.Close(ctx)
	vf.Reach("end")
}

func zzC05gTwoOutagesDev1() { zzDeviations = 1; zzC05gTwoOutages() }

// delay-bounded twins (generated list)
func zzC15dKeepaliveEndToEndDev1() { zzDeviations = 1; zzC15dKeepaliveEndToEnd() }
func zzC10aConnGuardsDev1() { zzDeviations = 1; zzC10aConnGuards() }
func zzC16ReceiveDev1() { zzDeviations = 1; zzC16Receive() }
func zzC03cMetadataOrderDev1() { zzDeviations = 1; zzC03cMetadataOrder() }
func zzC10pPendingAtCloseDev1() { zzDeviations = 1; zzC10pPendingAtClose() }
func zzC08cCloseBoundedDev1() { zzDeviations = 1; zzC08cCloseBounded() }
func zzC08eUpstreamCloseBoundedDev1() { zzDeviations = 1; zzC08eUpstreamCloseBounded() }
func zzC08e2CloseBoundExpiresDuringListDev1() { zzDeviations = 1; zzC08e2CloseBoundExpiresDuringList() }
func zzC08fCallsBoundedByContextDev1() { zzDeviations = 1; zzC08fCallsBoundedByContext() }
func zzC08gNoHeadOfLineBlockingDev1() { zzDeviations = 1; zzC08gNoHeadOfLineBlocking() }
func zzC16eAbandonedCallDev1() { zzDeviations = 1; zzC16eAbandonedCall() }
func zzC16fInboxFullDev1() { zzDeviations = 1; zzC16fInboxFull() }
func zzC16gPollingReceiverDev1() { zzDeviations = 1; zzC16gPollingReceiver() }
func zzC20iPoliciesWholeAPIDev1() { zzDeviations = 1; zzC20iPoliciesWholeAPI() }
func zzC04eDownstreamLifeDev1() { zzDeviations = 1; zzC04eDownstreamLife() }
func zzC04hReadDuringAckWriteDev1() { zzDeviations = 1; zzC04hReadDuringAckWrite() }
func zzC03ePreregisteredDev1() { zzDeviations = 1; zzC03ePreregistered() }
func zzC03fLaggingConsumerDev1() { zzDeviations = 1; zzC03fLaggingConsumer() }
func zzC10g2NoGoroutineLeftAfterOutageDev1() { zzDeviations = 1; zzC10g2NoGoroutineLeftAfterOutage() }
func zzC10g3BurstDuringCloseDev1() { zzDeviations = 1; zzC10g3BurstDuringClose() }

// C10.g4: goroutine census when Close arrives during an outage: the transport died, the redials
// keep failing, streams of both directions are open and wait to be resumed; Conn.Close ends the
// recovery and afterwards no goroutine of the library is left, and nothing dials any more.
func zzC10g4CloseDuringOutage() {
	b := zzNewBroker()
	zzServeStreams(b)
	ev := &zzEvents{}
	conf := b.config()
	n := 0
	randomString = func() string { n++; return "call-" + string(rune('a'+n)) }
	conn, err := ConnectWithConfig(conf)
	vf.Assume(err == nil)
	vf.Settle()
	vf.Deviations(zzDeviations)
	ctx := context.Background()
	which := vf.Choose("open.streams", 4) // bit 0: upstream, bit 1: downstream
	if which&1 != 0 {
		_, err = conn.OpenUpstream(ctx, "session", WithUpstreamFlushPolicyNone(), WithUpstreamClosedEventHandler(ev), WithUpstreamCloseTimeout(time.Second))
		vf.Assume(err == nil)
	}
	if which&2 != 0 {
		_, err = conn.OpenDownstream(ctx, []*message.DownstreamFilter{{SourceNodeID: "node"}}, WithDownstreamClosedEventHandler(ev))
		vf.Assume(err == nil)
	}
	vf.Settle()
	// every redial fails from now on
	b.maxDials = 1000
	dialErr := fmt.Errorf("network unreachable")
	for i := 0; i < 64; i++ {
		b.dialErrs = append(b.dialErrs, dialErr)
	}
	b.dialErrs[0] = nil
	b.last().Close()
	vf.Settle()
	vf.Advance(11 * time.Second)
	vf.Advance(2 * time.Second)
	vf.Assert("recovery-in-progress", b.dials >= 2 && !conn.state.Is(connStatusConnected))
	cctx, cancel := context.WithTimeout(ctx, 5*time.Second)
	var cerr error
	closed := false
	go func() { cerr = conn.Close(cctx); closed = true }()
	vf.Settle()
	for i := 0; i < 8 && !closed; i++ {
		vf.Advance(time.Second)
	}
	cancel()
	vf.Assert("close-returns", closed)
	_ = cerr
	dials := b.dials
	vf.Advance(60 * time.Second)
	vf.Assert("nothing-dials-after-close", b.dials == dials)
	vf.Assert("no-goroutine-left", vf.Leaked() == "")
	vf.Reach("end")
}

type zzSlowHooks struct {
	zzHooks
	delay time.Duration
}

func (h *zzSlowHooks) HookAfter(id uuid.UUID, r UpstreamChunkResult) {
	time.Sleep(h.delay)
	h.zzHooks.HookAfter(id, r)
}

// C01.h: slow hooks. The application's ack hook takes a while per call, so callbacks queue up behind
// it while the stream is closed; every acknowledged chunk is still reported to the ack hook exactly
// once with the broker's code, and every chunk to the send hook once, nothing is dropped at Close.
func zzC01hSlowHooks() {
	b := zzNewBroker()
	zzServeStreams(b)
	base := b.handler
	b.handler = func(t *zzTr, m message.Message) bool {
		if r, ok := m.(*message.UpstreamChunk); ok {
			t.in <- zzEncode(&message.UpstreamChunkAck{StreamIDAlias: r.StreamIDAlias, Results: []*message.UpstreamChunkResult{{SequenceNumber: r.StreamChunk.SequenceNumber, ResultCode: message.ResultCodeSucceeded, ResultString: "ok"}}})
			return true
		}
		return base(t, m)
	}
	conn := zzConnect(b)
	ctx := context.Background()
	hooks := &zzSlowHooks{delay: 50 * time.Millisecond}
	up, err := conn.OpenUpstream(ctx, "session", WithUpstreamFlushPolicyImmediately(), WithUpstreamQoS(message.QoSReliable),
		WithUpstreamReceiveAckHooker(hooks), WithUpstreamSendDataPointsHooker(hooks), WithUpstreamCloseTimeout(time.Second))
	vf.Assume(err == nil)
	vf.Settle()
	n := 2 + vf.Choose("chunks", 3)
	id := &message.DataID{Name: "n", Type: "t"}
	for i := 0; i < n; i++ {
		vf.Assert("write-accepted", up.WriteDataPoints(ctx, id, &message.DataPoint{ElapsedTime: time.Duration(i + 1)}) == nil)
	}
	// Close right away: the acks arrive at once, the hook calls pile up behind the slow first one
	closed := false
	var cerr error
	go func() { cerr = up.Close(ctx); closed = true }()
	for i := 0; i < 40 && !closed; i++ {
		vf.Advance(50 * time.Millisecond)
	}
	vf.Assert("close-ok", closed && cerr == nil)
	vf.Advance(2 * time.Second) // the hooks may finish after Close; they must not be dropped
	vf.Assert("every-result-reported-to-the-ack-hook-once", len(hooks.acked) == n)
	for i, r := range hooks.acked {
		vf.Assert("results-in-order-with-the-brokers-code", r.SequenceNumber == uint32(i+1) && r.ResultCode == message.ResultCodeSucceeded && r.ResultString == "ok")
	}
	vf.Assert("every-chunk-announced-to-the-send-hook-once", len(hooks.sent) == n)
	conn.Close(ctx)
	vf.Reach("end")
}

// C03.g: several upstreams first seen within one ack interval: the client announces one alias per
// upstream in a single ack, and what the broker decodes from that ack is, alias by alias, exactly
// the upstream info the client then resolves that alias to.
func zzC03gTwoUpstreamsOneAck() {
	b := zzNewBroker()
	zzServeStreams(b)
	conn := zzConnect(b)
	tr := b.last()
	ctx := context.Background()
	down, err := conn.OpenDownstream(ctx, []*message.DownstreamFilter{{SourceNodeID: "node"}}, WithDownstreamAckFlushInterval(50*time.Millisecond))
	vf.Assume(err == nil)
	vf.Settle()
	var alias uint32
	for _, m := range tr.msgs() {
		if r, ok := m.(*message.DownstreamOpenRequest); ok {
			alias = r.DesiredStreamIDAlias
		}
	}
	n := 2 + vf.Choose("upstreams", 2)
	infos := []*message.UpstreamInfo{
		{SessionID: "sa", SourceNodeID: "node", StreamID: uuid.UUID{0xaa, 1}},
		{SessionID: "sb", SourceNodeID: "node", StreamID: uuid.UUID{0xbb, 2}},
		{SessionID: "sc", SourceNodeID: "node", StreamID: uuid.UUID{0xcc, 3}},
	}[:n]
	for i, in := range infos {
		tr.push(&message.DownstreamChunk{StreamIDAlias: alias, UpstreamOrAlias: in, StreamChunk: &message.StreamChunk{SequenceNumber: uint32(i + 1),
			DataPointGroups: []*message.DataPointGroup{{DataIDOrAlias: &message.DataID{Name: "x", Type: "t"}, DataPoints: []*message.DataPoint{{ElapsedTime: 1}}}}}})
	}
	vf.Settle()
	for i := range infos {
		c, e := down.ReadDataPoints(ctx)
		vf.Assert("full-form-chunk-read", e == nil && c != nil && *c.UpstreamInfo == *infos[i])
	}
	vf.Advance(50 * time.Millisecond)
	announced := map[uint32]message.UpstreamInfo{}
	for _, m := range tr.msgs() {
		if a, ok := m.(*message.DownstreamChunkAck); ok {
			for k, v := range a.UpstreamAliases {
				_, dup := announced[k]
				vf.Assert("an-alias-is-announced-once", !dup)
				announced[k] = *v
			}
		}
	}
	vf.Assert("one-alias-per-upstream-announced", len(announced) == n)
	for _, in := range infos {
		cnt := 0
		for _, v := range announced {
			if v == *in {
				cnt++
			}
		}
		vf.Assert("each-upstream-announced-as-itself-exactly-once", cnt == 1)
	}
	// the broker now uses the aliases: each resolves to what was announced for it
	seq := uint32(10)
	for a, want := range announced {
		tr.push(&message.DownstreamChunk{StreamIDAlias: alias, UpstreamOrAlias: message.UpstreamAlias(a), StreamChunk: &message.StreamChunk{SequenceNumber: seq,
			DataPointGroups: []*message.DataPointGroup{{DataIDOrAlias: &message.DataID{Name: "x", Type: "t"}, DataPoints: []*message.DataPoint{{ElapsedTime: 2}}}}}})
		vf.Settle()
		c, e := down.ReadDataPoints(ctx)
		vf.Assert("alias-resolves-to-the-announced-upstream", e == nil && c != nil && c.SequenceNumber == seq && *c.UpstreamInfo == want)
		seq++
	}
	conn.Close(ctx)
	vf.Reach("end")
}

// C07.e: one stream's failing request leaves its siblings alone: an open (or metadata / call)
// request that runs into its caller's deadline because the broker does not answer it must not
// redial the shared connection, resume, clear or retransmit anything of the stream that is already
// open on it.
func zzC07eFailedRequestLeavesSiblingsAlone() {
	b := zzNewBroker()
	zzServeStreams(b)
	serve := b.handler
	silentFor := vf.Choose("request.that.times.out", 4)
	b.handler = func(t *zzTr, m message.Message) bool {
		switch r := m.(type) {
		case *message.UpstreamOpenRequest:
			if silentFor == 0 && r.SessionID == "second" {
				return true
			}
		case *message.DownstreamOpenRequest:
			if silentFor == 1 {
				return true
			}
		case *message.UpstreamMetadata:
			if silentFor == 2 {
				return true
			}
		case *message.UpstreamCall:
			if silentFor == 3 {
				return true
			}
		}
		return serve(t, m)
	}
	ev := &zzEvents{}
	conf := b.config()
	conf.DisconnectedEventHandler = ev
	conf.ReconnectedEventHandler = ev
	n := 0
	randomString = func() string { n++; return "call-" + string(rune('a'+n)) }
	conn, err := ConnectWithConfig(conf)
	vf.Assume(err == nil)
	vf.Settle()
	vf.Deviations(zzDeviations)
	ctx := context.Background()
	tr := b.last()
	qos := message.QoSUnreliable
	if vf.Choose("sibling.reliable", 2) == 1 {
		qos = message.QoSReliable
	}
	a, err := conn.OpenUpstream(ctx, "first", WithUpstreamFlushPolicyNone(), WithUpstreamQoS(qos), WithUpstreamResumedEventHandler(ev), WithUpstreamClosedEventHandler(ev))
	vf.Assume(err == nil)
	vf.Settle()
	id := &message.DataID{Name: "n", Type: "t"}
	vf.Assume(a.WriteDataPoints(ctx, id, &message.DataPoint{ElapsedTime: 1}) == nil && a.Flush(ctx) == nil)
	vf.Settle()
	before, _ := conn.sentStorage.List(ctx, a.ID)
	vf.Assume(len(before) == 1)
	chunksBefore := len(zzUpstreamChunksOf(tr))
	dctx, cancel := context.WithTimeout(ctx, 100*time.Millisecond)
	defer cancel()
	var rerr error
	done := false
	go func() {
		switch silentFor {
		case 0:
			_, rerr = conn.OpenUpstream(dctx, "second")
		case 1:
			_, rerr = conn.OpenDownstream(dctx, []*message.DownstreamFilter{{SourceNodeID: "n"}})
		case 2:
			rerr = conn.SendMetadata(dctx, &message.BaseTime{SessionID: "s", Name: "n"})
		case 3:
			_, rerr = conn.SendCall(dctx, &UpstreamCall{DestinationNodeID: "d", Name: "n", Type: "t"})
		}
		done = true
	}()
	vf.Settle()
	vf.Advance(150 * time.Millisecond)
	vf.Advance(2 * time.Second)
	vf.Assert("failing-request-returns-an-error", done && rerr != nil)
	vf.Assert("shared-connection-not-redialled", b.dials == 1 && ev.disconnected == 0 && ev.reconnected == 0 && conn.state.Is(connStatusConnected))
	vf.Assert("sibling-not-resumed-or-closed", ev.upResumed == 0 && ev.upClosed == 0)
	after, _ := conn.sentStorage.List(ctx, a.ID)
	vf.Assert("sibling-store-untouched", len(after) == 1)
	vf.Assert("sibling-retransmits-nothing", len(zzUpstreamChunksOf(b.last())) == chunksBefore && b.last() == tr)
	vf.Assert("sibling-still-works", a.WriteDataPoints(ctx, id, &message.DataPoint{ElapsedTime: 2}) == nil && a.Flush(ctx) == nil)
	conn.Close(ctx)
	vf.Reach("end")
}

// C16.h: a reconnect between a call and its ack: the transport dies after the broker has taken the
// call; the connection recovers on its own; the broker's ack (and, for SendCallAndWaitReplayCall, the
// reply) arrive on the new connection: the caller gets exactly them - not a connection error from a
// connection that was never closed by the application.
func zzC16hReconnectBetweenCallAndAck() {
	b := zzNewBroker()
	b.handler = func(t *zzTr, m message.Message) bool { return true } // the scenario answers by hand
	conf := b.config()
	n := 0
	randomString = func() string { n++; return "call-" + string(rune('a'+n)) }
	conn, err := ConnectWithConfig(conf)
	vf.Assume(err == nil)
	vf.Settle()
	vf.Deviations(zzDeviations)
	ctx := context.Background()
	tr1 := b.last()
	waitReply := vf.Choose("wait.for.reply", 2) == 1
	var id string
	var reply *DownstreamReplyCall
	var cerr error
	done := false
	go func() {
		if waitReply {
			reply, cerr = conn.SendCallAndWaitReplayCall(ctx, &UpstreamCall{DestinationNodeID: "dst", Name: "n", Type: "t"})
		} else {
			id, cerr = conn.SendCall(ctx, &UpstreamCall{DestinationNodeID: "dst", Name: "n", Type: "t"})
		}
		done = true
	}()
	vf.Settle()
	calls := zzCallsOf(tr1)
	vf.Assume(len(calls) == 1 && !done)
	callID := calls[0].CallID
	// the transport dies before the ack; keepalive notices; the connection recovers
	tr1.Close()
	vf.Settle()
	vf.Advance(11 * time.Second)
	vf.Advance(2 * time.Second)
	vf.Assert("recovered", b.dials == 2 && conn.state.Is(connStatusConnected))
	tr2 := b.last()
	vf.Assert("caller-still-waiting-not-failed", !done)
	tr2.push(&message.UpstreamCallAck{CallID: callID, ResultCode: message.ResultCodeSucceeded})
	if waitReply {
		tr2.push(&message.DownstreamCall{CallID: "r1", RequestCallID: callID, SourceNodeID: "dst", Name: "rn", Type: "rt"})
	}
	vf.Settle()
	vf.Assert("caller-gets-the-ack-that-arrived-after-the-reconnect", done && cerr == nil)
	if done && cerr == nil {
		if waitReply {
			vf.Assert("reply-is-for-this-call", reply != nil && reply.RequestCallID == callID && reply.CallID == "r1")
		} else {
			vf.Assert("ack-is-for-this-call", id == callID)
		}
	}
	conn.Close(ctx)
	vf.Reach("end")
}

// C08.h: Conn.Close during a redial whose connect handshake the broker never completes (it accepts
// the transport and stays silent): Close returns by its context deadline, and once it has returned
// nothing of the connection survives the end of that handshake.
func zzC08hCloseDuringSilentHandshake() {
	b := zzNewBroker()
	zzServeStreams(b)
	b.muteFrom = 1 // the first connection works, every later one is accepted and then ignored
	conf := b.config()
	n := 0
	randomString = func() string { n++; return "call-" + string(rune('a'+n)) }
	conn, err := ConnectWithConfig(conf)
	vf.Assume(err == nil)
	vf.Settle()
	vf.Deviations(zzDeviations)
	ctx := context.Background()
	b.last().Close()
	vf.Settle()
	vf.Advance(11 * time.Second)
	vf.Advance(2 * time.Second)
	vf.Assert("redial-in-progress", b.dials == 2 && !conn.state.Is(connStatusConnected))
	cctx, cancel := context.WithTimeout(ctx, time.Second)
	defer cancel()
	closed := false
	go func() { conn.Close(cctx); closed = true }()
	vf.Settle()
	vf.Advance(time.Second + 100*time.Millisecond)
	vf.Assert("close-returns-by-its-context-deadline", closed)
	// the stuck handshake ends (the broker goes away): whatever it had built is torn down
	b.last().Close()
	vf.Settle()
	vf.Advance(30 * time.Second)
	vf.Assert("nothing-dials-after-close", b.dials == 2)
	vf.Assert("no-goroutine-left", vf.Leaked() == "")
	vf.Reach("end")
}

// C07.f: streams opened with the default options (they all start from the same default configuration)
// keep their own flush timing: closing, or resuming, one of them never stops or delays the interval
// flushes of the others.
func zzC07fDefaultPolicyStreamsIndependent() {
	b := zzNewBroker()
	zzServeStreams(b)
	serve := b.handler
	opened := 0
	b.handler = func(t *zzTr, m message.Message) bool {
		if r, ok := m.(*message.UpstreamOpenRequest); ok {
			opened++
			id := zzStreamID1
			if opened == 2 {
				id = zzStreamID2
			}
			t.in <- zzEncode(&message.UpstreamOpenResponse{RequestID: r.RequestID, AssignedStreamID: id, AssignedStreamIDAlias: uint32(10 * opened), ResultCode: message.ResultCodeSucceeded})
			return true
		}
		return serve(t, m)
	}
	conn := zzConnect(b)
	tr := b.last()
	ctx := context.Background()
	a, err := conn.OpenUpstream(ctx, "first")
	vf.Assume(err == nil)
	bb, err := conn.OpenUpstream(ctx, "second")
	vf.Assume(err == nil)
	vf.Settle()
	id := &message.DataID{Name: "n", Type: "t"}
	chunksOf := func(alias uint32) int {
		n := 0
		for _, c := range zzUpstreamChunksOf(tr) {
			if c.StreamIDAlias == alias {
				n++
			}
		}
		return n
	}
	const iv = 100 * time.Millisecond // the default flush interval
	vf.Assert("write-accepted", a.WriteDataPoints(ctx, id, &message.DataPoint{ElapsedTime: 1}) == nil && bb.WriteDataPoints(ctx, id, &message.DataPoint{ElapsedTime: 1}) == nil)
	vf.Advance(iv)
	vf.Advance(iv)
	vf.Assert("both-streams-flush-on-their-interval", chunksOf(10) == 1 && chunksOf(20) == 1)
	// stream A goes away (or is merely written to): stream B's timing is its own
	switch vf.Choose("event.on.the.other.stream", 2) {
	case 0:
		// (its chunk is never acknowledged: Close gives up at the caller's deadline)
		cctx, cancel := context.WithTimeout(ctx, time.Second)
		closed := false
		go func() { a.Close(cctx); closed = true }()
		vf.Settle()
		vf.Advance(time.Second + 100*time.Millisecond)
		cancel()
		vf.Assume(closed)
	case 1:
		a.WriteDataPoints(ctx, id, &message.DataPoint{ElapsedTime: 2})
	}
	vf.Settle()
	before := chunksOf(20)
	vf.Assert("write-accepted", bb.WriteDataPoints(ctx, id, &message.DataPoint{ElapsedTime: 2}) == nil)
	vf.Advance(iv)
	vf.Advance(iv)
	vf.Assert("the-other-stream-still-flushes-within-its-interval", chunksOf(20) == before+1)
	conn.Close(ctx)
	vf.Reach("end")
}

// C08.i: calls that wait for the connection to come back (issued during an outage, with a context
// that has no deadline) are released by Conn.Close: they return the connection-closed error instead
// of waiting for a reconnect that will never happen.
func zzC08iCloseReleasesWaitingCalls() {
	b := zzNewBroker()
	zzServeStreams(b)
	b.maxDials = 1000
	conf := b.config()
	n := 0
	randomString = func() string { n++; return "call-" + string(rune('a'+n)) }
	conn, err := ConnectWithConfig(conf)
	vf.Assume(err == nil)
	vf.Settle()
	vf.Deviations(zzDeviations)
	ctx := context.Background()
	dialErr := fmt.Errorf("network unreachable")
	b.dialErrs = append(b.dialErrs, nil)
	for i := 0; i < 64; i++ {
		b.dialErrs = append(b.dialErrs, dialErr)
	}
	b.last().Close()
	vf.Settle()
	vf.Advance(11 * time.Second)
	vf.Advance(2 * time.Second)
	vf.Assume(b.dials >= 2 && !conn.state.Is(connStatusConnected))
	var cerr error
	done := false
	op := vf.Choose("waiting.call", 5)
	go func() {
		switch op {
		case 0:
			cerr = conn.SendMetadata(ctx, &message.BaseTime{SessionID: "s", Name: "n"})
		case 1:
			_, cerr = conn.OpenUpstream(ctx, "s2")
		case 2:
			_, cerr = conn.OpenDownstream(ctx, []*message.DownstreamFilter{{SourceNodeID: "n"}})
		case 3:
			_, cerr = conn.SendCall(ctx, &UpstreamCall{DestinationNodeID: "d", Name: "n", Type: "t"})
		case 4:
			_, cerr = conn.SendCallAndWaitReplayCall(ctx, &UpstreamCall{DestinationNodeID: "d", Name: "n", Type: "t"})
		}
		done = true
	}()
	vf.Settle()
	vf.Assert("call-waits-for-the-connection", !done)
	cctx, cancel := context.WithTimeout(ctx, 5*time.Second)
	closed := false
	go func() { conn.Close(cctx); closed = true }()
	vf.Settle()
	for i := 0; i < 8 && !(closed && done); i++ {
		vf.Advance(time.Second)
	}
	cancel()
	vf.Assert("close-returns", closed)
	vf.Assert("waiting-call-released-with-the-closed-error", done && zzIsClosedErr(cerr))
	vf.Advance(30 * time.Second)
	vf.Assert("no-goroutine-left", vf.Leaked() == "")
	vf.Reach("end")
}

// C10.h: the application closes a stream while that stream's resume request is still unanswered
// (half-finished resume), the broker then answers both requests - resume accepted or refused,
// before or after the close response: the stream's Close returns, its closed notification fires
// exactly once, calls on the stream fail with the stream-closed
// error afterwards, and after Conn.Close no goroutine is left.
func zzC10hCloseDuringResume() {
	b := zzNewBroker()
	zzServeStreams(b)
	serve := b.handler
	which := vf.Choose("stream", 2)                // 0 upstream, 1 downstream
	resumeRefused := vf.Choose("resume.refused", 2) == 1
	resumeFirst := vf.Choose("resume.answered.first", 2) == 1
	lifo := vf.Choose("close.requests.answered.newest.first", 2) == 1
	var heldResume func()
	var heldCloses []func() // every close request is held; the scenario decides when each is answered
	b.handler = func(t *zzTr, m message.Message) bool {
		rc := message.ResultCodeSucceeded
		if resumeRefused {
			rc = message.ResultCodeStreamNotFound
		}
		switch r := m.(type) {
		case *message.UpstreamResumeRequest:
			heldResume = func() { t.in <- zzEncode(&message.UpstreamResumeResponse{RequestID: r.RequestID, AssignedStreamIDAlias: 9, ResultCode: rc}) }
			return true
		case *message.DownstreamResumeRequest:
			heldResume = func() { t.in <- zzEncode(&message.DownstreamResumeResponse{RequestID: r.RequestID, ResultCode: rc}) }
			return true
		case *message.UpstreamCloseRequest:
			heldCloses = append(heldCloses, func() { t.in <- zzEncode(&message.UpstreamCloseResponse{RequestID: r.RequestID, ResultCode: message.ResultCodeSucceeded}) })
			return true
		case *message.DownstreamCloseRequest:
			heldCloses = append(heldCloses, func() { t.in <- zzEncode(&message.DownstreamCloseResponse{RequestID: r.RequestID, ResultCode: message.ResultCodeSucceeded}) })
			return true
		}
		return serve(t, m)
	}
	ev := &zzEvents{}
	conn := zzConnect(b)
	ctx := context.Background()
	tr1 := b.last()
	var up *Upstream
	var down *Downstream
	var err error
	if which == 0 {
		up, err = conn.OpenUpstream(ctx, "session", WithUpstreamFlushPolicyNone(), WithUpstreamResumedEventHandler(ev), WithUpstreamClosedEventHandler(ev))
	} else {
		down, err = conn.OpenDownstream(ctx, []*message.DownstreamFilter{{SourceNodeID: "node"}}, WithDownstreamResumedEventHandler(ev), WithDownstreamClosedEventHandler(ev))
	}
	vf.Assume(err == nil)
	vf.Settle()
	tr1.Close()
	vf.Settle()
	for i := 0; i < 3 && heldResume == nil; i++ { // keepalive notices; redial; the resume request travels
		vf.Advance(11 * time.Second)
		vf.Settle()
	}
	vf.Assume(heldResume != nil)
	vf.Assert("redialled-once", b.dials == 2)
	// the application closes the stream while the resume is unanswered
	closed := false
	var cerr error
	go func() {
		if which == 0 {
			cerr = up.Close(ctx)
		} else {
			cerr = down.Close(ctx)
		}
		closed = true
	}()
	vf.Settle()
	answerResume := func() {
		heldResume()
		vf.Settle()
	}
	// answers the close requests held so far (oldest or newest first), and those that arrive meanwhile
	answerCloses := func() {
		for round := 0; round < 4 && len(heldCloses) > 0; round++ {
			var f func()
			if lifo {
				f, heldCloses = heldCloses[len(heldCloses)-1], heldCloses[:len(heldCloses)-1]
			} else {
				f, heldCloses = heldCloses[0], heldCloses[1:]
			}
			f()
			vf.Settle()
		}
	}
	if resumeFirst {
		answerResume()
		answerCloses()
	} else {
		answerCloses()
		answerResume()
		answerCloses()
	}
	for i := 0; i < 2 && !closed; i++ {
		vf.Advance(11 * time.Second)
		vf.Settle()
		answerCloses()
	}
	_ = cerr
	vf.Assert("close-returns", closed)
	n := ev.upClosed + ev.downClosed
	vf.Assert("closed-notification-at-most-once", n <= 1)
	vf.Assert("closed-notification-fires", !closed || n == 1)
	if closed {
		if which == 0 {
			werr := up.WriteDataPoints(ctx, &message.DataID{Name: "n", Type: "t"}, &message.DataPoint{ElapsedTime: 1})
			vf.Assert("write-after-close-fails-stream-closed", werr != nil && errors.Is(werr, errors.ErrStreamClosed))
		} else {
			rctx, cancel := context.WithTimeout(ctx, 200*time.Millisecond)
			_, rerr := down.ReadDataPoints(rctx)
			cancel()
			vf.Assert("read-after-close-fails-stream-closed", rerr != nil && errors.Is(rerr, errors.ErrStreamClosed))
		}
	}
	conn.Close(ctx)
	vf.Settle()
	for _, t := range b.trs {
		t.Close()
	}
	vf.Settle()
	vf.Assert("no-goroutine-left", vf.Leaked() == "")
	vf.Assert("closed-notification-still-at-most-once", ev.upClosed+ev.downClosed <= 1)
	vf.Reach("end")
}
func zzC10hCloseDuringResumeDev1() { zzDeviations = 1; zzC10hCloseDuringResume() }

// C20.k: writes whose context is already over mixed with ordinary writes (whichever select arm the
// write takes): a write that reports an error has not been accepted, so at every moment the points
// reported sent plus the points reported buffered never exceed the points of the writes that
// returned nil, they equal them once Flush has returned nil, and exactly those points travel.
func zzC20kRefusedWritesNotCounted() {
	b := zzNewBroker()
	zzServeStreams(b)
	conn := zzConnect(b)
	tr := b.last()
	ctx := context.Background()
	var opt UpstreamOption
	switch vf.Choose("policy", 3) {
	case 0:
		opt = WithUpstreamFlushPolicyNone()
	case 1:
		opt = WithUpstreamFlushPolicyBufferSizeOnly(2)
	case 2:
		opt = WithUpstreamFlushPolicyImmediately()
	}
	up, err := conn.OpenUpstream(ctx, "session", opt, WithUpstreamQoS(message.QoSReliable))
	vf.Assume(err == nil)
	vf.Settle()
	id := &message.DataID{Name: "n", Type: "t"}
	over, cancel := context.WithCancel(ctx)
	cancel()
	accepted := uint64(0)
	counted := func(when string) {
		st := up.State()
		buffered := uint64(0)
		for _, g := range st.DataPointsBuffer {
			buffered += uint64(len(g.DataPoints))
		}
		vf.Assert("sent-plus-buffered-never-exceed-accepted", st.TotalDataPoints+buffered <= accepted)
	}
	writes := 2 + vf.Choose("writes", 2)
	for i := 0; i < writes; i++ {
		wctx := ctx
		if vf.Choose("context.over."+string(rune('0'+i)), 2) == 1 {
			wctx = over
		}
		npts := 1 + i%2
		pts := make([]*message.DataPoint, npts)
		for k := range pts {
			pts[k] = &message.DataPoint{ElapsedTime: time.Duration(10*i + k), Payload: []byte{byte(i)}}
		}
		werr := up.WriteDataPoints(wctx, id, pts...)
		if werr == nil {
			accepted += uint64(npts)
		}
		if wctx == ctx {
			vf.Assert("ordinary-write-accepted", werr == nil)
		}
		vf.Settle()
		counted("after write")
	}
	ferr := up.Flush(ctx)
	vf.Settle()
	if ferr == nil {
		st := up.State()
		vf.Assert("after-flush-buffer-empty", len(st.DataPointsBuffer) == 0)
		vf.Assert("after-flush-sent-equals-accepted", st.TotalDataPoints == accepted)
		n := uint64(0)
		for _, c := range zzUpstreamChunksOf(tr) {
			vf.Assert("no-empty-chunk", len(c.StreamChunk.DataPointGroups) > 0)
			for _, g := range c.StreamChunk.DataPointGroups {
				n += uint64(len(g.DataPoints))
			}
		}
		vf.Assert("exactly-the-accepted-points-travel", n == accepted)
		vf.Reach("flushed")
	}
	conn.Close(ctx)
	vf.Reach("end")
}
func zzC20kRefusedWritesNotCountedDev1() { zzDeviations = 1; zzC20kRefusedWritesNotCounted() }

// C03.h: a polling consumer of a downstream. Three chunks and two metadata items are queued; the
// application first reads with a context that is already done (both select arms are ready: either
// choice is explored) and then reads normally: a read may return an item or the context's error, but
// no item is ever lost - over all reads every chunk is handed out exactly once, in order and
// correctly attributed, and every metadata item exactly once, in order.
func zzC03hPollingConsumer() {
	b := zzNewBroker()
	zzServeStreams(b)
	conn := zzConnect(b)
	tr := b.last()
	ctx := context.Background()
	down, err := conn.OpenDownstream(ctx, []*message.DownstreamFilter{{SourceNodeID: "node"}})
	vf.Assume(err == nil)
	vf.Settle()
	var open *message.DownstreamOpenRequest
	for _, m := range tr.msgs() {
		if r, ok := m.(*message.DownstreamOpenRequest); ok {
			open = r
		}
	}
	vf.Assume(open != nil)
	alias := open.DesiredStreamIDAlias
	info := &message.UpstreamInfo{SessionID: "s", SourceNodeID: "node", StreamID: zzStreamID1}
	idX := &message.DataID{Name: "x", Type: "t"}
	meta := vf.Choose("metadata.instead.of.chunks", 2) == 1
	for i := 0; i < 3; i++ {
		if meta {
			tr.push(&message.DownstreamMetadata{RequestID: message.RequestID(100 + i), StreamIDAlias: alias, SourceNodeID: "node",
				Metadata: &message.BaseTime{SessionID: "s", Name: "bt" + string(rune('1'+i)), Priority: uint8(i)}})
		} else {
			tr.push(&message.DownstreamChunk{StreamIDAlias: alias, UpstreamOrAlias: info,
				StreamChunk: &message.StreamChunk{SequenceNumber: uint32(7 + i), DataPointGroups: []*message.DataPointGroup{{DataIDOrAlias: idX,
					DataPoints: []*message.DataPoint{{ElapsedTime: 1, Payload: []byte{byte(11 * (i + 1))}}}}}}})
		}
	}
	vf.Settle()
	gone, cancel := context.WithCancel(ctx)
	cancel()
	var seqs []uint32
	var names []string
	attributed := true
	read := func(c context.Context) error {
		if meta {
			m, err := down.ReadMetadata(c)
			if err == nil && m != nil {
				if bt, ok := m.Metadata.(*message.BaseTime); ok {
					names = append(names, bt.Name)
				}
			}
			return err
		}
		ch, err := down.ReadDataPoints(c)
		if err == nil && ch != nil {
			seqs = append(seqs, ch.SequenceNumber)
			k := int(ch.SequenceNumber) - 7
			if ch.UpstreamInfo == nil || *ch.UpstreamInfo != *info || len(ch.DataPointGroups) != 1 || *ch.DataPointGroups[0].DataID != *idX ||
				len(ch.DataPointGroups[0].DataPoints) != 1 || ch.DataPointGroups[0].DataPoints[0].Payload[0] != byte(11*(k+1)) {
				attributed = false
			}
		}
		return err
	}
	polls := 1 + vf.Choose("polls.with.done.context", 2)
	for i := 0; i < polls; i++ {
		read(gone)
	}
	for len(seqs)+len(names) < 3 {
		var rerr error
		blocked := vf.Blocked(func() { rerr = read(ctx) })
		vf.Assert("queued-item-is-still-there", !blocked && rerr == nil)
		if blocked || rerr != nil {
			return
		}
	}
	if meta {
		vf.Assert("each-metadata-once-in-order", len(names) == 3 && names[0] == "bt1" && names[1] == "bt2" && names[2] == "bt3")
	} else {
		vf.Assert("each-chunk-once-in-order", len(seqs) == 3 && seqs[0] == 7 && seqs[1] == 8 && seqs[2] == 9)
		vf.Assert("chunks-correctly-attributed", attributed)
	}
	conn.Close(ctx)
	vf.Reach("end")
}
func zzC03hPollingConsumerDev1() { zzDeviations = 1; zzC03hPollingConsumer() }

// C06.h: request ids across retries, whole API: after an outage the broker answers the resume of the
// upstream and of the downstream with "conflict" (1..2 times) before it accepts, and repeats each
// conflict response once more after the retried request has arrived (a late duplicate): every
// request on the redialled connection - connect, the retried resumes, later requests - carries an id
// distinct from all others on that connection and even; the duplicate is ignored and both streams
// resume (nobody is handed the stale response).
func zzC06hRetriedRequestIDs() {
	b := zzNewBroker()
	zzServeStreams(b)
	serve := b.handler
	conflicts := 1 + vf.Choose("conflict.answers", 2)
	dupLate := vf.Choose("late.duplicate.of.the.conflict.answer", 2) == 1
	upLeft, downLeft := conflicts, conflicts
	var upStale, downStale message.Message
	b.handler = func(t *zzTr, m message.Message) bool {
		switch r := m.(type) {
		case *message.UpstreamResumeRequest:
			if upLeft > 0 {
				upLeft--
				upStale = &message.UpstreamResumeResponse{RequestID: r.RequestID, ResultCode: message.ResultCodeResumeRequestConflict}
				t.in <- zzEncode(upStale)
				return true
			}
			if dupLate && upStale != nil {
				t.in <- zzEncode(upStale)
				upStale = nil
			}
		case *message.DownstreamResumeRequest:
			if downLeft > 0 {
				downLeft--
				downStale = &message.DownstreamResumeResponse{RequestID: r.RequestID, ResultCode: message.ResultCodeResumeRequestConflict}
				t.in <- zzEncode(downStale)
				return true
			}
			if dupLate && downStale != nil {
				t.in <- zzEncode(downStale)
				downStale = nil
			}
		}
		return serve(t, m)
	}
	ev := &zzEvents{}
	conn := zzConnect(b)
	ctx := context.Background()
	tr1 := b.last()
	up, err := conn.OpenUpstream(ctx, "session", WithUpstreamFlushPolicyNone(), WithUpstreamResumedEventHandler(ev), WithUpstreamClosedEventHandler(ev))
	vf.Assume(err == nil)
	_, err = conn.OpenDownstream(ctx, []*message.DownstreamFilter{{SourceNodeID: "node"}}, WithDownstreamResumedEventHandler(ev), WithDownstreamClosedEventHandler(ev))
	vf.Assume(err == nil)
	vf.Settle()
	tr1.Close()
	vf.Settle()
	for i := 0; i < 5; i++ { // keepalive notices; redial; resume exchanges with their retries
		vf.Advance(11 * time.Second)
		vf.Settle()
	}
	trN := b.last()
	vf.Assert("recovered-on-one-new-connection", b.dials == 2 && trN != tr1 && conn.state.Is(connStatusConnected))
	vf.Assert("both-streams-resumed-not-closed", ev.upResumed == 1 && ev.downResumed == 1 && ev.upClosed == 0 && ev.downClosed == 0)
	// one more request after the retries
	vf.Assert("upstream-works", up.WriteDataPoints(ctx, &message.DataID{Name: "n", Type: "t"}, &message.DataPoint{ElapsedTime: 2}) == nil && up.Flush(ctx) == nil)
	merr := conn.SendMetadata(ctx, &message.BaseTime{SessionID: "s", Name: "n"})
	vf.Assert("later-request-answered", merr == nil)
	vf.Settle()
	var ids []uint32
	resumes := 0
	for _, m := range trN.msgs() {
		if _, ok := m.(*message.Ping); ok {
			continue // (keepalive ids are checked with the others below)
		}
		if r, ok := m.(message.Request); ok {
			ids = append(ids, uint32(r.GetRequestID()))
		}
		switch m.(type) {
		case *message.UpstreamResumeRequest, *message.DownstreamResumeRequest:
			resumes++
		}
	}
	for _, m := range trN.msgs() {
		if p, ok := m.(*message.Ping); ok {
			ids = append(ids, uint32(p.RequestID))
		}
	}
	_ = resumes
	distinct, even := true, true
	for i := range ids {
		if ids[i]%2 != 0 {
			even = false
		}
		for j := 0; j < i; j++ {
			if ids[i] == ids[j] {
				distinct = false
			}
		}
	}
	vf.Assert("request-ids-pairwise-distinct-on-the-connection", distinct)
	vf.Assert("request-ids-even", even)
	conn.Close(ctx)
	vf.Reach("end")
}
func zzC06hRetriedRequestIDsDev1() { zzDeviations = 1; zzC06hRetriedRequestIDs() }

// C04.k: two goroutines of the application read the same downstream at the same time; the two chunks
// they take both carry the same, not yet announced upstream and data id in full form: whatever the
// interleaving of the two reads, the upstream and the data id each receive exactly one alias, are
// announced exactly once, and both chunks are acknowledged exactly once.
func zzC04kConcurrentReaders() {
	b := zzNewBroker()
	zzServeStreams(b)
	conn := zzConnect(b)
	tr := b.last()
	ctx := context.Background()
	down, err := conn.OpenDownstream(ctx, []*message.DownstreamFilter{{SourceNodeID: "node"}}, WithDownstreamAckFlushInterval(50*time.Millisecond))
	vf.Assume(err == nil)
	vf.Settle()
	var alias uint32
	for _, m := range tr.msgs() {
		if r, ok := m.(*message.DownstreamOpenRequest); ok {
			alias = r.DesiredStreamIDAlias
		}
	}
	// The solver picks the interleaving; a native replay can only hit it by trying often, so the
	// racy step is repeated natively (more rounds, more readers, a fresh upstream and data id each round).
	rounds, readers := vf.Amplify(1, 300), vf.Amplify(2, 6)
	seq := uint32(0)
	for round := 0; round < rounds; round++ {
		session, name := "s"+string(rune('a'+round%26))+string(rune('a'+round/26)), "x"+string(rune('a'+round%26))+string(rune('a'+round/26))
		first := seq + 1
		for i := 0; i < readers; i++ {
			seq++
			// (every chunk carries its own copies of the full forms, as decoded frames do)
			tr.push(&message.DownstreamChunk{StreamIDAlias: alias, UpstreamOrAlias: &message.UpstreamInfo{SessionID: session, SourceNodeID: "node", StreamID: zzStreamID1},
				StreamChunk: &message.StreamChunk{SequenceNumber: seq,
					DataPointGroups: []*message.DataPointGroup{{DataIDOrAlias: &message.DataID{Name: name, Type: "t"}, DataPoints: []*message.DataPoint{{ElapsedTime: 1}}}}}})
		}
		if round == 0 {
			vf.Settle()
		}
		var wg sync.WaitGroup
		var mu sync.Mutex
		sum, errs := uint32(0), 0
		start := make(chan struct{})
		for i := 0; i < readers; i++ {
			wg.Add(1)
			go func() {
				defer wg.Done()
				<-start
				c, err := down.ReadDataPoints(ctx)
				mu.Lock()
				if err != nil || c == nil {
					errs++
				} else {
					sum += c.SequenceNumber
				}
				mu.Unlock()
			}()
		}
		close(start)
		wg.Wait()
		want := uint32(0)
		for k := first; k <= seq; k++ {
			want += k
		}
		vf.Assert("every-read-returns-a-chunk-each-chunk-once", errs == 0 && sum == want)
		st := down.State()
		nUp, nID := 0, 0
		for _, v := range st.UpstreamInfos {
			if v.SessionID == session {
				nUp++
			}
		}
		for _, v := range st.DataIDAliases {
			if v.Name == name {
				nID++
			}
		}
		vf.Assert("one-alias-per-upstream", nUp == 1)
		vf.Assert("one-alias-per-data-id", nID == 1)
		if nUp != 1 || nID != 1 {
			return
		}
	}
	vf.Advance(50 * time.Millisecond)
	vf.Settle()
	vf.Advance(50 * time.Millisecond)
	vf.Settle()
	acked := map[uint32]int{}
	upAnnounced, idAnnounced := 0, 0
	for _, m := range tr.msgs() {
		if a, ok := m.(*message.DownstreamChunkAck); ok {
			for _, r := range a.Results {
				acked[r.SequenceNumberInUpstream]++
			}
			upAnnounced += len(a.UpstreamAliases)
			idAnnounced += len(a.DataIDAliases)
		}
	}
	once := len(acked) == int(seq)
	for _, n := range acked {
		once = once && n == 1
	}
	vf.Assert("every-consumed-chunk-acked-exactly-once", once)
	vf.Assert("announced-exactly-once", upAnnounced == rounds && idAnnounced == rounds)
	conn.Close(ctx)
	vf.Reach("end")
}
func zzC04kConcurrentReadersDev1() { zzDeviations = 1; zzC04kConcurrentReaders() }
func zzC04kConcurrentReadersDev2() { zzDeviations = 2; zzC04kConcurrentReaders() }

// zzSlowLogger makes the connection's dispatcher lag behind the transport reader: every warning
// (the dispatcher warns about a reply nobody waits for) takes a millisecond.
type zzSlowLogger struct{}

func (zzSlowLogger) Infof(context.Context, string, ...any)  {}
func (zzSlowLogger) Warnf(context.Context, string, ...any)  { time.Sleep(time.Millisecond) }
func (zzSlowLogger) Errorf(context.Context, string, ...any) {}
func (zzSlowLogger) Debugf(context.Context, string, ...any) {}

// C16.i: a burst of reply calls nobody waits for (or of incoming calls), longer than the wire
// connection's 8-slot dispatch queue, arrives while the connection's dispatcher lags behind the
// transport reader (a slow logger) and before the application receives any: ReceiveReplyCall /
// ReceiveCall hand out every one of them once, unmodified, in arrival order.
func zzC16iBurstKeepsArrivalOrder() {
	b := zzNewBroker()
	conf := b.config()
	conf.Logger = zzSlowLogger{}
	k := 0
	randomString = func() string { k++; return "call-" + string(rune('a'+k)) }
	conn, cerr := ConnectWithConfig(conf)
	vf.Assume(cerr == nil)
	vf.Settle()
	vf.Deviations(zzDeviations)
	tr := b.last()
	ctx := context.Background()
	replies := vf.Choose("reply.calls", 2) == 1
	n := 10 + 2*vf.Choose("burst.beyond.ten", 3)
	for i := 0; i < n; i++ {
		c := &message.DownstreamCall{CallID: "c" + string(rune('a'+i)), SourceNodeID: "n", Name: "a", Type: "b", Payload: []byte{byte(i)}}
		if replies {
			c.RequestCallID = "nobody"
		}
		tr.push(c)
	}
	vf.Settle()
	vf.Advance(time.Second)
	vf.Settle()
	inOrder, unmodified := true, true
	for i := 0; i < n; i++ {
		var id string
		var payload []byte
		var err error
		blocked := vf.Blocked(func() {
			if replies {
				var r *DownstreamReplyCall
				r, err = conn.ReceiveReplyCall(ctx)
				if r != nil {
					id, payload = r.CallID, r.Payload
				}
			} else {
				var r *DownstreamCall
				r, err = conn.ReceiveCall(ctx)
				if r != nil {
					id, payload = r.CallID, r.Payload
				}
			}
		})
		vf.Assert("every-call-of-the-burst-is-handed-out", !blocked && err == nil)
		if blocked || err != nil {
			return
		}
		if id != "c"+string(rune('a'+i)) {
			inOrder = false
		}
		if len(payload) != 1 || payload[0] != byte(i) {
			unmodified = false
		}
	}
	vf.Assert("in-arrival-order", inOrder)
	vf.Assert("unmodified", unmodified || !inOrder)
	conn.Close(ctx)
	vf.Reach("end")
}
func zzC16iBurstKeepsArrivalOrderDev1() { zzDeviations = 1; zzC16iBurstKeepsArrivalOrder() }

// zzSlowStoreW is a sent storage whose Store takes a while.
type zzSlowStoreW struct {
	sentStorage
	delay time.Duration
	slow  bool
}

func (s *zzSlowStoreW) Store(ctx context.Context, id uuid.UUID, seq uint32, dpgs DataPointGroups) error {
	if s.slow {
		time.Sleep(s.delay)
	}
	return s.sentStorage.Store(ctx, id, seq, dpgs)
}

// C08.j: a Flush whose context ends while the flush loop is busy with that very request (a slow sent
// storage): the caller gets its context error, and the stream is not wedged by the abandoned
// hand-over - a later Flush succeeds, a later write is accepted, and Close returns.
func zzC08jFlushAbandonedMidRequest() {
	b := zzNewBroker()
	zzServeStreams(b)
	store := &zzSlowStoreW{sentStorage: newInmemSentStorage(), delay: time.Second}
	conf := b.config()
	conf.sentStorage = store
	n := 0
	randomString = func() string { n++; return "call-" + string(rune('a'+n)) }
	conn, err := ConnectWithConfig(conf)
	vf.Assume(err == nil)
	vf.Settle()
	vf.Deviations(zzDeviations)
	ctx := context.Background()
	up, err := conn.OpenUpstream(ctx, "session", WithUpstreamFlushPolicyNone(), WithUpstreamQoS(message.QoSUnreliable), WithUpstreamCloseTimeout(time.Second))
	vf.Assume(err == nil)
	vf.Settle()
	id := &message.DataID{Name: "n", Type: "t"}
	vf.Assert("write-1", up.WriteDataPoints(ctx, id, &message.DataPoint{ElapsedTime: 1, Payload: []byte{1}}) == nil)
	vf.Settle()
	store.slow = true
	fctx, fcancel := context.WithTimeout(ctx, 500*time.Millisecond)
	var ferr error
	fdone := false
	go func() { ferr = up.Flush(fctx); fdone = true }()
	vf.Settle()
	vf.Advance(500 * time.Millisecond) // the caller's deadline: it gives up
	vf.Settle()
	vf.Assert("abandoned-flush-returns-its-context-error", fdone && ferr != nil)
	fcancel()
	vf.Advance(600 * time.Millisecond) // the storage is done; the result has nobody to go to
	vf.Settle()
	store.slow = false
	wctx, wcancel := context.WithTimeout(ctx, time.Second)
	var werr error
	wblocked := vf.Blocked(func() { werr = up.WriteDataPoints(wctx, id, &message.DataPoint{ElapsedTime: 2, Payload: []byte{2}}) })
	vf.Assert("later-write-accepted", !wblocked && werr == nil)
	wcancel()
	var f2 error
	f2blocked := vf.Blocked(func() { f2 = up.Flush(ctx) })
	vf.Assert("later-flush-succeeds", !f2blocked && f2 == nil)
	vf.Settle()
	pts := 0
	for _, c := range zzUpstreamChunksOf(b.last()) {
		for _, g := range c.StreamChunk.DataPointGroups {
			pts += len(g.DataPoints)
		}
	}
	vf.Assert("both-points-travel-once", pts == 2)
	closed := false
	go func() { up.Close(ctx); closed = true }()
	vf.Settle()
	for i := 0; i < 3 && !closed; i++ {
		vf.Advance(time.Second)
		vf.Settle()
	}
	vf.Assert("close-returns", closed)
	conn.Close(ctx)
	vf.Reach("end")
}
func zzC08jFlushAbandonedMidRequestDev1() { zzDeviations = 1; zzC08jFlushAbandonedMidRequest() }

// C07.g: two upstreams survive an outage and the broker hands the aliases out differently when they
// resume (swapped, or two fresh ones): afterwards each stream sends under the alias it was given at
// the resume, an ack addressed to an alias reaches the stream that now owns it - only that one -
// and each stream's unacknowledged data stays in its own store.
func zzC07gAliasesAfterResume() {
	b := zzNewBroker()
	zzServeStreams(b)
	serve := b.handler
	opened := 0
	swapped := vf.Choose("aliases.after.resume", 2) == 0 // 0: swapped (10 <-> 20), 1: fresh (30, 40)
	b.handler = func(t *zzTr, m message.Message) bool {
		switch r := m.(type) {
		case *message.UpstreamOpenRequest:
			opened++
			id := zzStreamID1
			if opened == 2 {
				id = zzStreamID2
			}
			t.in <- zzEncode(&message.UpstreamOpenResponse{RequestID: r.RequestID, AssignedStreamID: id, AssignedStreamIDAlias: uint32(10 * opened), ResultCode: message.ResultCodeSucceeded})
			return true
		case *message.UpstreamResumeRequest:
			a := uint32(30)
			if r.StreamID == zzStreamID2 {
				a = 40
			}
			if swapped {
				a = 20
				if r.StreamID == zzStreamID2 {
					a = 10
				}
			}
			t.in <- zzEncode(&message.UpstreamResumeResponse{RequestID: r.RequestID, AssignedStreamIDAlias: a, ResultCode: message.ResultCodeSucceeded})
			return true
		}
		return serve(t, m)
	}
	conn := zzConnect(b)
	tr1 := b.last()
	ctx := context.Background()
	log1, log2 := &zzAckLog{}, &zzAckLog{}
	up1, err := conn.OpenUpstream(ctx, "s1", WithUpstreamFlushPolicyNone(), WithUpstreamQoS(message.QoSReliable), WithUpstreamReceiveAckHooker(log1), WithUpstreamCloseTimeout(time.Second))
	vf.Assume(err == nil)
	up2, err := conn.OpenUpstream(ctx, "s2", WithUpstreamFlushPolicyNone(), WithUpstreamQoS(message.QoSReliable), WithUpstreamReceiveAckHooker(log2), WithUpstreamCloseTimeout(time.Second))
	vf.Assume(err == nil)
	vf.Settle()
	vf.Assume(up1.ID == zzStreamID1 && up2.ID == zzStreamID2)
	tr1.Close()
	vf.Settle()
	for i := 0; i < 4; i++ { // keepalive notices; redial; both resume
		vf.Advance(11 * time.Second)
		vf.Settle()
	}
	tr := b.last()
	vf.Assert("recovered", b.dials == 2 && tr != tr1 && conn.state.Is(connStatusConnected))
	a1, a2 := uint32(30), uint32(40)
	if swapped {
		a1, a2 = 20, 10
	}
	p1, p2 := vf.U8("payload1"), vf.U8("payload2")
	id := &message.DataID{Name: "n", Type: "t"}
	vf.Assert("both-streams-write-after-the-resume", up1.WriteDataPoints(ctx, id, &message.DataPoint{ElapsedTime: 1, Payload: []byte{p1}}) == nil && up1.Flush(ctx) == nil &&
		up2.WriteDataPoints(ctx, id, &message.DataPoint{ElapsedTime: 1, Payload: []byte{p2}}) == nil && up2.Flush(ctx) == nil)
	vf.Settle()
	byAlias := func(a uint32) []*message.UpstreamChunk {
		var out []*message.UpstreamChunk
		for _, c := range zzUpstreamChunksOf(tr) {
			if c.StreamIDAlias == a {
				out = append(out, c)
			}
		}
		return out
	}
	vf.Assert("each-stream-sends-under-the-alias-of-its-resume", len(zzUpstreamChunksOf(tr)) == 2 && len(byAlias(a1)) == 1 && len(byAlias(a2)) == 1 &&
		byAlias(a1)[0].StreamChunk.DataPointGroups[0].DataPoints[0].Payload[0] == p1 && byAlias(a2)[0].StreamChunk.DataPointGroups[0].DataPoints[0].Payload[0] == p2)
	// the broker acknowledges stream 1's chunk (under stream 1's new alias) only
	tr.push(&message.UpstreamChunkAck{StreamIDAlias: a1, Results: []*message.UpstreamChunkResult{{SequenceNumber: 1, ResultCode: message.ResultCodeSucceeded, ResultString: "one"}}})
	vf.Settle()
	vf.Assert("ack-reaches-the-stream-that-owns-the-alias-now", len(log1.got) == 1 && log1.got[0].ResultString == "one" && len(log2.got) == 0)
	st1, _ := conn.sentStorage.List(ctx, up1.ID)
	st2, _ := conn.sentStorage.List(ctx, up2.ID)
	vf.Assert("stores-follow-the-acks", len(st1) == 0 && len(st2) == 1)
	tr.push(&message.UpstreamChunkAck{StreamIDAlias: a2, Results: []*message.UpstreamChunkResult{{SequenceNumber: 1, ResultCode: message.ResultCodeSucceeded, ResultString: "two"}}})
	vf.Settle()
	vf.Assert("second-ack-reaches-stream2-once", len(log2.got) == 1 && log2.got[0].ResultString == "two" && len(log1.got) == 1)
	conn.Close(ctx)
	vf.Reach("end")
}
func zzC07gAliasesAfterResumeDev1() { zzDeviations = 1; zzC07gAliasesAfterResume() }
