package iscp

import (
	"context"

	"github.com/aptpod/iscp-go/internal/vf"
	"github.com/aptpod/iscp-go/message"
	uuid "github.com/google/uuid"
)

func zzUUID(label string) uuid.UUID {
	var u uuid.UUID
	copy(u[:], vf.BytesN(label, 16))
	return u
}

func zzGroups(label string) DataPointGroups {
	id := &message.DataID{Name: vf.Str(label + ".name"), Type: vf.Str(label + ".type")}
	dp := &message.DataPoint{Payload: vf.BytesN(label+".payload", 1)}
	return DataPointGroups{&DataPointGroup{DataID: id, DataPoints: DataPoints{dp}}}
}

func zzNewStorage() sentStorage {
	if vf.Choose("impl", 2) == 0 {
		return newInmemSentStorage()
	}
	return newInmemSentStorageNoPayload()
}

// zzSnapshot lists a stream's stored chunks: (found, keys->first group pointer).
func zzSnapshot(st sentStorage, id uuid.UUID) (bool, map[uint32]DataPointGroups) {
	m, err := st.List(context.Background(), id)
	return err == nil, m
}

func zzSameStore(a, b map[uint32]DataPointGroups) bool {
	if len(a) != len(b) {
		return false
	}
	for k, va := range a {
		vb, ok := b[k]
		if !ok || len(va) != len(vb) {
			return false
		}
		for i := range va {
			if va[i] != vb[i] { // same stored group object
				return false
			}
		}
	}
	return true
}

// C07.a: an operation on stream s1's store never changes what List(s2) returns (2-safety step).
func zzC07aStorage() {
	ctx := context.Background()
	st := zzNewStorage()
	s1, s2 := zzUUID("s1"), zzUUID("s2")
	vf.Assume(s1 != s2)
	// arbitrary pre-state: <=2 chunks per stream, symbolic sequence numbers
	n1, n2 := vf.Choose("n1", 3), vf.Choose("n2", 3)
	a1, a2 := vf.U32("s1.seqA"), vf.U32("s1.seqB")
	b1, b2 := vf.U32("s2.seqA"), vf.U32("s2.seqB")
	if n1 >= 1 {
		st.Store(ctx, s1, a1, zzGroups("g1a"))
	}
	if n1 >= 2 {
		st.Store(ctx, s1, a2, zzGroups("g1b"))
	}
	if n2 >= 1 {
		st.Store(ctx, s2, b1, zzGroups("g2a"))
	}
	if n2 >= 2 {
		st.Store(ctx, s2, b2, zzGroups("g2b"))
	}
	found0, snap0 := zzSnapshot(st, s2)
	vf.Assert("prestate-listed", found0 == (n2 >= 1))

	op := vf.Choose("op", 4)
	vf.Known("KF-C07-clear-wipes-all-streams", op == 3)
	seq := vf.U32("op.seq")
	switch op {
	case 0:
		st.Store(ctx, s1, seq, zzGroups("gop"))
	case 1:
		st.Remove(ctx, s1, seq)
	case 2:
		st.List(ctx, s1)
	case 3:
		st.Clear(ctx, s1)
	}
	found1, snap1 := zzSnapshot(st, s2)
	vf.Assert("other-stream-still-listed", found1 == found0)
	if found0 && found1 {
		vf.Assert("other-stream-unchanged", zzSameStore(snap0, snap1))
	}
	if op == 3 {
		// and Clear does its own job
		_, own := zzSnapshot(st, s1)
		vf.Assert("cleared-own", len(own) == 0)
	}
	vf.Reach("end")
}

// C07.a / C02: the store's own contract — Store then List/Remove returns exactly what was stored.
func zzC07aOwnContract() {
	ctx := context.Background()
	st := newInmemSentStorage()
	s1 := zzUUID("s1")
	q1, q2 := vf.U32("q1"), vf.U32("q2")
	vf.Assume(q1 != q2)
	g1, g2 := zzGroups("g1"), zzGroups("g2")
	st.Store(ctx, s1, q1, g1)
	st.Store(ctx, s1, q2, g2)
	m, err := st.List(ctx, s1)
	vf.Assert("listed", err == nil && len(m) == 2 && len(m[q1]) == 1 && m[q1][0] == g1[0] && m[q2][0] == g2[0])
	r, err := st.Remove(ctx, s1, q1)
	vf.Assert("removed-returns-stored", err == nil && len(r) == 1 && r[0] == g1[0])
	m2, _ := st.List(ctx, s1)
	_, still := m2[q1]
	vf.Assert("removed-gone", !still && len(m2) == 1 && m2[q2][0] == g2[0])
	_, err = st.Remove(ctx, s1, q1)
	vf.Assert("second-remove-fails", err != nil)
	vf.Assert("lock-free", vf.RUnlocked(&st.RWMutex))
	vf.Reach("end")
}

// C07.a3: differential check of the sent storage against a reference model (one map per stream):
// after any sequence of up to 3 operations on two streams, List of each stream equals the model.
func zzC07aSequences() {
	ctx := context.Background()
	st := zzNewStorage()
	ids := []uuid.UUID{zzUUID("s1"), zzUUID("s2")}
	vf.Assume(ids[0] != ids[1])
	model := []map[uint32]*DataPointGroup{{}, {}}
	known := []bool{false, false} // the stream has a bucket (List succeeds)
	// arbitrary pre-state: each stream may already hold one chunk
	for s := 0; s < 2; s++ {
		l := "pre" + string(rune('0'+s))
		if vf.Choose(l+".stored", 2) == 1 {
			seq := vf.U32(l + ".seq")
			g := zzGroups(l + ".g")
			st.Store(ctx, ids[s], seq, g)
			model[s][seq] = g[0]
			known[s] = true
		}
	}
	n := 1 + vf.Choose("ops", 3)
	for i := 0; i < n; i++ {
		l := "op" + string(rune('0'+i))
		who := vf.Choose(l+".stream", 2)
		seq := vf.U32(l + ".seq")
		switch vf.Choose(l+".kind", 3) {
		case 0:
			g := zzGroups(l + ".g")
			st.Store(ctx, ids[who], seq, g)
			// reference: overwrite the entry with equal key, else add
			replaced := false
			for k := range model[who] {
				if k == seq {
					model[who][k] = g[0]
					replaced = true
				}
			}
			if !replaced {
				model[who][seq] = g[0]
			}
			known[who] = true
		case 1:
			_, err := st.Remove(ctx, ids[who], seq)
			_, had := model[who][seq]
			vf.Assert("remove-succeeds-iff-stored", (err == nil) == had)
			delete(model[who], seq)
		case 2:
			st.Clear(ctx, ids[who])
			model[who] = map[uint32]*DataPointGroup{}
			known[who] = false
		}
	}
	for s := 0; s < 2; s++ {
		m, err := st.List(ctx, ids[s])
		if err != nil {
			vf.Assert("unlisted-stream-holds-nothing", len(model[s]) == 0)
			continue
		}
		vf.Assert("same-number-of-chunks", len(m) == len(model[s]))
		for k, g := range model[s] {
			got, ok := m[k]
			vf.Assert("chunk-listed-under-its-stream", ok && len(got) == 1)
			if ok && len(got) == 1 {
				vf.Assert("chunk-is-the-stored-one", got[0].DataID == g.DataID)
			}
		}
	}
	_ = known
	vf.Reach("end")
}
