package iscp

import (
	"context"
	stderrors "errors"

	"github.com/aptpod/iscp-go/errors"
	"github.com/aptpod/iscp-go/internal/vf"
)

var errAlreadyReconnecting = errors.Errorf("transport lost: %w", errors.ErrConnectionClosed)

var errClosedByUser = errors.Errorf("closed by the application: %w", errors.ErrConnectionClosed)

func zzStatus(label string) connStatusValue {
	v := vf.U8(label)
	vf.Assume(v < 3)
	return connStatusValue(v)
}

// C05.a: the connection status machine implements its contracts for every value and leaves the lock free.
func zzC05aStatus() {
	e := newConnState()
	cur, a, b := zzStatus("cur"), zzStatus("a"), zzStatus("b")
	e.current = cur
	switch vf.Choose("op", 5) {
	case 0:
		old := e.Swap(a)
		vf.Assert("swap", old == cur && e.current == a)
	case 1:
		ok := e.CompareAndSwap(a, b)
		vf.Assert("cas", ok == (cur == a) && ((ok && e.current == b) || (!ok && e.current == cur)))
	case 2:
		ok := e.CompareAndSwapNot(a, b)
		vf.Assert("cas-not", ok == (cur != a) && ((ok && e.current == b) || (!ok && e.current == cur)))
	case 3:
		vf.Assert("is", e.Is(a) == (cur == a))
	case 4:
		vf.Assert("current", e.Current() == cur)
	}
	vf.Assert("lock-free", vf.RUnlocked(e.RWMutex))
	vf.Reach("end")
}

// C05.a2: a waiter is woken by the change it waits for, and by its context.
func zzC05aWait() {
	e := newConnState()
	cur, want := zzStatus("cur"), zzStatus("want")
	e.current = cur
	ctx, cancel := context.WithCancel(context.Background())
	defer cancel()
	var err error
	returned := false
	go func() {
		err = e.WaitUntil(ctx, want)
		returned = true
	}()
	vf.Settle()
	if cur == want {
		vf.Assert("already-there-returns-nil", returned && err == nil)
		vf.Reach("immediate")
		return
	}
	vf.Assert("waits", !returned)
	if vf.Choose("wake", 2) == 0 {
		e.Swap(want)
		vf.Settle()
		vf.Assert("woken-by-change", returned && err == nil)
	} else {
		cancel()
		vf.Settle()
		vf.Assert("woken-by-context", returned && err == context.Canceled)
	}
	vf.Assert("lock-free", vf.RUnlocked(e.RWMutex))
	vf.Reach("waited")
}

// C05.b / C10.a: the send() retry wrapper.
func zzC05bSend() {
	c := &Conn{state: newConnState()}
	c.state.current = zzStatus("status")
	n := 1 + vf.Choose("attempts", 3)
	other := stderrors.New("other failure")
	var script []error
	for i := 0; i < n; i++ {
		switch vf.Choose("f"+string(rune('0'+i)), 5) {
		case 0:
			script = append(script, nil)
		case 1:
			script = append(script, errors.Errorf("wrapped: %w", errors.ErrConnectionClosed))
		case 2:
			script = append(script, other)
		case 3:
			// the application closes the connection while the call is in flight: the call then
			// fails with a connection-closed error and the status is already Closed
			script = append(script, errClosedByUser)
		case 4:
			// the transport died and somebody else (another request, the run loop) has already
			// moved the connection to Reconnecting when this call fails
			script = append(script, errAlreadyReconnecting)
		}
	}
	// the last scripted attempt never asks for another retry
	if script[n-1] != nil && script[n-1] != other && script[n-1] != errClosedByUser {
		script[n-1] = nil
	}
	calls := 0
	closedByUser := false
	calledWhileNotConnected := false
	f := func(ctx context.Context) error {
		if c.state.Current() != connStatusConnected {
			calledWhileNotConnected = true
		}
		err := script[calls]
		calls++
		if err == errClosedByUser {
			c.state.Swap(connStatusClosed)
			closedByUser = true
		}
		if err == errAlreadyReconnecting {
			c.state.CompareAndSwap(connStatusConnected, connStatusReconnecting)
		}
		return err
	}
	ctx, cancel := context.WithCancel(context.Background())
	defer cancel()
	var err error
	returned := false
	go func() {
		err = c.send(ctx, f)
		returned = true
	}()
	// the environment: whenever the wrapper waits in Reconnecting, the reconnect completes
	for round := 0; round < 4 && !returned; round++ {
		vf.Settle()
		if returned {
			break
		}
		st := c.state.Current()
		if st == connStatusReconnecting {
			c.state.CompareAndSwap(connStatusReconnecting, connStatusConnected)
			continue
		}
		break
	}
	vf.Settle()
	start := c.state.Current()
	_ = start
	vf.Known("KF-C05-wait-or-closed-never-reports-closed", c.state.Current() == connStatusClosed)
	if c.state.Current() == connStatusClosed && !returned {
		vf.Assert("closed-connection-reports-closed", false)
	}
	if closedByUser {
		// Close is final: the wrapper must not resurrect the connection, and must report it closed
		vf.Assert("close-during-call-stays-closed", c.state.Current() == connStatusClosed)
		vf.Assert("close-during-call-reports-closed", returned && errors.Is(err, errors.ErrConnectionClosed))
	}
	if returned {
		vf.Assert("never-called-while-not-connected", !calledWhileNotConnected)
		if err == nil {
			vf.Assert("nil-iff-some-attempt-succeeded", calls >= 1 && script[calls-1] == nil)
		} else if err == other {
			vf.Assert("other-errors-not-retried", script[calls-1] == other)
		} else if closedByUser {
			vf.Assert("closed-by-user-not-retried", script[calls-1] == errClosedByUser)
		} else {
			vf.Assert("closed-error-only-when-closed", errors.Is(err, errors.ErrConnectionClosed) && c.state.Current() == connStatusClosed)
		}
		for i := 0; i+1 < calls; i++ {
			vf.Assert("retried-only-after-connection-closed-errors", script[i] != nil && script[i] != other && script[i] != errClosedByUser)
		}
		vf.Reach("returned")
	}
}
