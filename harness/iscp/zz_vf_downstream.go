package iscp

import (
	"context"

	"github.com/aptpod/iscp-go/internal/vf"
	"github.com/aptpod/iscp-go/log"
	"github.com/aptpod/iscp-go/message"
	"github.com/aptpod/iscp-go/wire"
)

type zzDownWorld struct {
	tr *wire.ZZFakeTransport
	wc *wire.ClientConn
	d  *Downstream
	cs *connStatus
}

// zzNewDownWorld builds a Downstream with the fields Conn.OpenDownstream sets, wired to a real
// wire.ClientConn over the scripted transport; run() is not started.
func zzNewDownWorld() *zzDownWorld {
	w := &zzDownWorld{}
	w.tr = wire.ZZNewFakeTransport()
	w.wc = wire.ZZNewClientConn(w.tr, nil)
	w.cs = newConnState()
	conf := defaultDownstreamConfig
	ctx, cancel := context.WithCancel(context.Background())
	iv := defaultAckFlushInterval
	w.d = &Downstream{
		ctx:                   ctx,
		cancel:                cancel,
		ID:                    zzUUID("down.id"),
		dataIDAliases:         map[uint32]*message.DataID{},
		revDataIDAliases:      map[message.DataID]uint32{},
		upstreamInfos:         map[uint32]*message.UpstreamInfo{},
		wireConn:              w.wc,
		idAlias:               vf.U32("down.alias"),
		dataPointsCh:          make(chan *message.DownstreamChunk, 1024),
		metadataCh:            make(chan *message.DownstreamMetadata, 1024),
		dataIDAliasGenerator:  wire.NewAliasGenerator(0),
		upstreamInfoAliasGenerator: wire.NewAliasGenerator(0),
		ackFlushInterval:      iv,
		chunkAckIDSequence:    newSequenceNumberGenerator(0),
		upstreamInfoAckBuffer: map[uint32]*message.UpstreamInfo{},
		dataIDAckBuffer:       map[uint32]*message.DataID{},
		resultAckBuffer:       []*message.DownstreamChunkResult{},
		finalAckFlushed:       make(chan struct{}),
		eventDispatcher:       newEventDispatcher(),
		logger:                log.NewNop(),
		connStatus:            w.cs,
		state:                 newStreamState(),
		Config:                conf,
	}
	return w
}

func zzInfo(label string) *message.UpstreamInfo {
	return &message.UpstreamInfo{SessionID: vf.Str(label + ".session"), SourceNodeID: vf.Str(label + ".node"), StreamID: zzUUID(label + ".stream")}
}

// fillDataIDTable installs an arbitrary consistent data-id alias table (<=n entries) and moves the
// generator to an arbitrary value that is at least the largest alias handed out.
func (w *zzDownWorld) fillDataIDTable(n int) {
	d := w.d
	k := vf.Choose("ids.n", n+1)
	var ks []message.DataID
	var vs []uint32
	max := uint32(0)
	for i := 0; i < k; i++ {
		l := "tid" + string(rune('0'+i))
		id := zzDataID(l)
		a := vf.U32(l + ".alias")
		vf.Assume(a != 0)
		for j := range ks {
			vf.Assume(ks[j] != *id && vs[j] != a)
		}
		ks, vs = append(ks, *id), append(vs, a)
		d.dataIDAliases[a] = id
		d.revDataIDAliases[*id] = a
		if a > max {
			max = a
		}
	}
	cur := vf.U32("ids.generator")
	vf.Assume(cur >= max && cur < 0xFFFFFFF0)
	d.dataIDAliasGenerator = wire.NewAliasGenerator(cur)
}

func (w *zzDownWorld) fillUpstreamTable(n int) {
	d := w.d
	k := vf.Choose("ups.n", n+1)
	var infos []*message.UpstreamInfo
	var vs []uint32
	max := uint32(0)
	for i := 0; i < k; i++ {
		l := "tup" + string(rune('0'+i))
		in := zzInfo(l)
		a := vf.U32(l + ".alias")
		vf.Assume(a != 0)
		for j := range infos {
			vf.Assume(*infos[j] != *in && vs[j] != a)
		}
		infos, vs = append(infos, in), append(vs, a)
		d.upstreamInfos[a] = in
		if a > max {
			max = a
		}
	}
	cur := vf.U32("ups.generator")
	vf.Assume(cur >= max && cur < 0xFFFFFFF0)
	d.upstreamInfoAliasGenerator = wire.NewAliasGenerator(cur)
}

// invariant: the two data-id tables are mutually inverse; no alias is 0; upstream aliases are
// distinct by construction of a map, and no two aliases name equal upstream infos.
func (w *zzDownWorld) assertInvariant(tag string) {
	d := w.d
	vf.Assert(tag+"-tables-same-size", len(d.dataIDAliases) == len(d.revDataIDAliases))
	for a, id := range d.dataIDAliases {
		vf.Assert(tag+"-alias-nonzero", a != 0)
		back, ok := d.revDataIDAliases[*id]
		vf.Assert(tag+"-tables-inverse", ok && back == a)
	}
	var seen []*message.UpstreamInfo
	for a, in := range d.upstreamInfos {
		vf.Assert(tag+"-upalias-nonzero", a != 0)
		for _, s := range seen {
			vf.Assert(tag+"-one-alias-per-upstream", *s != *in)
		}
		seen = append(seen, in)
	}
}

// C04.a: assignDataIDAlias from an arbitrary consistent state.
func zzC04aAssignDataID() {
	w := zzNewDownWorld()
	d := w.d
	w.fillDataIDTable(2 + zzDeep)
	n := vf.Choose("new.n", 4+zzDeep)
	var ids []*message.DataID
	for i := 0; i < n; i++ {
		ids = append(ids, zzDataID("n"+string(rune('0'+i))))
	}
	before := map[message.DataID]uint32{}
	for k, v := range d.revDataIDAliases {
		before[k] = v
	}
	res := d.assignDataIDAlias(ids)
	w.assertInvariant("post")
	// known ids get nothing, each new distinct id exactly one fresh alias
	var distinctNew []message.DataID
	for _, id := range ids {
		if _, known := before[*id]; known {
			continue
		}
		dup := false
		for _, x := range distinctNew {
			if x == *id {
				dup = true
			}
		}
		if !dup {
			distinctNew = append(distinctNew, *id)
		}
	}
	vf.Assert("returned-exactly-the-new-pairs", len(res) == len(distinctNew))
	for a, id := range res {
		vf.Assert("returned-alias-nonzero", a != 0)
		_, was := before[*id]
		vf.Assert("returned-only-new-ids", !was)
		for _, oldAlias := range before {
			vf.Assert("returned-alias-fresh", oldAlias != a)
		}
		vf.Assert("returned-alias-registered", d.revDataIDAliases[*id] == a)
	}
	for k, v := range before {
		vf.Assert("old-entries-kept", d.revDataIDAliases[k] == v)
	}
	vf.Assert("table-grew-by-new", len(d.revDataIDAliases) == len(before)+len(distinctNew))
	vf.Assert("lock-free", vf.RUnlocked(&d.mu))
	vf.Reach("end")
}

// C04.b: assignUpstreamInfoAlias — "known" means equal content.
func zzC04bAssignUpstream() {
	w := zzNewDownWorld()
	d := w.d
	w.fillUpstreamTable(2 + zzDeep)
	in := zzInfo("incoming")
	known := false
	for _, v := range d.upstreamInfos {
		if *v == *in {
			known = true
		}
	}
	vf.Known("KF-C04-upstream-alias-pointer-compare", known)
	n0 := len(d.upstreamInfos)
	var olds []uint32
	for a := range d.upstreamInfos {
		olds = append(olds, a)
	}
	res := d.assignUpstreamInfoAlias(in)
	if known {
		vf.Assert("known-upstream-gets-no-second-alias", len(res) == 0 && len(d.upstreamInfos) == n0)
	} else {
		vf.Assert("new-upstream-gets-one-alias", len(res) == 1 && len(d.upstreamInfos) == n0+1)
		for a, v := range res {
			vf.Assert("new-alias-nonzero", a != 0)
			vf.Assert("new-alias-names-it", *v == *in && d.upstreamInfos[a] == v)
			for _, o := range olds {
				vf.Assert("new-alias-fresh", o != a)
			}
		}
	}
	w.assertInvariant("post")
	vf.Assert("lock-free", vf.RUnlocked(&d.mu))
	vf.Reach("end")
}

func zzAcks(tr *wire.ZZFakeTransport) []*message.DownstreamChunkAck {
	var out []*message.DownstreamChunkAck
	for _, m := range tr.Msgs() {
		if a, ok := m.(*message.DownstreamChunkAck); ok {
			out = append(out, a)
		}
	}
	return out
}

// C04.c: flushAck swaps the three buffers atomically and sends one ack with the next ack id.
func zzC04cFlushAck() {
	w := zzNewDownWorld()
	d := w.d
	last := vf.U32("last.ackid")
	vf.Assume(last != 0xFFFFFFFF)
	d.chunkAckIDSequence = newSequenceNumberGenerator(last)
	nr := vf.Choose("results.n", 3+zzDeep)
	var results []*message.DownstreamChunkResult
	for i := 0; i < nr; i++ {
		l := "r" + string(rune('0'+i))
		r := &message.DownstreamChunkResult{StreamIDOfUpstream: zzUUID(l + ".stream"), SequenceNumberInUpstream: vf.U32(l + ".seq"), ResultCode: message.ResultCodeSucceeded}
		results = append(results, r)
		d.resultAckBuffer = append(d.resultAckBuffer, r)
	}
	nu := vf.Choose("upaliases.n", 3+zzDeep)
	ups := map[uint32]*message.UpstreamInfo{}
	for i := 0; i < nu; i++ {
		l := "u" + string(rune('0'+i))
		a := vf.U32(l + ".alias")
		_, dup := ups[a]
		vf.Assume(!dup)
		in := zzInfo(l)
		ups[a] = in
		d.upstreamInfoAckBuffer[a] = in
	}
	nd := vf.Choose("idaliases.n", 3+zzDeep)
	ids := map[uint32]*message.DataID{}
	for i := 0; i < nd; i++ {
		l := "i" + string(rune('0'+i))
		a := vf.U32(l + ".alias")
		_, dup := ids[a]
		vf.Assume(!dup)
		id := zzDataID(l)
		ids[a] = id
		d.dataIDAckBuffer[a] = id
	}
	err := d.flushAck()
	acks := zzAcks(w.tr)
	if nr == 0 && nu == 0 && nd == 0 {
		vf.Assert("nothing-to-ack-nothing-sent", err == nil && len(acks) == 0 && len(w.tr.Msgs()) == 0)
		vf.Assert("ack-id-not-consumed", d.chunkAckIDSequence.CurrentValue() == last)
		vf.Reach("idle")
		return
	}
	vf.Assert("exactly-one-ack", err == nil && len(acks) == 1 && len(w.tr.Msgs()) == 1)
	if len(acks) == 1 {
		a := acks[0]
		vf.Assert("ack-id-is-last-plus-1", a.AckID == last+1 && d.chunkAckIDSequence.CurrentValue() == last+1)
		vf.Assert("ack-stream-alias", a.StreamIDAlias == d.idAlias)
		vf.Assert("ack-results-count", len(a.Results) == nr)
		for i := range results {
			if i < len(a.Results) {
				vf.Assert("ack-results-in-order", a.Results[i] == results[i])
			}
		}
		vf.Assert("ack-upstream-aliases", len(a.UpstreamAliases) == nu)
		for k, v := range ups {
			vf.Assert("ack-upstream-alias-entry", a.UpstreamAliases[k] == v)
		}
		vf.Assert("ack-data-id-aliases", len(a.DataIDAliases) == nd)
		for k, v := range ids {
			vf.Assert("ack-data-id-alias-entry", a.DataIDAliases[k] == v)
		}
	}
	vf.Assert("buffers-empty-after", len(d.resultAckBuffer) == 0 && len(d.upstreamInfoAckBuffer) == 0 && len(d.dataIDAckBuffer) == 0)
	// a second flush right away sends nothing
	d.flushAck()
	vf.Assert("no-duplicate-ack", len(zzAcks(w.tr)) == 1)
	vf.Assert("lock-free", vf.RUnlocked(&d.mu))
	vf.Reach("sent")
}

// C03.a / C04.d: one ReadDataPoints resolve step from an arbitrary consistent alias state.
func zzC03aRead() {
	w := zzNewDownWorld()
	d := w.d
	w.fillDataIDTable(2 + zzDeep)
	w.fillUpstreamTable(1 + zzDeep)
	w.assertInvariant("pre")
	// snapshot of the tables before the call
	idTable := map[uint32]message.DataID{}
	for a, id := range d.dataIDAliases {
		idTable[a] = *id
	}
	upTable := map[uint32]message.UpstreamInfo{}
	for a, in := range d.upstreamInfos {
		upTable[a] = *in
	}

	chunk := &message.DownstreamChunk{StreamIDAlias: d.idAlias, StreamChunk: &message.StreamChunk{SequenceNumber: vf.U32("chunk.seq")}}
	var wantInfo message.UpstreamInfo
	upOK := true
	upFull := vf.Choose("chunk.upstream.full", 2) == 1
	if upFull {
		in := zzInfo("chunk.up")
		chunk.UpstreamOrAlias = in
		wantInfo = *in
		same := false
		for _, v := range upTable {
			if v == *in {
				same = true
			}
		}
		vf.Known("KF-C04-upstream-alias-pointer-compare", same)
	} else {
		a := vf.U32("chunk.up.alias")
		chunk.UpstreamOrAlias = message.UpstreamAlias(a)
		wantInfo, upOK = upTable[a]
	}
	ng := vf.Choose("chunk.groups", 3+zzDeep)
	type wantG struct {
		id  message.DataID
		pts []*message.DataPoint
	}
	var want []wantG
	idsOK := true
	for i := 0; i < ng; i++ {
		l := "cg" + string(rune('0'+i))
		g := &message.DataPointGroup{DataPoints: zzPoints(l, vf.Choose(l+".n", 3))}
		if vf.Choose(l+".full", 2) == 1 {
			id := zzDataID(l)
			g.DataIDOrAlias = id
			want = append(want, wantG{*id, g.DataPoints})
		} else {
			a := vf.U32(l + ".alias")
			g.DataIDOrAlias = message.DataIDAlias(a)
			id, ok := idTable[a]
			if !ok {
				idsOK = false
			}
			want = append(want, wantG{id, g.DataPoints})
		}
		chunk.StreamChunk.DataPointGroups = append(chunk.StreamChunk.DataPointGroups, g)
	}
	d.dataPointsCh <- chunk
	nres0 := len(d.resultAckBuffer)

	got, err := d.ReadDataPoints(context.Background())

	if !upOK || !idsOK {
		vf.Assert("unknown-alias-is-an-error", err != nil && got == nil)
		vf.Assert("unknown-alias-not-acked", len(d.resultAckBuffer) == nres0)
		vf.Reach("rejected")
	} else {
		vf.Assert("read-ok", err == nil && got != nil)
		if got != nil {
			vf.Assert("sequence-number-unchanged", got.SequenceNumber == chunk.StreamChunk.SequenceNumber)
			vf.Assert("upstream-resolved", got.UpstreamInfo != nil && *got.UpstreamInfo == wantInfo)
			vf.Assert("group-count", len(got.DataPointGroups) == len(want))
			for i := range want {
				if i >= len(got.DataPointGroups) {
					break
				}
				g := got.DataPointGroups[i]
				vf.Assert("data-id-resolved", g.DataID != nil && *g.DataID == want[i].id)
				vf.Assert("points-count", len(g.DataPoints) == len(want[i].pts))
				for j := range want[i].pts {
					if j < len(g.DataPoints) {
						vf.Assert("points-unchanged-in-order", g.DataPoints[j] == want[i].pts[j])
					}
				}
			}
			// C04.d: exactly one result queued for this read, naming the chunk
			vf.Assert("one-result-per-read", len(d.resultAckBuffer) == nres0+1)
			if len(d.resultAckBuffer) == nres0+1 {
				r := d.resultAckBuffer[nres0]
				vf.Assert("result-names-the-chunk", r.SequenceNumberInUpstream == chunk.StreamChunk.SequenceNumber && r.StreamIDOfUpstream == wantInfo.StreamID && r.ResultCode == message.ResultCodeSucceeded)
			}
		}
		vf.Reach("delivered")
	}
	// aliases announced for full forms are consistent with the tables; invariant kept
	w.assertInvariant("post")
	for a, id := range d.dataIDAckBuffer {
		vf.Assert("announced-id-alias-registered", d.revDataIDAliases[*id] == a)
		_, old := idTable[a]
		vf.Assert("announced-id-alias-fresh", !old)
	}
	for a, in := range d.upstreamInfoAckBuffer {
		vf.Assert("announced-up-alias-registered", d.upstreamInfos[a] == in)
		_, old := upTable[a]
		vf.Assert("announced-up-alias-fresh", !old)
	}
	for a, v := range idTable {
		vf.Assert("old-id-aliases-kept", *d.dataIDAliases[a] == v)
	}
	vf.Assert("lock-free", vf.RUnlocked(&d.mu))
}

// C04.f: Downstream.resume keeps the stream's identity: the resume request names the original stream
// id and alias, and ack ids continue where they were (they never restart).
func zzC04fResumeKeepsAckIDs() {
	w := zzNewDownWorld()
	d := w.d
	last := vf.U32("last.ackid")
	vf.Assume(last < 0xFFFFFFF0)
	d.chunkAckIDSequence = newSequenceNumberGenerator(last)
	d.lastIssuedAckSequenceNumber = vf.U32("stale.field")
	// the connection after the reconnect
	tr2 := wire.ZZNewFakeTransport()
	wc2 := wire.ZZNewClientConn(tr2, nil)
	wire.ZZStartRequestLoop(wc2)
	var reqs []*message.DownstreamResumeRequest
	tr2.OnWrite = func(m message.Message) error {
		if r, ok := m.(*message.DownstreamResumeRequest); ok {
			reqs = append(reqs, r)
			wire.ZZDeliverRequest(wc2, &message.DownstreamResumeResponse{RequestID: r.RequestID, ResultCode: message.ResultCodeSucceeded})
		}
		return nil
	}
	parent := &Conn{wireConn: wc2, logger: log.NewNop(), state: newConnState()}
	d.Config.Filters = []*message.DownstreamFilter{{SourceNodeID: "node"}}
	d.state.Swap(streamStatusResuming)
	err := d.resume(parent)
	vf.Assert("resume-ok", err == nil && d.state.Current() == streamStatusConnected)
	vf.Assert("resume-request-names-original-id-and-alias", len(reqs) == 1 && reqs[0].StreamID == d.ID && reqs[0].DesiredStreamIDAlias == d.idAlias)
	vf.Assert("uses-the-new-connection", d.wireConn == wc2)
	// the next ack continues the numbering
	d.resultAckBuffer = append(d.resultAckBuffer, &message.DownstreamChunkResult{SequenceNumberInUpstream: 1})
	ferr := d.flushAck()
	acks := zzAcks(tr2)
	vf.Assert("ack-after-resume-on-the-new-connection", ferr == nil && len(acks) == 1)
	if len(acks) == 1 {
		vf.Assert("ack-ids-continue-across-resume", acks[0].AckID == last+1)
	}
	vf.Reach("end")
}
