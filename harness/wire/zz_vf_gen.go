package wire

import "github.com/aptpod/iscp-go/internal/vf"

// C06.a: request ids are even, strictly stepping by 2 (pairwise distinct within 2^31 calls).
func zzC06aGenerator() {
	start := vf.U32("start")
	vf.Assume(start%2 == 0)
	g := NewIDGenerator(start)
	a, b, c := g.Next(), g.Next(), g.Next()
	vf.Assert("first-is-start", a == start)
	vf.Assert("even", a%2 == 0 && b%2 == 0 && c%2 == 0)
	vf.Assert("step-2", b == a+2 && c == b+2)
	vf.Assert("distinct", a != b && b != c && a != c)
	cl := newRequestIDGeneratorForClient()
	vf.Assert("client-starts-at-0", cl.Next() == 0 && cl.Next() == 2)
	// inductive step for distinctness: k steps from an even start give start+2k; equal only if 2k = 0 mod 2^32
	k1, k2 := vf.U32("k1"), vf.U32("k2")
	vf.Assume(k1 < 1<<31 && k2 < 1<<31 && k1 != k2)
	vf.Assert("no-wrap-collision-below-2^31-calls", start+2*k1 != start+2*k2)
	vf.Reach("end")
}

// C04.g: alias generator never returns 0 and steps by one.
func zzC04gAlias() {
	cur := vf.U32("cur")
	g := NewAliasGenerator(cur)
	a := g.Next()
	vf.Assert("nonzero", a != 0)
	if cur != 0xFFFFFFFF {
		vf.Assert("succ", a == cur+1)
	} else {
		vf.Assert("skips-zero", a == 1)
	}
	b := g.Next()
	vf.Assert("nonzero2", b != 0)
	vf.Assert("distinct", a != b)
	vf.Assert("current", g.CurrentValue() == b)
	vf.Reach("end")
}
