package wire

import (
	"context"
	"sync"

	"github.com/aptpod/iscp-go/encoding"
	"github.com/aptpod/iscp-go/log"
	"github.com/aptpod/iscp-go/message"
	"github.com/aptpod/iscp-go/transport"
	uuid "github.com/google/uuid"
)

// ZZFakeTransport is the scripted EncodingTransport used by the /verif harnesses.
type ZZFakeTransport struct {
	Mu         sync.Mutex
	Written    []message.Message
	WriteErr   error
	In         chan message.Message
	CloseCount int
	OnWrite    func(m message.Message) error // runs inside Write (auto-responder / interference point)
}

func ZZNewFakeTransport() *ZZFakeTransport {
	return &ZZFakeTransport{In: make(chan message.Message, 16)}
}

func (t *ZZFakeTransport) Read() (message.Message, error) {
	m, ok := <-t.In
	if !ok {
		return nil, transport.ErrAlreadyClosed
	}
	return m, nil
}
func (t *ZZFakeTransport) RxCount() *encoding.Count        { return nil }
func (t *ZZFakeTransport) TxCount() *encoding.Count        { return nil }
func (t *ZZFakeTransport) RxMessageCounterValue() uint64   { return 0 }
func (t *ZZFakeTransport) TxMessageCounterValue() uint64   { return 0 }
func (t *ZZFakeTransport) Write(m message.Message) error {
	t.Mu.Lock()
	if t.WriteErr != nil {
		err := t.WriteErr
		t.Mu.Unlock()
		return err
	}
	t.Written = append(t.Written, m)
	h := t.OnWrite
	t.Mu.Unlock()
	if h != nil {
		return h(m)
	}
	return nil
}
func (t *ZZFakeTransport) Close() error {
	t.Mu.Lock()
	t.CloseCount++
	t.Mu.Unlock()
	return nil
}
func (t *ZZFakeTransport) Msgs() []message.Message {
	t.Mu.Lock()
	defer t.Mu.Unlock()
	return append([]message.Message{}, t.Written...)
}

// ZZNewClientConn builds a ClientConn exactly as Connect does, without the handshake and without
// starting the read loops (harnesses start the loops they need).
func ZZNewClientConn(tr, untr EncodingTransport) *ClientConn {
	ctx, cancel := context.WithCancel(context.Background())
	return &ClientConn{
		transport:                       tr,
		unreliableTransport:             untr,
		idGenerator:                     newRequestIDGeneratorForClient(),
		ctx:                             ctx,
		cancel:                          cancel,
		msgRequestCh:                    make(chan message.Request, 8),
		msgPingCh:                       make(chan *message.Ping, 8),
		msgDisconnectCh:                 make(chan *message.Disconnect, 8),
		msgUpstreamChunkAckCh:           make(chan *message.UpstreamChunkAck, 8),
		msgDownstreamChunkUnreliableCh:  make(chan *message.DownstreamChunk, 8),
		msgDownstreamChunkCh:            make(chan *message.DownstreamChunk, 8),
		msgDownstreamChunkAckCompleteCh: make(chan *message.DownstreamChunkAckComplete, 8),
		msgDownstreamMetaDataCh:         make(chan *message.DownstreamMetadata, 8),
		msgDownstreamCallCh:             make(chan *message.DownstreamCall, 8),
		msgUpstreamCallAckCh:            make(chan *message.UpstreamCallAck, 8),
		replyCh:                         make(map[uint32]chan message.Request),
		logger:                          log.NewNop(),
		pingInterval:                    defaultPingInterval,
		pingTimeout:                     defaultPingTimeout,
		upstreams: &clientUpstreams{
			mu:             &sync.RWMutex{},
			acks:           make(map[uint32]chan *message.UpstreamChunkAck),
			aliases:        make(map[uuid.UUID]uint32),
			messageWriters: make(map[uint32]EncodingTransport),
		},
		downstreams: &clientDownstreams{
			mu:            &sync.RWMutex{},
			dps:           make(map[uint32]chan *message.DownstreamChunk),
			dpsUnreliable: make(map[uint32]chan *message.DownstreamChunk),
			aliases:       make(map[uuid.UUID]uint32),
			ackCompletes:  make(map[uint32]chan *message.DownstreamChunkAckComplete),
			metadata:      make(map[uint32]map[string]chan *message.DownstreamMetadata),
		},
	}
}

func ZZOpenUpstream(c *ClientConn, qos message.QoS, id uuid.UUID, alias uint32) {
	c.openUpstream(context.Background(), qos, id, alias)
}

// ZZStartRequestLoop starts the real reply dispatcher.
func ZZStartRequestLoop(c *ClientConn) { go c.readRequestLoop() }

// ZZDeliverRequest hands a broker response to the reply dispatcher's inbox (as readReliableLoop does).
func ZZDeliverRequest(c *ClientConn, m message.Request) { c.msgRequestCh <- m }

func ZZDeliverAck(c *ClientConn, m *message.UpstreamChunkAck) { c.msgUpstreamChunkAckCh <- m }

func ZZStartAckLoop(c *ClientConn) { go c.readUpstreamChunkAckLoop() }

func ZZCancel(c *ClientConn) { c.cancel() }

func ZZStartMetadataLoop(c *ClientConn) { go c.readDownstreamMetadataLoop() }

func ZZDeliverMetadata(c *ClientConn, m *message.DownstreamMetadata) { c.msgDownstreamMetaDataCh <- m }
