package wire

import (
	"fmt"
	uuid "github.com/google/uuid"
	"context"
	"time"

	"github.com/aptpod/iscp-go/errors"
	"github.com/aptpod/iscp-go/internal/vf"
	"github.com/aptpod/iscp-go/message"
)

func zzResp(id uint32) message.Request {
	switch vf.Choose("resp.kind", 3) {
	case 0:
		return &message.Pong{RequestID: message.RequestID(id)}
	case 1:
		return &message.UpstreamOpenResponse{RequestID: message.RequestID(id)}
	}
	return &message.DownstreamCloseResponse{RequestID: message.RequestID(id)}
}

func zzChanEmpty(ch chan message.Request) bool {
	select {
	case <-ch:
		return false
	default:
		return true
	}
}

// C06.b: one step of the reply dispatcher from an arbitrary reply table.
func zzC06bDispatch() {
	c := ZZNewClientConn(ZZNewFakeTransport(), nil)
	n := vf.Choose("table", 4)
	var ids []uint32
	var chs []chan message.Request
	for i := 0; i < n; i++ {
		id := vf.U32("id" + string(rune('0'+i)))
		for _, p := range ids {
			vf.Assume(p != id)
		}
		ch := make(chan message.Request, 1)
		ids, chs = append(ids, id), append(chs, ch)
		c.replyCh[id] = ch
	}
	rid := vf.U32("resp.id")
	m := zzResp(rid)
	go c.readRequestLoop()
	c.msgRequestCh <- m
	vf.Settle()
	hit := -1
	for i, id := range ids {
		if id == rid {
			hit = i
		}
	}
	for i, ch := range chs {
		if i == hit {
			var got message.Request
			select {
			case got = <-ch:
			default:
			}
			vf.Assert("delivered-to-its-caller", got == m)
			_, still := c.replyCh[ids[i]]
			vf.Assert("entry-removed", !still)
		} else {
			vf.Assert("other-callers-undisturbed", zzChanEmpty(ch))
			got, ok := c.replyCh[ids[i]]
			vf.Assert("other-entries-kept", ok && got == ch)
		}
	}
	if hit < 0 {
		vf.Assert("unknown-id-ignored", len(c.replyCh) == n)
		vf.Reach("unknown")
	} else {
		vf.Assert("table-shrunk-by-one", len(c.replyCh) == n-1)
		// a duplicate of the same response is ignored
		c.msgRequestCh <- m
		vf.Settle()
		vf.Assert("duplicate-ignored", len(c.replyCh) == n-1)
		for i, ch := range chs {
			if i != hit {
				vf.Assert("duplicate-disturbs-nobody", zzChanEmpty(ch))
			}
		}
		vf.Reach("routed")
	}
	vf.Assert("lock-free", vf.Unlocked(&c.mu))
}

// C06.c: sendRequest registers before writing, returns exactly its own reply, and stops waiting
// when its context or the connection ends without consuming anything.
func zzC06cSendRequest() {
	tr := ZZNewFakeTransport()
	c := ZZNewClientConn(tr, nil)
	go c.readRequestLoop()
	rid := vf.U32("req.id")
	req := &message.Ping{RequestID: message.RequestID(rid)}
	registeredAtWrite := false
	tr.OnWrite = func(m message.Message) error {
		c.mu.Lock()
		_, registeredAtWrite = c.replyCh[rid]
		c.mu.Unlock()
		return nil
	}
	// another caller is waiting too
	oid := vf.U32("other.id")
	vf.Assume(oid != rid)
	och := make(chan message.Request, 1)
	c.replyCh[oid] = och

	ctx, cancel := context.WithCancel(context.Background())
	defer cancel()
	var got message.Request
	var err error
	returned := false
	go func() {
		got, err = c.sendRequest(ctx, req)
		returned = true
	}()
	vf.Settle()
	vf.Assert("written-once", len(tr.Msgs()) == 1 && tr.Msgs()[0] == message.Message(req))
	vf.Assert("registered-before-write", registeredAtWrite)
	vf.Assert("waiting", !returned)
	scenario := vf.Choose("scenario", 4)
	var reply message.Request
	switch scenario {
	case 0: // own reply arrives
		reply = &message.Pong{RequestID: message.RequestID(rid)}
		c.msgRequestCh <- reply
	case 1: // the other caller's reply arrives: must not wake this caller
		c.msgRequestCh <- &message.Pong{RequestID: message.RequestID(oid)}
	case 2: // caller's context ends
		cancel()
	case 3: // connection closed
		c.cancel()
	}
	vf.Settle()
	switch scenario {
	case 0:
		vf.Assert("own-reply-returned", returned && err == nil && got == reply)
		vf.Assert("other-untouched", zzChanEmpty(och))
	case 1:
		vf.Assert("foreign-reply-not-consumed", !returned)
		vf.Assert("foreign-reply-at-its-owner", !zzChanEmpty(och))
	case 2:
		vf.Assert("ctx-end-returns-ctx-error", returned && got == nil && err == context.Canceled)
		vf.Assert("other-untouched", zzChanEmpty(och))
	case 3:
		vf.Assert("conn-end-returns-closed", returned && got == nil && errors.Is(err, errors.ErrConnectionClosed))
	}
	vf.Reach("end")
}

// C15.b: every broker ping is answered with one pong carrying the same request id.
func zzC15bPong() {
	tr := ZZNewFakeTransport()
	c := ZZNewClientConn(tr, nil)
	go c.readPingLoop()
	id1, id2 := vf.U32("ping1"), vf.U32("ping2")
	c.msgPingCh <- &message.Ping{RequestID: message.RequestID(id1)}
	c.msgPingCh <- &message.Ping{RequestID: message.RequestID(id2)}
	vf.Settle()
	ms := tr.Msgs()
	vf.Assert("one-pong-per-ping", len(ms) == 2)
	if len(ms) == 2 {
		p1, ok1 := ms[0].(*message.Pong)
		p2, ok2 := ms[1].(*message.Pong)
		vf.Assert("pongs", ok1 && ok2)
		if ok1 && ok2 {
			vf.Assert("same-request-ids-in-order", uint32(p1.RequestID) == id1 && uint32(p2.RequestID) == id2)
		}
	}
	vf.Reach("end")
}

// C15.b2: the broker's pings travel through the real read loop while the pong writes are stuck
// behind a congested send path (more pings than any internal queue holds); once the path recovers
// every ping has been answered once, in order, with its own request id.
func zzC15b2PingBacklog() {
	tr := ZZNewFakeTransport()
	tr.In = make(chan message.Message, 32)
	gate := make(chan struct{})
	tr.OnWrite = func(m message.Message) error {
		if _, ok := m.(*message.Pong); ok {
			<-gate
		}
		return nil
	}
	c := ZZNewClientConn(tr, nil)
	vf.Deviations(zzWireDeviations)
	go c.readReliableLoop()
	const n = 20
	base := vf.U32("first.id")
	for i := 0; i < n; i++ {
		tr.In <- &message.Ping{RequestID: message.RequestID(base + uint32(2*i))}
	}
	vf.Settle()
	close(gate)
	vf.Settle()
	var pongs []*message.Pong
	for _, m := range tr.Msgs() {
		if p, ok := m.(*message.Pong); ok {
			pongs = append(pongs, p)
		}
	}
	vf.Assert("every-ping-answered-once", len(pongs) == n)
	for i, p := range pongs {
		vf.Assert("pong-ids-in-order", uint32(p.RequestID) == base+uint32(2*i))
	}
	vf.Assert("not-closed", tr.CloseCount == 0)
	vf.Reach("end")
}

// C15.a: keepalive control flow on the virtual clock, for every interval/timeout pair in range
// (the timeout may be shorter or longer than the interval) and every pong delay below the timeout.
func zzC15aKeepAlive() {
	tr := ZZNewFakeTransport()
	c := ZZNewClientConn(tr, nil)
	iv := time.Duration(vf.I64("interval"))
	to := time.Duration(vf.I64("timeout"))
	vf.Assume(to >= 2 && to <= 200*time.Millisecond && iv >= 2 && iv <= 200*time.Millisecond)
	c.pingInterval = iv
	c.pingTimeout = to
	go c.readRequestLoop()
	answers := vf.Choose("answered.pings", 3) // the broker answers this many pings, then falls silent
	late := vf.Choose("late", 2) == 1         // ... or answers the next one only after the timeout
	done := false
	go func() {
		c.keepAliveLoop()
		done = true
	}()
	vf.Settle()
	pings := func() []*message.Ping {
		var out []*message.Ping
		for _, m := range tr.Msgs() {
			if p, ok := m.(*message.Ping); ok {
				out = append(out, p)
			}
		}
		return out
	}
	for k := 0; k < answers; k++ {
		ps := pings()
		vf.Assert("ping-sent", len(ps) == k+1)
		if len(ps) != k+1 {
			return
		}
		vf.Assert("ping-id-even", uint32(ps[k].RequestID)%2 == 0)
		// the pong arrives after an arbitrary delay below the timeout (possibly longer than the interval)
		delay := time.Duration(vf.I64("delay" + string(rune('0'+k))))
		vf.Assume(delay >= 0 && delay < to)
		vf.Advance(delay)
		vf.Assert("live-peer-not-dropped-while-waiting", !done && tr.CloseCount == 0)
		c.msgRequestCh <- &message.Pong{RequestID: ps[k].RequestID}
		vf.Settle()
		vf.Assert("live-peer-never-dropped", !done && tr.CloseCount == 0)
		// move on until the next ping is on the wire (at most one interval from now)
		if len(pings()) == k+1 {
			vf.Advance(iv)
		}
		vf.Assert("next-ping-within-an-interval", len(pings()) >= k+2 && !done)
	}
	ps := pings()
	vf.Assume(len(ps) == answers+1)
	// silence: just before the timeout nothing happens, at the timeout the connection is given up
	vf.Advance(to - 1)
	vf.Assert("not-dropped-before-timeout", !done && tr.CloseCount == 0)
	vf.Advance(1)
	vf.Assert("dead-peer-detected-at-timeout", done && tr.CloseCount == 1)
	vf.Assert("conn-cancelled", c.ctx.Err() != nil)
	if late {
		c.msgRequestCh <- &message.Pong{RequestID: ps[answers].RequestID}
		vf.Settle()
		vf.Assert("late-pong-no-second-close", tr.CloseCount == 1)
	}
	vf.Reach("end")
}

// C15.a2: when the connection is already closed by the application, a failing ping does not close again.
func zzC15aClosedFirst() {
	tr := ZZNewFakeTransport()
	c := ZZNewClientConn(tr, nil)
	c.pingInterval = 100 * time.Millisecond
	c.pingTimeout = 30 * time.Millisecond
	go c.readRequestLoop()
	done := false
	go func() {
		c.keepAliveLoop()
		done = true
	}()
	vf.Settle()
	c.Close()
	vf.Settle()
	vf.Assert("loop-ended", done)
	vf.Assert("closed-once", tr.CloseCount == 1)
	vf.Reach("end")
}

func zzDrain[T any](ch chan T) []T {
	var out []T
	for {
		select {
		case v := <-ch:
			out = append(out, v)
		default:
			return out
		}
	}
}

// C07.b: the five dispatch loops deliver a message only to the channel registered for exactly its alias.
func zzC07bRouting() {
	c := ZZNewClientConn(ZZNewFakeTransport(), nil)
	a1, a2 := vf.U32("alias1"), vf.U32("alias2")
	vf.Assume(a1 != a2)
	m := vf.U32("msg.alias")
	which := vf.Choose("loop", 4)
	switch which {
	case 0: // upstream chunk acks
		ch1, ch2 := make(chan *message.UpstreamChunkAck, 4), make(chan *message.UpstreamChunkAck, 4)
		c.upstreams.acks[a1], c.upstreams.acks[a2] = ch1, ch2
		go c.readUpstreamChunkAckLoop()
		msg := &message.UpstreamChunkAck{StreamIDAlias: m}
		c.msgUpstreamChunkAckCh <- msg
		vf.Settle()
		g1, g2 := zzDrain(ch1), zzDrain(ch2)
		vf.Assert("ack-to-its-alias-only", (len(g1) == 1) == (m == a1) && (len(g2) == 1) == (m == a2) && len(g1)+len(g2) <= 1)
		if m == a1 {
			vf.Assert("ack-unmodified", len(g1) == 1 && g1[0] == msg)
		}
		vf.Assert("upstreams-lock-free", vf.RUnlocked(c.upstreams.mu))
	case 1: // reliable chunks
		ch1, ch2 := make(chan *message.DownstreamChunk, 4), make(chan *message.DownstreamChunk, 4)
		c.downstreams.dps[a1], c.downstreams.dps[a2] = ch1, ch2
		go c.readDownstreamChunkLoop()
		msg := &message.DownstreamChunk{StreamIDAlias: m}
		c.msgDownstreamChunkCh <- msg
		vf.Settle()
		g1, g2 := zzDrain(ch1), zzDrain(ch2)
		vf.Assert("chunk-to-its-alias-only", (len(g1) == 1) == (m == a1) && (len(g2) == 1) == (m == a2))
		if m == a2 {
			vf.Assert("chunk-unmodified", len(g2) == 1 && g2[0] == msg)
		}
		vf.Assert("downstreams-lock-free", vf.RUnlocked(c.downstreams.mu))
	case 2: // unreliable chunks
		ch1, ch2 := make(chan *message.DownstreamChunk, 4), make(chan *message.DownstreamChunk, 4)
		c.downstreams.dpsUnreliable[a1], c.downstreams.dpsUnreliable[a2] = ch1, ch2
		// a reliable subscription under the same alias must not receive it
		chR := make(chan *message.DownstreamChunk, 4)
		c.downstreams.dps[a1] = chR
		go c.readDownstreamChunkUnreliableLoop()
		msg := &message.DownstreamChunk{StreamIDAlias: m}
		c.msgDownstreamChunkUnreliableCh <- msg
		vf.Settle()
		g1, g2 := zzDrain(ch1), zzDrain(ch2)
		vf.Assert("unreliable-chunk-to-its-alias-only", (len(g1) == 1) == (m == a1) && (len(g2) == 1) == (m == a2))
		vf.Assert("unreliable-not-on-reliable-channel", len(zzDrain(chR)) == 0)
		vf.Assert("downstreams-lock-free", vf.RUnlocked(c.downstreams.mu))
	case 3: // ack completes
		ch1, ch2 := make(chan *message.DownstreamChunkAckComplete, 4), make(chan *message.DownstreamChunkAckComplete, 4)
		c.downstreams.ackCompletes[a1], c.downstreams.ackCompletes[a2] = ch1, ch2
		go c.readDownstreamChunkAckCompleteLoop()
		msg := &message.DownstreamChunkAckComplete{StreamIDAlias: m, AckID: vf.U32("ackid")}
		c.msgDownstreamChunkAckCompleteCh <- msg
		vf.Settle()
		g1, g2 := zzDrain(ch1), zzDrain(ch2)
		vf.Assert("ackcomplete-to-its-alias-only", (len(g1) == 1) == (m == a1) && (len(g2) == 1) == (m == a2))
		vf.Assert("downstreams-lock-free", vf.RUnlocked(c.downstreams.mu))
	}
	vf.Reach("end")
}

// C07.b (metadata) / C08.a: metadata is routed by (alias, source node); whatever arrives, the
// table lock is released again and the next message is still dispatched.
func zzC07bMetadata() {
	c := ZZNewClientConn(ZZNewFakeTransport(), nil)
	a1, a2 := vf.U32("alias1"), vf.U32("alias2")
	vf.Assume(a1 != a2)
	n1, n2 := vf.Str("node1"), vf.Str("node2")
	vf.Assume(n1 != n2)
	ch11 := make(chan *message.DownstreamMetadata, 4)
	ch12 := make(chan *message.DownstreamMetadata, 4)
	ch21 := make(chan *message.DownstreamMetadata, 4)
	c.downstreams.metadata[a1] = map[string]chan *message.DownstreamMetadata{n1: ch11, n2: ch12}
	c.downstreams.metadata[a2] = map[string]chan *message.DownstreamMetadata{n1: ch21}
	go c.readDownstreamMetadataLoop()
	ma, mn := vf.U32("msg.alias"), vf.Str("msg.node")
	vf.Known("KF-C08-metadata-loop-leaks-rlock", (ma == a1 && mn != n1 && mn != n2) || (ma == a2 && mn != n1))
	msg := &message.DownstreamMetadata{StreamIDAlias: ma, SourceNodeID: mn}
	c.msgDownstreamMetaDataCh <- msg
	vf.Settle()
	g11, g12, g21 := zzDrain(ch11), zzDrain(ch12), zzDrain(ch21)
	vf.Assert("meta-routed-by-alias-and-node",
		(len(g11) == 1) == (ma == a1 && mn == n1) && (len(g12) == 1) == (ma == a1 && mn == n2) && (len(g21) == 1) == (ma == a2 && mn == n1))
	vf.Assert("table-lock-released", vf.RUnlocked(c.downstreams.mu))
	// dispatching keeps running: a following well-addressed message is still delivered, and a
	// subscriber can still take the table lock
	c.msgDownstreamMetaDataCh <- &message.DownstreamMetadata{StreamIDAlias: a2, SourceNodeID: n1}
	vf.Settle()
	vf.Assert("next-message-still-delivered", len(zzDrain(ch21)) == 1)
	blocked := vf.Blocked(func() { c.SubscribeDownstreamMeta(context.Background(), a1, n1) })
	vf.Assert("subscribe-not-blocked", !blocked)
	vf.Reach("end")
}

// zzAutoReply makes the scripted transport answer close requests (as the broker would) through
// the real reply dispatcher.
func zzAutoReply(c *ClientConn, tr *ZZFakeTransport) {
	go c.readRequestLoop()
	tr.OnWrite = func(m message.Message) error {
		switch r := m.(type) {
		case *message.UpstreamCloseRequest:
			c.msgRequestCh <- &message.UpstreamCloseResponse{RequestID: r.RequestID, ResultCode: message.ResultCodeSucceeded}
		case *message.DownstreamCloseRequest:
			c.msgRequestCh <- &message.DownstreamCloseResponse{RequestID: r.RequestID, ResultCode: message.ResultCodeSucceeded}
		}
		return nil
	}
}

// C07.c: routing follows the table as it is when a message arrives: after a stream is closed or its
// alias is registered again (alias reuse), later messages go where the current table says — and the
// lifecycle operation on one stream leaves the other stream's entries alone.
func zzC07cUpstreamLifecycle() {
	tr := ZZNewFakeTransport()
	c := ZZNewClientConn(tr, nil)
	zzAutoReply(c, tr)
	ctx := context.Background()
	a1, a2 := vf.U32("alias1"), vf.U32("alias2")
	vf.Assume(a1 != a2)
	var id1, id2 [16]byte
	copy(id1[:], vf.BytesN("id1", 16))
	copy(id2[:], vf.BytesN("id2", 16))
	vf.Assume(id1 != id2)
	c.openUpstream(ctx, message.QoSReliable, id1, a1)
	c.openUpstream(ctx, message.QoSReliable, id2, a2)
	ch1, _ := c.SubscribeUpstreamChunkAck(ctx, a1)
	ch2, _ := c.SubscribeUpstreamChunkAck(ctx, a2)
	go c.readUpstreamChunkAckLoop()
	// first message (any alias)
	m1 := vf.U32("msg1.alias")
	c.msgUpstreamChunkAckCh <- &message.UpstreamChunkAck{StreamIDAlias: m1}
	vf.Settle()
	n1a, n2a := len(ch1), len(ch2)
	vf.Assert("first-routed", (n1a == 1) == (m1 == a1) && (n2a == 1) == (m1 == a2))
	// lifecycle operation on stream 1
	op := vf.Choose("op", 2)
	var chNew <-chan *message.UpstreamChunkAck
	switch op {
	case 0: // close stream 1
		_, err := c.SendUpstreamCloseRequest(ctx, &message.UpstreamCloseRequest{StreamID: id1})
		vf.Assert("close-ok", err == nil)
		_, still := c.upstreams.acks[a1]
		_, stillW := c.upstreams.messageWriters[a1]
		_, stillA := c.upstreams.aliases[id1]
		vf.Assert("closed-stream-entries-removed", !still && !stillW && !stillA)
	case 1: // the broker hands alias 1 to a new stream
		var id3 [16]byte
		copy(id3[:], vf.BytesN("id3", 16))
		vf.Assume(id3 != id1 && id3 != id2)
		c.openUpstream(ctx, message.QoSReliable, id3, a1)
		chNew, _ = c.SubscribeUpstreamChunkAck(ctx, a1)
	}
	// the other stream is untouched
	got2, ok2 := c.upstreams.acks[a2]
	vf.Assert("other-stream-ack-channel-kept", ok2 && (<-chan *message.UpstreamChunkAck)(got2) == ch2)
	_, w2 := c.upstreams.messageWriters[a2]
	al2, okAl2 := c.upstreams.aliases[id2]
	vf.Assert("other-stream-writer-and-alias-kept", w2 && okAl2 && al2 == a2)
	// second message
	m2 := vf.U32("msg2.alias")
	msg2 := &message.UpstreamChunkAck{StreamIDAlias: m2}
	c.msgUpstreamChunkAckCh <- msg2
	vf.Settle()
	d1, d2 := len(ch1)-n1a, len(ch2)-n2a
	vf.Assert("other-stream-still-gets-its-acks", (d2 == 1) == (m2 == a2))
	if op == 0 {
		vf.Assert("closed-stream-gets-nothing", d1 == 0)
	} else {
		vf.Assert("old-channel-of-reused-alias-gets-nothing", d1 == 0)
		vf.Assert("reused-alias-routes-to-the-new-stream", (len(chNew) == 1) == (m2 == a1))
	}
	vf.Assert("lock-free", vf.RUnlocked(c.upstreams.mu))
	vf.Reach("end")
}

func zzC07cDownstreamLifecycle() {
	tr := ZZNewFakeTransport()
	c := ZZNewClientConn(tr, nil)
	zzAutoReply(c, tr)
	ctx := context.Background()
	a1, a2 := vf.U32("alias1"), vf.U32("alias2")
	vf.Assume(a1 != a2)
	var id1, id2 [16]byte
	copy(id1[:], vf.BytesN("id1", 16))
	copy(id2[:], vf.BytesN("id2", 16))
	vf.Assume(id1 != id2)
	ch1, e1 := c.SubscribeDownstreamChunk(ctx, a1, message.QoSReliable)
	ch2, e2 := c.SubscribeDownstreamChunk(ctx, a2, message.QoSReliable)
	vf.Assume(e1 == nil && e2 == nil)
	c.downstreams.aliases[id1], c.downstreams.aliases[id2] = a1, a2
	go c.readDownstreamChunkLoop()
	m1 := vf.U32("msg1.alias")
	c.msgDownstreamChunkCh <- &message.DownstreamChunk{StreamIDAlias: m1}
	vf.Settle()
	n1a, n2a := len(ch1), len(ch2)
	vf.Assert("first-routed", (n1a == 1) == (m1 == a1) && (n2a == 1) == (m1 == a2))
	_, err := c.SendDownstreamCloseRequest(ctx, &message.DownstreamCloseRequest{StreamID: id1})
	vf.Assert("close-ok", err == nil)
	_, still := c.downstreams.dps[a1]
	vf.Assert("closed-stream-entries-removed", !still)
	reuse := vf.Choose("alias.reused", 2) == 1
	var chNew <-chan *message.DownstreamChunk
	if reuse {
		var e3 error
		chNew, e3 = c.SubscribeDownstreamChunk(ctx, a1, message.QoSReliable)
		vf.Assert("alias-can-be-subscribed-again", e3 == nil)
	}
	got2, ok2 := c.downstreams.dps[a2]
	vf.Assert("other-stream-channel-kept", ok2 && (<-chan *message.DownstreamChunk)(got2) == ch2 && c.downstreams.aliases[id2] == a2)
	m2 := vf.U32("msg2.alias")
	c.msgDownstreamChunkCh <- &message.DownstreamChunk{StreamIDAlias: m2}
	vf.Settle()
	d1, d2 := len(ch1)-n1a, len(ch2)-n2a
	vf.Assert("other-stream-still-gets-its-chunks", (d2 == 1) == (m2 == a2))
	vf.Assert("closed-stream-channel-gets-nothing", d1 == 0)
	if reuse {
		vf.Assert("reused-alias-routes-to-the-new-subscription", (len(chNew) == 1) == (m2 == a1))
	}
	vf.Assert("lock-free", vf.RUnlocked(c.downstreams.mu))
	vf.Reach("end")
}


// C06.d: a caller that gives up does not poison later callers: a late response for an abandoned
// request id is ignored, and the next caller gets exactly the response bearing its own id.
func zzC06dAbandoned() {
	tr := ZZNewFakeTransport()
	c := ZZNewClientConn(tr, nil)
	go c.readRequestLoop()
	idA, idB := vf.U32("idA"), vf.U32("idB")
	vf.Assume(idA != idB)
	how := vf.Choose("a.ends.by", 3) // 0: context cancelled, 1: write error, 2: answered normally
	ctxA, cancelA := context.WithCancel(context.Background())
	defer cancelA()
	var gotA message.Request
	var errA error
	doneA := false
	if how == 1 {
		tr.WriteErr = errors.New("write failed")
	}
	go func() {
		gotA, errA = c.sendRequest(ctxA, &message.UpstreamMetadata{RequestID: message.RequestID(idA)})
		doneA = true
	}()
	vf.Settle()
	tr.WriteErr = nil
	ackA := &message.UpstreamMetadataAck{RequestID: message.RequestID(idA), ResultString: "for-A"}
	switch how {
	case 0:
		cancelA()
		vf.Settle()
		vf.Assert("cancelled-caller-returns", doneA && gotA == nil && errA != nil)
		c.msgRequestCh <- ackA // the broker answers late
		vf.Settle()
	case 1:
		vf.Assert("failed-write-returns", doneA && gotA == nil && errA != nil)
		c.msgRequestCh <- ackA
		vf.Settle()
	case 2:
		c.msgRequestCh <- ackA
		vf.Settle()
		vf.Assert("answered-caller-returns-its-reply", doneA && errA == nil && gotA == message.Request(ackA))
		c.msgRequestCh <- ackA // duplicate of an already answered id
		vf.Settle()
	}
	// next caller, any kind of request
	var gotB message.Request
	var errB error
	doneB := false
	go func() {
		gotB, errB = c.sendRequest(context.Background(), &message.Ping{RequestID: message.RequestID(idB)})
		doneB = true
	}()
	vf.Settle()
	vf.Assert("next-caller-waits-for-its-own-reply", !doneB)
	pong := &message.Pong{RequestID: message.RequestID(idB)}
	c.msgRequestCh <- pong
	vf.Settle()
	vf.Assert("next-caller-gets-exactly-its-reply", doneB && errB == nil && gotB == message.Request(pong))
	vf.Assert("lock-free", vf.Unlocked(&c.mu))
	vf.Reach("end")
}

// C15.c: the ping interval and timeout announced in the connect request are the configured ones
// (the defaults when unset), and the client's own keepalive runs on the same values.
func zzC15cAnnounced() {
	tr := ZZNewFakeTransport()
	iv := vf.Dur("interval", 86400)
	to := vf.Dur("timeout", 86400)
	tr.OnWrite = func(m message.Message) error {
		if r, ok := m.(*message.ConnectRequest); ok {
			tr.In <- &message.ConnectResponse{RequestID: r.RequestID, ProtocolVersion: r.ProtocolVersion, ResultCode: message.ResultCodeSucceeded}
		}
		return nil
	}
	c, err := Connect(&ClientConnConfig{Transport: tr, ProtocolVersion: "2.0.0", NodeID: "node", PingInterval: iv, PingTimeout: to})
	vf.Assert("connected", err == nil && c != nil)
	if c == nil {
		return
	}
	var cr *message.ConnectRequest
	for _, m := range tr.Msgs() {
		if r, ok := m.(*message.ConnectRequest); ok {
			cr = r
		}
	}
	vf.Assert("connect-request-sent", cr != nil)
	if cr == nil {
		return
	}
	wantIv, wantTo := iv, to
	if iv == 0 {
		wantIv = 10 * time.Second
	}
	if to == 0 {
		wantTo = time.Second
	}
	vf.Assert("announced-interval-is-the-configured-one", cr.PingInterval == wantIv)
	vf.Assert("announced-timeout-is-the-configured-one", cr.PingTimeout == wantTo)
	vf.Assert("own-keepalive-uses-the-configured-values", c.pingInterval == wantIv && c.pingTimeout == wantTo)
	vf.Reach("end")
}

// C12.w: a broker that answers a request id with a response of the wrong type must not crash the
// client: every request sender returns its own response type or an error, never panics.
func zzC12wWrongTypedResponse() {
	tr := ZZNewFakeTransport()
	c := ZZNewClientConn(tr, nil)
	go c.readRequestLoop()
	respKind := vf.Choose("response.type", 9)
	mk := func(id message.RequestID) message.Request {
		switch respKind {
		case 0:
			return &message.Pong{RequestID: id}
		case 1:
			return &message.UpstreamOpenResponse{RequestID: id, AssignedStreamID: uuid.UUID{1}, AssignedStreamIDAlias: 1}
		case 2:
			return &message.UpstreamResumeResponse{RequestID: id, AssignedStreamIDAlias: 1}
		case 3:
			return &message.UpstreamCloseResponse{RequestID: id}
		case 4:
			return &message.DownstreamOpenResponse{RequestID: id, AssignedStreamID: uuid.UUID{2}}
		case 5:
			return &message.DownstreamResumeResponse{RequestID: id}
		case 6:
			return &message.DownstreamCloseResponse{RequestID: id}
		case 7:
			return &message.UpstreamMetadataAck{RequestID: id}
		}
		return &message.UpstreamCloseResponse{RequestID: id, ResultCode: message.ResultCodeStreamNotFound}
	}
	tr.OnWrite = func(m message.Message) error {
		if r, ok := m.(message.Request); ok {
			c.msgRequestCh <- mk(message.RequestID(r.GetRequestID()))
		}
		return nil
	}
	ctx := context.Background()
	reqKind := vf.Choose("request", 8)
	var err error
	var gotRight bool
	panicked := vf.Panics(func() {
		switch reqKind {
		case 0:
			// the ping sender is reached through the keepalive loop: a pong keeps the connection,
			// anything else makes the keepalive give the connection up
			c.pingInterval, c.pingTimeout = 10*time.Second, time.Second
			go c.keepAliveLoop()
			vf.Settle()
			if c.ctx.Err() != nil {
				err = c.ctx.Err()
			} else {
				gotRight = true
			}
		case 1:
			var r *message.UpstreamOpenResponse
			r, err = c.SendUpstreamOpenRequest(ctx, &message.UpstreamOpenRequest{SessionID: "s", QoS: message.QoSReliable})
			gotRight = r != nil
		case 2:
			var r *message.UpstreamResumeResponse
			r, err = c.SendUpstreamResumeRequest(ctx, &message.UpstreamResumeRequest{StreamID: uuid.UUID{1}}, message.QoSReliable)
			gotRight = r != nil
		case 3:
			var r *message.UpstreamCloseResponse
			r, err = c.SendUpstreamCloseRequest(ctx, &message.UpstreamCloseRequest{StreamID: uuid.UUID{1}})
			gotRight = r != nil
		case 4:
			var r *message.DownstreamOpenResponse
			r, err = c.SendDownstreamOpenRequest(ctx, &message.DownstreamOpenRequest{DesiredStreamIDAlias: 3, QoS: message.QoSReliable})
			gotRight = r != nil
		case 5:
			var r *message.DownstreamResumeResponse
			r, err = c.SendDownstreamResumeRequest(ctx, &message.DownstreamResumeRequest{StreamID: uuid.UUID{2}, DesiredStreamIDAlias: 3})
			gotRight = r != nil
		case 6:
			var r *message.DownstreamCloseResponse
			r, err = c.SendDownstreamCloseRequest(ctx, &message.DownstreamCloseRequest{StreamID: uuid.UUID{2}})
			gotRight = r != nil
		case 7:
			var r *message.UpstreamMetadataAck
			r, err = c.SendUpstreamMetadata(ctx, &message.UpstreamMetadata{Metadata: &message.BaseTime{Name: "n"}})
			gotRight = r != nil
		}
	})
	vf.Assert("wrong-typed-response-never-panics", !panicked)
	right := reqKind == respKind || (reqKind == 3 && respKind == 8) // 8 is a second, negative, UpstreamCloseResponse
	if right {
		vf.Assert("right-typed-response-is-returned", err == nil && gotRight)
	} else {
		vf.Assert("wrong-typed-response-is-an-error", err != nil && !gotRight)
	}
	vf.Assert("locks-free", vf.Unlocked(&c.mu) && vf.RUnlocked(c.upstreams.mu) && vf.RUnlocked(c.downstreams.mu))
	vf.Reach("end")
}

// C06.e: three requests of different kinds in flight at once through the public senders; the broker
// answers in any of the six orders (optionally with a duplicate and an unknown id in between): every
// caller gets exactly the response bearing its own request id, ids are even and pairwise distinct.
var zzWireDeviations = 0

func zzC06eThreeInFlightDev2() { zzWireDeviations = 2; zzC06eThreeInFlight() }
func zzC12dHostileDev2()       { zzWireDeviations = 2; zzC12dHostileSequences() }
func zzC15b2BacklogDev2()      { zzWireDeviations = 2; zzC15b2PingBacklog() }
func zzC06eThreeInFlightDev1() { zzWireDeviations = 1; zzC06eThreeInFlight() }
func zzC06fResponseBurstDev1() { zzWireDeviations = 1; zzC06fResponseBurst() }
func zzC12dHostileDev1()       { zzWireDeviations = 1; zzC12dHostileSequences() }
func zzC15b2BacklogDev1()      { zzWireDeviations = 1; zzC15b2PingBacklog() }

func zzC06eThreeInFlight() {
	tr := ZZNewFakeTransport()
	c := ZZNewClientConn(tr, nil)
	vf.Deviations(zzWireDeviations)
	go c.readRequestLoop()
	ctx := context.Background()
	var r1 *message.UpstreamOpenResponse
	var r2 *message.UpstreamMetadataAck
	var r3 *message.DownstreamOpenResponse
	var e1, e2, e3 error
	d1, d2, d3 := false, false, false
	go func() { r1, e1 = c.SendUpstreamOpenRequest(ctx, &message.UpstreamOpenRequest{SessionID: "s", QoS: message.QoSReliable}); d1 = true }()
	go func() { r2, e2 = c.SendUpstreamMetadata(ctx, &message.UpstreamMetadata{Metadata: &message.BaseTime{Name: "n"}}); d2 = true }()
	go func() { r3, e3 = c.SendDownstreamOpenRequest(ctx, &message.DownstreamOpenRequest{DesiredStreamIDAlias: 9, QoS: message.QoSReliable}); d3 = true }()
	vf.Settle()
	var id1, id2, id3 uint32
	n := 0
	for _, m := range tr.Msgs() {
		switch q := m.(type) {
		case *message.UpstreamOpenRequest:
			id1 = uint32(q.RequestID)
			n++
		case *message.UpstreamMetadata:
			id2 = uint32(q.RequestID)
			n++
		case *message.DownstreamOpenRequest:
			id3 = uint32(q.RequestID)
			n++
		}
	}
	vf.Assert("three-requests-on-the-wire", n == 3 && len(tr.Msgs()) == 3)
	vf.Assert("ids-even-and-distinct", id1%2 == 0 && id2%2 == 0 && id3%2 == 0 && id1 != id2 && id1 != id3 && id2 != id3)
	vf.Assert("all-waiting", !d1 && !d2 && !d3)
	a1 := &message.UpstreamOpenResponse{RequestID: message.RequestID(id1), AssignedStreamID: uuid.UUID{1}, AssignedStreamIDAlias: vf.U32("alias")}
	a2 := &message.UpstreamMetadataAck{RequestID: message.RequestID(id2), ResultString: "meta"}
	a3 := &message.DownstreamOpenResponse{RequestID: message.RequestID(id3), AssignedStreamID: uuid.UUID{3}}
	answers := []message.Request{a1, a2, a3}
	perm := [][3]int{{0, 1, 2}, {0, 2, 1}, {1, 0, 2}, {1, 2, 0}, {2, 0, 1}, {2, 1, 0}}[vf.Choose("order", 6)]
	noise := vf.Choose("noise", 3) // 0 none, 1 duplicate of the first answer, 2 unknown id
	for k, i := range perm {
		c.msgRequestCh <- answers[i]
		vf.Settle()
		done := []bool{d1, d2, d3}
		cnt := 0
		for _, d := range done {
			if d {
				cnt++
			}
		}
		vf.Assert("exactly-the-answered-callers-returned", cnt == k+1 && done[i])
		if k == 0 && noise == 1 {
			c.msgRequestCh <- answers[i]
			vf.Settle()
		}
		if k == 0 && noise == 2 {
			unk := vf.U32("unknown.id") // any id nobody is waiting for (the already answered one included)
			vf.Assume(unk != uint32(answers[perm[1]].GetRequestID()) && unk != uint32(answers[perm[2]].GetRequestID()))
			c.msgRequestCh <- &message.UpstreamCloseResponse{RequestID: message.RequestID(unk)}
			vf.Settle()
		}
	}
	vf.Assert("all-returned", d1 && d2 && d3)
	vf.Assert("each-got-its-own-response", e1 == nil && e2 == nil && e3 == nil && r1 == a1 && r2 == a2 && r3 == a3)
	vf.Assert("no-waiter-left", len(c.replyCh) == 0 && vf.Unlocked(&c.mu))
	vf.Reach("end")
}

// C06.f: a burst of responses while the reply router is stalled (it waits for the table mutex):
// however many requests are in flight and in whatever order the broker answers, none of the
// responses is lost on the way from the read loop to the router.
func zzC06fResponseBurst() {
	tr := ZZNewFakeTransport()
	tr.In = make(chan message.Message, 64)
	c := ZZNewClientConn(tr, nil)
	vf.Deviations(zzWireDeviations)
	go c.readReliableLoop()
	ctx := context.Background()
	const n = 14
	var acks [n]*message.UpstreamMetadataAck
	var errs [n]error
	var done [n]bool
	for i := 0; i < n; i++ {
		i := i
		go func() {
			acks[i], errs[i] = c.SendUpstreamMetadata(ctx, &message.UpstreamMetadata{Metadata: &message.BaseTime{Name: "n"}})
			done[i] = true
		}()
	}
	vf.Settle()
	var ids []uint32
	for _, m := range tr.Msgs() {
		if q, ok := m.(*message.UpstreamMetadata); ok {
			ids = append(ids, uint32(q.RequestID))
		}
	}
	vf.Assert("all-requests-on-the-wire", len(ids) == n)
	if len(ids) != n {
		return
	}
	// the router is stalled: somebody holds the reply-table mutex
	c.mu.Lock()
	newestFirst := vf.Choose("answer.order", 2) == 1
	for k := 0; k < n; k++ {
		j := k
		if newestFirst {
			j = n - 1 - k
		}
		tr.In <- &message.UpstreamMetadataAck{RequestID: message.RequestID(ids[j]), ResultString: string(rune('a' + j))}
	}
	vf.Settle()
	c.mu.Unlock()
	vf.Settle()
	got := 0
	for i := 0; i < n; i++ {
		if done[i] {
			got++
		}
	}
	vf.Assert("every-caller-returns", got == n)
	for i := 0; i < n; i++ {
		if done[i] {
			vf.Assert("each-caller-gets-the-response-with-its-own-id", errs[i] == nil && acks[i] != nil)
		}
	}
	// the response object each caller holds bears an id that was issued, and no two callers share one
	seen := map[uint32]bool{}
	for i := 0; i < n; i++ {
		if acks[i] != nil {
			id := uint32(acks[i].RequestID)
			vf.Assert("no-response-delivered-twice", !seen[id])
			seen[id] = true
		}
	}
	vf.Assert("no-waiter-left", len(c.replyCh) == 0)
	vf.Reach("end")
}

// C12.d: hostile frame sequences on the read path never hang it: a response frame repeated back to
// back (before the waiting caller has run), responses for unknown ids and acks / chunks / metadata
// for unknown aliases in a burst leave the dispatchers running, and an unrelated later request still
// gets its response.
func zzC12dHostileSequences() {
	tr := ZZNewFakeTransport()
	tr.In = make(chan message.Message, 64)
	c := ZZNewClientConn(tr, nil)
	vf.Deviations(zzWireDeviations)
	go c.readReliableLoop()
	ctx := context.Background()
	// (a close request stands for "a pending request": the senders share the reply router)
	var pong *message.UpstreamCloseResponse
	var perr error
	done := false
	go func() {
		pong, perr = c.SendUpstreamCloseRequest(ctx, &message.UpstreamCloseRequest{StreamID: uuid.UUID{1}})
		done = true
	}()
	vf.Settle()
	var pingID message.RequestID
	for _, m := range tr.Msgs() {
		if p, ok := m.(*message.UpstreamCloseRequest); ok {
			pingID = p.RequestID
		}
	}
	copies := 2 + vf.Choose("extra.copies", 3)
	// the frames pile up in front of the reply router (stalled on the table mutex for a moment), so
	// that it meets them back to back, before any waiting caller has had a chance to run
	c.mu.Lock()
	switch vf.Choose("hostile.sequence", 3) {
	case 0: // the same response frame several times in a row
		for i := 0; i < copies; i++ {
			tr.In <- &message.UpstreamCloseResponse{RequestID: pingID}
		}
	case 1: // a burst of responses nobody waits for, then the real one
		for i := 0; i < 12; i++ {
			tr.In <- &message.UpstreamMetadataAck{RequestID: message.RequestID(uint32(pingID) + 2*uint32(i+1))}
		}
		tr.In <- &message.UpstreamCloseResponse{RequestID: pingID}
	case 2: // a burst of stream traffic for aliases nobody subscribed, then the real one
		for i := 0; i < 12; i++ {
			tr.In <- &message.UpstreamChunkAck{StreamIDAlias: uint32(100 + i)}
			tr.In <- &message.DownstreamChunk{StreamIDAlias: uint32(100 + i), UpstreamOrAlias: message.UpstreamAlias(1), StreamChunk: &message.StreamChunk{}}
			tr.In <- &message.DownstreamMetadata{StreamIDAlias: uint32(100 + i), SourceNodeID: "x", Metadata: &message.BaseTime{}}
			tr.In <- &message.DownstreamChunkAckComplete{StreamIDAlias: uint32(100 + i)}
		}
		tr.In <- &message.UpstreamCloseResponse{RequestID: pingID}
	}
	vf.Settle()
	c.mu.Unlock()
	vf.Settle()
	vf.Assert("pending-caller-answered", done && perr == nil && pong != nil && pong.RequestID == pingID)
	// the read path is still alive: an unrelated request gets its response
	tr.OnWrite = func(m message.Message) error {
		if q, ok := m.(*message.UpstreamMetadata); ok {
			tr.In <- &message.UpstreamMetadataAck{RequestID: q.RequestID}
		}
		return nil
	}
	var ack *message.UpstreamMetadataAck
	var aerr error
	blocked := vf.Blocked(func() { ack, aerr = c.SendUpstreamMetadata(ctx, &message.UpstreamMetadata{Metadata: &message.BaseTime{Name: "n"}}) })
	vf.Assert("read-path-not-hung", !blocked && aerr == nil && ack != nil)
	vf.Assert("locks-free", vf.Unlocked(&c.mu) && vf.RUnlocked(c.upstreams.mu) && vf.RUnlocked(c.downstreams.mu))
	vf.Reach("end")
}

// C15.e: keepalive under application traffic nobody consumes: a flood of reliable chunks / acks /
// ack-completes / metadata for a subscribed stream whose reader is far behind (more than every
// queue on the way holds) must not stop the pongs from reaching the keepalive: a broker that
// answers every ping is never given up.
func zzC15eFloodDoesNotStarvePongs() {
	tr := ZZNewFakeTransport()
	tr.In = make(chan message.Message, 4096)
	c := ZZNewClientConn(tr, nil)
	c.pingInterval = 10 * time.Second
	c.pingTimeout = time.Second
	tr.OnWrite = func(m message.Message) error {
		if p, ok := m.(*message.Ping); ok {
			tr.In <- &message.Pong{RequestID: p.RequestID}
		}
		return nil
	}
	ctx := context.Background()
	kind := vf.Choose("flood", 4)
	const alias = 7
	c.SubscribeDownstreamChunk(ctx, alias, message.QoSReliable)
	c.SubscribeDownstreamChunkAckComplete(ctx, alias)
	c.SubscribeDownstreamMeta(ctx, alias, "node")
	ZZOpenUpstream(c, message.QoSReliable, uuid.UUID{9}, alias)
	go c.readReliableLoop()
	done := false
	go func() { c.keepAliveLoop(); done = true }()
	vf.Settle()
	for i := 0; i < 1100; i++ {
		switch kind {
		case 0:
			tr.In <- &message.DownstreamChunk{StreamIDAlias: alias, UpstreamOrAlias: message.UpstreamAlias(1), StreamChunk: &message.StreamChunk{SequenceNumber: uint32(i)}}
		case 1:
			tr.In <- &message.UpstreamChunkAck{StreamIDAlias: alias}
		case 2:
			tr.In <- &message.DownstreamChunkAckComplete{StreamIDAlias: alias, AckID: uint32(i)}
		case 3:
			tr.In <- &message.DownstreamMetadata{StreamIDAlias: alias, SourceNodeID: "node", Metadata: &message.BaseTime{}}
		}
	}
	vf.Settle()
	for i := 0; i < 3; i++ {
		vf.Advance(10 * time.Second)
		vf.Advance(time.Second + 100*time.Millisecond)
		vf.Assert("live-broker-never-given-up-under-unread-traffic", !done && tr.CloseCount == 0)
	}
	pings, pongsSeen := 0, 0
	for _, m := range tr.Msgs() {
		if _, ok := m.(*message.Ping); ok {
			pings++
		}
	}
	_ = pongsSeen
	vf.Assert("keepalive-kept-pinging", pings >= 3)
	vf.Reach("end")
}

// C06.g: a request whose write fails does not give its id back: ids stay distinct from every id used
// on the connection, also when another caller drew the next id while the failing write was under
// way; the caller in flight keeps its reply slot and gets its own response, and so does the next one.
func zzC06gFailedWriteKeepsIdsUnique() {
	tr := ZZNewFakeTransport()
	c := ZZNewClientConn(tr, nil)
	vf.Deviations(zzWireDeviations)
	go c.readRequestLoop()
	ctx := context.Background()
	inWrite := make(chan struct{}, 1)
	goOn := make(chan struct{})
	failErr := fmt.Errorf("encode: unsupported value")
	var ids []uint32
	tr.OnWrite = func(m message.Message) error {
		r, ok := m.(message.Request)
		if !ok {
			return nil
		}
		ids = append(ids, r.GetRequestID())
		if _, isMeta := m.(*message.UpstreamMetadata); isMeta {
			inWrite <- struct{}{}
			<-goOn
			return failErr // the write of A fails (the connection itself stays up)
		}
		return nil
	}
	var errA, errB, errC error
	var respB *message.UpstreamOpenResponse
	var respC *message.UpstreamCloseResponse
	doneA, doneB, doneC := false, false, false
	go func() { _, errA = c.SendUpstreamMetadata(ctx, &message.UpstreamMetadata{Metadata: &message.BaseTime{Name: "n"}}); doneA = true }()
	vf.Settle()
	held := false
	select {
	case <-inWrite:
		held = true
	default:
	}
	vf.Assume(held)
	go func() { respB, errB = c.SendUpstreamOpenRequest(ctx, &message.UpstreamOpenRequest{SessionID: "s", QoS: message.QoSReliable}); doneB = true }()
	vf.Settle()
	vf.Assert("second-request-in-flight", !doneB && len(ids) == 2)
	close(goOn)
	vf.Settle()
	vf.Assert("failed-write-is-an-error-for-its-caller-only", doneA && errA != nil && !doneB)
	go func() { respC, errC = c.SendUpstreamCloseRequest(ctx, &message.UpstreamCloseRequest{StreamID: uuid.UUID{1}}); doneC = true }()
	vf.Settle()
	vf.Assert("three-ids-drawn", len(ids) == 3)
	if len(ids) != 3 {
		return
	}
	vf.Assert("request-ids-pairwise-distinct-and-even", ids[0] != ids[1] && ids[0] != ids[2] && ids[1] != ids[2] && ids[0]%2 == 0 && ids[1]%2 == 0 && ids[2]%2 == 0)
	// the broker answers the two requests that reached it, each under its id
	c.msgRequestCh <- &message.UpstreamCloseResponse{RequestID: message.RequestID(ids[2])}
	c.msgRequestCh <- &message.UpstreamOpenResponse{RequestID: message.RequestID(ids[1]), AssignedStreamID: uuid.UUID{1}, AssignedStreamIDAlias: 5}
	vf.Settle()
	vf.Assert("each-caller-gets-the-response-bearing-its-own-id", doneB && doneC && errB == nil && errC == nil && respB != nil && respC != nil &&
		uint32(respB.RequestID) == ids[1] && uint32(respC.RequestID) == ids[2])
	vf.Reach("end")
}
