// Package vfmsg builds one value of every protocol message type for the /verif codec lemmas.
// With Profile < 0 every scalar field is a solver variable (vf.*); with Profile 0..4 the fields take
// boundary representatives (zero, one, the last one-byte varint, the first two-byte varint, the
// maximum), rotated by field so that neighbouring fields differ.
package vfmsg

import (
	"time"

	"github.com/aptpod/iscp-go/internal/vf"
	"github.com/aptpod/iscp-go/message"
	uuid "github.com/google/uuid"
)

const msgPkg = "github.com/aptpod/iscp-go/message"

// Kinds is the number of message shapes Build knows.
const Kinds = 43

type Gen struct {
	Profile int
	Deep    bool // thorough tier: collections of up to 3 entries, payloads of 4 symbolic bytes
	n       int
}

func (g *Gen) max(m int) int {
	if g.Deep {
		return m + 1
	}
	return m
}

func (g *Gen) pick() int {
	g.n++
	return (g.Profile + g.n) % 5
}

// lbl makes every drawn variable's label unique (fields are drawn in a fixed order per kind).
func (g *Gen) lbl(l string) string {
	g.n++
	n, d := g.n, ""
	for n > 0 {
		d = string(rune('0'+n%10)) + d
		n /= 10
	}
	return l + "#" + d
}

func (g *Gen) U32(l string) uint32 {
	if g.Profile < 0 {
		return vf.U32(g.lbl(l))
	}
	return [...]uint32{0, 1, 127, 128, 0xffffffff}[g.pick()]
}

func (g *Gen) U64(l string) uint64 {
	if g.Profile < 0 {
		return vf.U64(g.lbl(l))
	}
	return [...]uint64{0, 1, 127, 1 << 35, 0xffffffffffffffff}[g.pick()]
}

func (g *Gen) U8(l string) uint8 {
	if g.Profile < 0 {
		return vf.U8(g.lbl(l))
	}
	return [...]uint8{0, 1, 127, 128, 255}[g.pick()]
}

func (g *Gen) Bool(l string) bool {
	if g.Profile < 0 {
		return vf.Bool(g.lbl(l))
	}
	return g.pick()%2 == 1
}

func (g *Gen) Str(l string) string {
	if g.Profile < 0 {
		return vf.Str(g.lbl(l))
	}
	return [...]string{"", "a", "name/" + l, "日本語-✓", "0123456789012345678901234567890123456789012345678901234567890123456789012345678901234567890123456789012345678901234567890123456789"}[g.pick()]
}

func (g *Gen) Bytes(l string) []byte {
	if g.Profile < 0 {
		if g.Deep {
			return vf.BytesN(g.lbl(l), 4)
		}
		return vf.BytesN(g.lbl(l), 2)
	}
	switch g.pick() {
	case 0:
		return nil
	case 1:
		return []byte{}
	case 2:
		return []byte{0}
	case 3:
		return []byte{1, 2, 0xff}
	}
	b := make([]byte, 200)
	for i := range b {
		b[i] = byte(i)
	}
	return b
}

func (g *Gen) UUID(l string) uuid.UUID {
	var u uuid.UUID
	if g.Profile < 0 {
		for i := range u {
			u[i] = vf.U8(g.lbl(l))
		}
		return u
	}
	k := byte(g.pick())
	for i := range u {
		u[i] = k*50 + byte(i)
	}
	return u
}

// Code and QoS rotate over defined values in every profile (the totality of the enum mappings over
// all 2^32 values is the subject of C11.a1-a3; a symbolic code here would only multiply paths by
// the size of the mapping switch).
func (g *Gen) Code(l string) message.ResultCode {
	g.n++
	return [...]message.ResultCode{message.ResultCodeIncompatibleVersion, message.ResultCodeAuthFailed, message.ResultCodeSucceeded, message.ResultCodeUnspecifiedError, message.ResultCodeSessionAlreadyClosed}[(g.Profile+6+g.n)%5]
}

func (g *Gen) QoS(l string) message.QoS {
	g.n++
	return [...]message.QoS{message.QoSReliable, message.QoSPartial, message.QoSUnreliable}[(g.Profile+6+g.n)%3]
}

// Secs / Millis are durations that are whole multiples of the wire unit (the canonical form).
func (g *Gen) Secs(l string) time.Duration {
	if g.Profile < 0 {
		return vf.Dur(g.lbl(l), 1<<31) / time.Second * time.Second
	}
	return time.Duration([...]int64{0, 1, 127, 128, 0xffffffff}[g.pick()]) * time.Second
}

func (g *Gen) Millis(l string) time.Duration {
	if g.Profile < 0 {
		return vf.Dur(g.lbl(l), 4000000) / time.Millisecond * time.Millisecond
	}
	return time.Duration([...]int64{0, 1, 127, 128, 0xffffffff}[g.pick()]) * time.Millisecond
}

// Nanos is an elapsed time carried in nanoseconds (non-negative on the wire).
func (g *Gen) Nanos(l string) time.Duration {
	if g.Profile < 0 {
		d := time.Duration(vf.I64(g.lbl(l)))
		vf.Assume(d >= 0)
		return d
	}
	return time.Duration([...]int64{0, 1, 127, 1 << 40, 0x7fffffffffffffff}[g.pick()])
}

func (g *Gen) Time(l string) time.Time {
	if g.Profile < 0 {
		return time.Unix(0, vf.I64(g.lbl(l))).UTC()
	}
	return time.Unix(0, [...]int64{0, 1, -1, 1700000000123456789, 0x7fffffffffffffff}[g.pick()]).UTC()
}

// N picks a collection size 0..max (0 stands for "absent": nil).
func (g *Gen) N(l string, max int) int {
	if g.Profile < 0 {
		return vf.Choose(g.lbl(l), max+1)
	}
	return g.pick() % (max + 1)
}

func (g *Gen) DataID(l string) *message.DataID {
	return &message.DataID{Name: g.Str(l + ".name"), Type: g.Str(l + ".type")}
}

func (g *Gen) DataIDs(l string) []*message.DataID {
	n := g.N(l+".n", g.max(2))
	if n == 0 {
		return nil
	}
	out := make([]*message.DataID, 0, n)
	for i := 0; i < n; i++ {
		out = append(out, g.DataID(l+string(rune('0'+i))))
	}
	return out
}

func (g *Gen) keys(l string, n int) []uint32 {
	if g.Profile < 0 {
		ks := []uint32{vf.U32(g.lbl(l + ".k0")), vf.U32(g.lbl(l + ".k1")), vf.U32(g.lbl(l + ".k2"))}
		vf.Assume(ks[0] != ks[1] && ks[0] != ks[2] && ks[1] != ks[2])
		return ks[:n]
	}
	return []uint32{1, 0xffffffff, 128}[:n]
}

func (g *Gen) DataIDAliases(l string) map[uint32]*message.DataID {
	n := g.N(l+".n", g.max(2))
	if n == 0 {
		return nil
	}
	out := map[uint32]*message.DataID{}
	for i, k := range g.keys(l, n) {
		out[k] = g.DataID(l + string(rune('0'+i)))
	}
	return out
}

func (g *Gen) Filters(l string) []*message.DownstreamFilter {
	n := g.N(l+".n", g.max(2))
	if n == 0 {
		return nil
	}
	out := make([]*message.DownstreamFilter, 0, n)
	for i := 0; i < n; i++ {
		f := &message.DownstreamFilter{SourceNodeID: g.Str(l + ".node")}
		for j := 0; j < i+1; j++ {
			f.DataFilters = append(f.DataFilters, &message.DataFilter{Name: g.Str(l + ".fname"), Type: g.Str(l + ".ftype")})
		}
		out = append(out, f)
	}
	return out
}

func (g *Gen) Chunk(l string) *message.StreamChunk {
	c := &message.StreamChunk{SequenceNumber: g.U32(l + ".seq")}
	n := g.N(l+".groups", g.max(2))
	for i := 0; i < n; i++ {
		grp := &message.DataPointGroup{}
		if i == 0 {
			grp.DataIDOrAlias = g.DataID(l + ".gid")
		} else {
			grp.DataIDOrAlias = message.DataIDAlias(g.U32(l + ".galias"))
		}
		for j := 0; j < g.max(2)-i; j++ {
			grp.DataPoints = append(grp.DataPoints, &message.DataPoint{ElapsedTime: g.Nanos(l + ".elapsed"), Payload: g.Bytes(l + ".payload")})
		}
		c.DataPointGroups = append(c.DataPointGroups, grp)
	}
	return c
}

func (g *Gen) Info(l string) *message.UpstreamInfo {
	return &message.UpstreamInfo{SessionID: g.Str(l + ".session"), SourceNodeID: g.Str(l + ".node"), StreamID: g.UUID(l + ".stream")}
}

func (g *Gen) BaseTime(l string) *message.BaseTime {
	return &message.BaseTime{SessionID: g.Str(l + ".session"), Name: g.Str(l + ".name"), Priority: g.U8(l + ".prio"), ElapsedTime: g.Nanos(l + ".elapsed"), BaseTime: g.Time(l + ".time")}
}

// Build returns message shape number kind (0 <= kind < Kinds); ext says whether the extension
// fields are present.
func (g *Gen) Build(kind int, ext bool) message.Message {
	switch kind {
	case 0:
		m := &message.ConnectRequest{RequestID: message.RequestID(g.U32("rid")), ProtocolVersion: g.Str("ver"), NodeID: g.Str("node"), PingInterval: g.Secs("pi"), PingTimeout: g.Secs("pt")}
		if ext {
			m.ExtensionFields = &message.ConnectRequestExtensionFields{AccessToken: g.Str("token")}
			if g.N("intdash", 1) == 1 {
				m.ExtensionFields.Intdash = &message.IntdashExtensionFields{ProjectUUID: uuid.MustParse("0f0e0d0c-0b0a-4908-8706-050403020100")}
			}
		}
		return m
	case 1:
		m := &message.ConnectResponse{RequestID: message.RequestID(g.U32("rid")), ProtocolVersion: g.Str("ver"), ResultCode: g.Code("code"), ResultString: g.Str("rs")}
		if ext {
			m.ExtensionFields = &message.ConnectResponseExtensionFields{}
		}
		return m
	case 2:
		m := &message.Disconnect{ResultCode: g.Code("code"), ResultString: g.Str("rs")}
		if ext {
			m.ExtensionFields = &message.DisconnectExtensionFields{}
		}
		return m
	case 3:
		m := &message.UpstreamOpenRequest{RequestID: message.RequestID(g.U32("rid")), SessionID: g.Str("session"), AckInterval: g.Millis("ack"), ExpiryInterval: g.Secs("expiry"), DataIDs: g.DataIDs("ids"), QoS: g.QoS("qos")}
		if ext {
			m.ExtensionFields = &message.UpstreamOpenRequestExtensionFields{Persist: g.Bool("persist")}
		}
		return m
	case 4:
		m := &message.UpstreamOpenResponse{RequestID: message.RequestID(g.U32("rid")), AssignedStreamID: g.UUID("sid"), AssignedStreamIDAlias: g.U32("alias"), ResultCode: g.Code("code"), ResultString: g.Str("rs"), ServerTime: g.Time("server"), DataIDAliases: g.DataIDAliases("aliases")}
		if ext {
			m.ExtensionFields = &message.UpstreamOpenResponseExtensionFields{}
		}
		return m
	case 5:
		m := &message.UpstreamResumeRequest{RequestID: message.RequestID(g.U32("rid")), StreamID: g.UUID("sid")}
		if ext {
			m.ExtensionFields = &message.UpstreamResumeRequestExtensionFields{}
		}
		return m
	case 6:
		m := &message.UpstreamResumeResponse{RequestID: message.RequestID(g.U32("rid")), AssignedStreamIDAlias: g.U32("alias"), ResultCode: g.Code("code"), ResultString: g.Str("rs")}
		if ext {
			m.ExtensionFields = &message.UpstreamResumeResponseExtensionFields{}
		}
		return m
	case 7:
		m := &message.UpstreamCloseRequest{RequestID: message.RequestID(g.U32("rid")), StreamID: g.UUID("sid"), TotalDataPoints: g.U64("total"), FinalSequenceNumber: g.U32("final")}
		if ext {
			m.ExtensionFields = &message.UpstreamCloseRequestExtensionFields{CloseSession: g.Bool("closesession")}
		}
		return m
	case 8:
		m := &message.UpstreamCloseResponse{RequestID: message.RequestID(g.U32("rid")), ResultCode: g.Code("code"), ResultString: g.Str("rs")}
		if ext {
			m.ExtensionFields = &message.UpstreamCloseResponseExtensionFields{}
		}
		return m
	case 9:
		m := &message.DownstreamOpenRequest{RequestID: message.RequestID(g.U32("rid")), DesiredStreamIDAlias: g.U32("alias"), DownstreamFilters: g.Filters("filters"), ExpiryInterval: g.Secs("expiry"), DataIDAliases: g.DataIDAliases("aliases"), QoS: g.QoS("qos"), OmitEmptyChunk: g.Bool("omit")}
		if ext {
			m.ExtensionFields = &message.DownstreamOpenRequestExtensionFields{}
		}
		return m
	case 10:
		m := &message.DownstreamOpenResponse{RequestID: message.RequestID(g.U32("rid")), AssignedStreamID: g.UUID("sid"), ResultCode: g.Code("code"), ResultString: g.Str("rs"), ServerTime: g.Time("server")}
		if ext {
			m.ExtensionFields = &message.DownstreamOpenResponseExtensionFields{}
		}
		return m
	case 11:
		m := &message.DownstreamResumeRequest{RequestID: message.RequestID(g.U32("rid")), StreamID: g.UUID("sid"), DesiredStreamIDAlias: g.U32("alias")}
		if ext {
			m.ExtensionFields = &message.DownstreamResumeRequestExtensionFields{}
		}
		return m
	case 12:
		m := &message.DownstreamResumeResponse{RequestID: message.RequestID(g.U32("rid")), ResultCode: g.Code("code"), ResultString: g.Str("rs")}
		if ext {
			m.ExtensionFields = &message.DownstreamResumeResponseExtensionFields{}
		}
		return m
	case 13:
		m := &message.DownstreamCloseRequest{RequestID: message.RequestID(g.U32("rid")), StreamID: g.UUID("sid")}
		if ext {
			m.ExtensionFields = &message.DownstreamCloseRequestExtensionFields{}
		}
		return m
	case 14:
		m := &message.DownstreamCloseResponse{RequestID: message.RequestID(g.U32("rid")), ResultCode: g.Code("code"), ResultString: g.Str("rs")}
		if ext {
			m.ExtensionFields = &message.DownstreamCloseResponseExtensionFields{}
		}
		return m
	case 15:
		m := &message.UpstreamCall{CallID: g.Str("call"), RequestCallID: g.Str("reqcall"), DestinationNodeID: g.Str("dst"), Name: g.Str("name"), Type: g.Str("type"), Payload: g.Bytes("payload")}
		if ext {
			m.ExtensionFields = &message.UpstreamCallExtensionFields{}
		}
		return m
	case 16:
		m := &message.UpstreamCallAck{CallID: g.Str("call"), ResultCode: g.Code("code"), ResultString: g.Str("rs")}
		if ext {
			m.ExtensionFields = &message.UpstreamCallAckExtensionFields{}
		}
		return m
	case 17:
		m := &message.DownstreamCall{CallID: g.Str("call"), RequestCallID: g.Str("reqcall"), SourceNodeID: g.Str("src"), Name: g.Str("name"), Type: g.Str("type"), Payload: g.Bytes("payload")}
		if ext {
			m.ExtensionFields = &message.DownstreamCallExtensionFields{}
		}
		return m
	case 18:
		m := &message.Ping{RequestID: message.RequestID(g.U32("rid"))}
		if ext {
			m.ExtensionFields = &message.PingExtensionFields{}
		}
		return m
	case 19:
		m := &message.Pong{RequestID: message.RequestID(g.U32("rid"))}
		if ext {
			m.ExtensionFields = &message.PongExtensionFields{}
		}
		return m
	case 20:
		m := &message.UpstreamChunk{StreamIDAlias: g.U32("alias"), DataIDs: g.DataIDs("ids"), StreamChunk: g.Chunk("chunk")}
		if ext {
			m.ExtensionFields = &message.UpstreamChunkExtensionFields{}
		}
		return m
	case 21:
		m := &message.UpstreamChunkAck{StreamIDAlias: g.U32("alias"), DataIDAliases: g.DataIDAliases("aliases")}
		n := g.N("results", g.max(2))
		for i := 0; i < n; i++ {
			res := &message.UpstreamChunkResult{SequenceNumber: g.U32("seq"), ResultCode: g.Code("code"), ResultString: g.Str("rs")}
			if ext {
				res.ExtensionFields = &message.UpstreamChunkResultExtensionFields{}
			}
			m.Results = append(m.Results, res)
		}
		if ext {
			m.ExtensionFields = &message.UpstreamChunkAckExtensionFields{}
		}
		return m
	case 22:
		m := &message.DownstreamChunk{StreamIDAlias: g.U32("alias"), UpstreamOrAlias: g.Info("info"), StreamChunk: g.Chunk("chunk")}
		if ext {
			m.ExtensionFields = &message.DownstreamChunkExtensionFields{}
		}
		return m
	case 23:
		m := &message.DownstreamChunk{StreamIDAlias: g.U32("alias"), UpstreamOrAlias: message.UpstreamAlias(g.U32("upalias")), StreamChunk: g.Chunk("chunk")}
		if ext {
			m.ExtensionFields = &message.DownstreamChunkExtensionFields{}
		}
		return m
	case 24:
		m := &message.DownstreamChunkAck{StreamIDAlias: g.U32("alias"), AckID: g.U32("ackid"), DataIDAliases: g.DataIDAliases("aliases")}
		n := g.N("results", g.max(2))
		for i := 0; i < n; i++ {
			res := &message.DownstreamChunkResult{StreamIDOfUpstream: g.UUID("up"), SequenceNumberInUpstream: g.U32("seq"), ResultCode: g.Code("code"), ResultString: g.Str("rs")}
			if ext {
				res.ExtensionFields = &message.DownstreamChunkResultExtensionFields{}
			}
			m.Results = append(m.Results, res)
		}
		k := g.N("upaliases", 2)
		if k > 0 {
			m.UpstreamAliases = map[uint32]*message.UpstreamInfo{}
			for i, key := range g.keys("upaliases", k) {
				m.UpstreamAliases[key] = g.Info("upinfo" + string(rune('0'+i)))
			}
		}
		if ext {
			m.ExtensionFields = &message.DownstreamChunkAckExtensionFields{}
		}
		return m
	case 25:
		m := &message.DownstreamChunkAckComplete{StreamIDAlias: g.U32("alias"), AckID: g.U32("ackid"), ResultCode: g.Code("code"), ResultString: g.Str("rs")}
		if ext {
			m.ExtensionFields = &message.DownstreamChunkAckCompleteExtensionFields{}
		}
		return m
	case 26:
		m := &message.UpstreamMetadata{RequestID: message.RequestID(g.U32("rid")), Metadata: g.BaseTime("bt")}
		if ext {
			m.ExtensionFields = &message.UpstreamMetadataExtensionFields{Persist: g.Bool("persist")}
		}
		return m
	case 27:
		m := &message.UpstreamMetadataAck{RequestID: message.RequestID(g.U32("rid")), ResultCode: g.Code("code"), ResultString: g.Str("rs")}
		if ext {
			m.ExtensionFields = &message.UpstreamMetadataAckExtensionFields{}
		}
		return m
	case 28:
		m := &message.DownstreamMetadataAck{RequestID: message.RequestID(g.U32("rid")), ResultCode: g.Code("code"), ResultString: g.Str("rs")}
		if ext {
			m.ExtensionFields = &message.DownstreamMetadataAckExtensionFields{}
		}
		return m
	}
	if kind >= 29 && kind < 29+10 {
		m := &message.DownstreamMetadata{RequestID: message.RequestID(g.U32("rid")), StreamIDAlias: g.U32("alias"), SourceNodeID: g.Str("src")}
		switch kind - 29 {
		case 0:
			m.Metadata = g.BaseTime("bt")
		case 1:
			m.Metadata = &message.UpstreamOpen{StreamID: g.UUID("sid"), SessionID: g.Str("session"), QoS: g.QoS("qos")}
		case 2:
			m.Metadata = &message.UpstreamAbnormalClose{StreamID: g.UUID("sid"), SessionID: g.Str("session")}
		case 3:
			m.Metadata = &message.UpstreamResume{StreamID: g.UUID("sid"), SessionID: g.Str("session"), QoS: g.QoS("qos")}
		case 4:
			m.Metadata = &message.UpstreamNormalClose{StreamID: g.UUID("sid"), SessionID: g.Str("session"), TotalDataPoints: g.U64("total"), FinalSequenceNumber: g.U32("final")}
		case 5:
			m.Metadata = &message.DownstreamOpen{StreamID: g.UUID("sid"), DownstreamFilters: g.Filters("filters"), QoS: g.QoS("qos")}
		case 6:
			m.Metadata = &message.DownstreamAbnormalClose{StreamID: g.UUID("sid")}
		case 7:
			m.Metadata = &message.DownstreamResume{StreamID: g.UUID("sid"), DownstreamFilters: g.Filters("filters"), QoS: g.QoS("qos")}
		case 8:
			m.Metadata = &message.DownstreamNormalClose{StreamID: g.UUID("sid")}
		case 9:
			m.Metadata = g.BaseTime("bt")
			m.SourceNodeID = ""
		}
		if ext {
			m.ExtensionFields = &message.DownstreamMetadataExtensionFields{}
		}
		return m
	}
	switch kind {
	case 39: // chunk without data ids and with an empty stream chunk
		return &message.UpstreamChunk{StreamIDAlias: g.U32("alias"), StreamChunk: &message.StreamChunk{SequenceNumber: g.U32("seq")}}
	case 40: // ack with nothing in it
		return &message.UpstreamChunkAck{StreamIDAlias: g.U32("alias")}
	case 41:
		return &message.DownstreamChunkAck{StreamIDAlias: g.U32("alias"), AckID: g.U32("ackid")}
	case 42:
		m := &message.DownstreamOpenRequest{RequestID: message.RequestID(g.U32("rid")), QoS: g.QoS("qos")}
		if ext {
			m.ExtensionFields = &message.DownstreamOpenRequestExtensionFields{}
		}
		return m
	}
	return nil
}
