package segment

import (
	"bytes"
	"encoding/binary"
	"time"

	"github.com/aptpod/iscp-go/internal/vf"
)

func zzHeader(seq uint32, maxIdx, idx uint16, body []byte) []byte {
	bs := make([]byte, 8+len(body))
	binary.BigEndian.PutUint32(bs[0:4], seq)
	binary.BigEndian.PutUint16(bs[4:6], maxIdx)
	binary.BigEndian.PutUint16(bs[6:8], idx)
	copy(bs[8:], body)
	return bs
}

// C14.b: first datagram of a message.
func zzC14b() {
	seq, maxIdx, idx := vf.U32("seq"), vf.U16("maxIdx"), vf.U16("idx")
	body := vf.Bytes("body", 2)
	vf.Assume(idx <= maxIdx)
	// slot-table size is concretised: claim is for maxIdx in {0..3} ∪ {0xFFFC..0xFFFF}
	vf.Assume(maxIdx <= 3 || maxIdx >= 0xFFFC)
	// the index is concretised as well: near either end of a large table
	vf.Assume(idx <= 2 || idx+2 >= maxIdx)
	vf.Known("KF-C14-maxidx-ffff", maxIdx == 0xFFFF)
	rb := &ReadBuffers{ReadBuffer: map[uint32]*ReadBuffer{}}
	out, done, err := rb.Receive(zzHeader(seq, maxIdx, idx, body))
	vf.Assert("no-error", err == nil)
	if maxIdx == 0 {
		vf.Assert("single-done", done && bytes.Equal(out, body))
		vf.Assert("single-forgotten", len(rb.ReadBuffer) == 0)
	} else {
		vf.Assert("not-done", !done && out == nil)
		b := rb.ReadBuffer[seq]
		vf.Assert("buffered", b != nil)
		if b != nil {
			vf.Assert("slots", len(b.Msgs) == int(maxIdx)+1)
			vf.Assert("count", b.SegCount == 1)
			if int(idx) < len(b.Msgs) {
				vf.Assert("slot-body", bytes.Equal(b.Msgs[idx], body))
			}
		}
	}
	vf.Reach("end")
}

// C14.e: malformed datagrams never crash.
func zzC14e() {
	bs := vf.Bytes("dgram", 9)
	vf.Known("KF-C14-short-datagram", len(bs) < 8)
	if len(bs) >= 8 {
		// slot-table size is concretised: maxIdx in {0..3} ∪ {0xFFFE, 0xFFFF}; index free
		m := uint16(bs[4])<<8 | uint16(bs[5])
		vf.Assume(m <= 3 || m >= 0xFFFE)
		i := uint16(bs[6])<<8 | uint16(bs[7])
		vf.Assume(i <= 4 || i >= 0xFFFD)
	}
	rb := &ReadBuffers{ReadBuffer: map[uint32]*ReadBuffer{}}
	panicked := vf.Panics(func() { rb.Receive(bs) })
	vf.Assert("no-panic", !panicked)
	vf.Reach("end")
}

type zzSender struct {
	dgrams [][]byte
}

func (s *zzSender) SendDatagram(b []byte) error {
	c := make([]byte, len(b))
	copy(c, b)
	s.dgrams = append(s.dgrams, c)
	return nil
}

// C14.a: segmentation — count, headers, bodies, returned size. P in {1,2,3}, message 0..4P+P-1 bytes.
func zzC14a() {
	p := 1 + vf.Choose("P", 3)
	maxPayloadSize = p
	n := vf.Choose("n", 5*p)
	msg := vf.BytesN("msg", n)
	seq := vf.U32("seq")
	snd := &zzSender{}
	size, err := SendTo(snd, seq, msg)
	vf.Assert("no-error", err == nil)
	want := n/p + 1
	if n <= p {
		want = 1
	}
	vf.Assert("count", len(snd.dgrams) == want)
	total := 0
	for i, d := range snd.dgrams {
		vf.Assert("hdr-len", len(d) >= 8)
		vf.Assert("hdr-seq", binary.BigEndian.Uint32(d[0:4]) == seq)
		vf.Assert("hdr-max", int(binary.BigEndian.Uint16(d[4:6])) == want-1)
		vf.Assert("hdr-idx", int(binary.BigEndian.Uint16(d[6:8])) == i)
		body := d[8:]
		if i < want-1 {
			vf.Assert("body-full", len(body) == p)
		} else {
			vf.Assert("body-last", len(body) == n-(want-1)*p)
		}
		for j := range body {
			vf.Assert("body-bytes", body[j] == msg[i*p+j])
		}
		total += len(d)
	}
	vf.Assert("size", size == total)
	vf.Reach("end")
}

// C14.a guard: oversized messages are refused before anything is sent (production payload size).
type zzNoSender struct{ sent int }

func (s *zzNoSender) SendDatagram(b []byte) error { s.sent++; return nil }

// C14.c / C14.d: reassembly in any arrival order, two messages in flight, optional loss of one datagram.
func zzC14c()      { zzC14cd(3, 2, false) }
func zzC14d()      { zzC14cd(3, 2, true) }
func zzC14cLarge() { zzC14cd(4, 2, false) }
func zzC14dLarge() { zzC14cd(4, 2, true) }

func zzC14cd(segs1, segs2 int, withLoss bool) {
	p := 1 + vf.Choose("P", 2)
	maxPayloadSize = p
	n1 := vf.Choose("n1", segs1*p)
	n2 := vf.Choose("n2", segs2*p)
	m1 := vf.BytesN("m1", n1)
	m2 := vf.BytesN("m2", n2)
	s1, s2 := vf.U32("seq1"), vf.U32("seq2")
	vf.Assume(s1 != s2)
	snd := &zzSender{}
	_, err1 := SendTo(snd, s1, m1)
	k1 := len(snd.dgrams)
	_, err2 := SendTo(snd, s2, m2)
	vf.Assume(err1 == nil && err2 == nil)
	all := snd.dgrams
	total := len(all)
	lose := -1 // -1: nothing lost
	if withLoss {
		lose = vf.Choose("lose", total)
	}
	rb := &ReadBuffers{ReadBuffer: map[uint32]*ReadBuffer{}}
	used := make([]bool, total)
	got1, got2 := 0, 0
	left1, left2 := k1, total-k1
	if lose >= 0 {
		used[lose] = true
		if lose < k1 {
			left1 = -1
		} else {
			left2 = -1
		}
	}
	remaining := total
	if lose >= 0 {
		remaining--
	}
	for step := 0; step < remaining; step++ {
		// pick any unused datagram (all arrival orders)
		var cand []int
		for i := range all {
			if !used[i] {
				cand = append(cand, i)
			}
		}
		pick := cand[vf.Choose("pick"+string(rune('a'+step)), len(cand))]
		used[pick] = true
		out, done, err := rb.Receive(all[pick])
		vf.Assert("recv-no-error", err == nil)
		if pick < k1 {
			left1--
			if left1 == 0 {
				vf.Assert("m1-done", done && bytes.Equal(out, m1))
				got1++
			} else {
				vf.Assert("m1-early", !done && out == nil)
			}
		} else {
			left2--
			if left2 == 0 {
				vf.Assert("m2-done", done && bytes.Equal(out, m2))
				got2++
			} else {
				vf.Assert("m2-early", !done && out == nil)
			}
		}
	}
	if lose < 0 {
		vf.Assert("both-delivered-once", got1 == 1 && got2 == 1)
		vf.Assert("buffers-empty", len(rb.ReadBuffer) == 0)
	} else if lose < k1 {
		vf.Assert("lost-m1-never-delivered", got1 == 0 && got2 == 1)
	} else {
		vf.Assert("lost-m2-never-delivered", got1 == 1 && got2 == 0)
	}
	vf.Reach("end")
}

func zzC14aGuard() {
	n := vf.Int("n")
	vf.Assume(n >= 0 && n < 1<<28)
	vf.Assume(n/maxPayloadSize > 65535)
	// a message of n bytes whose content is irrelevant: only the guard is exercised
	msg := vf.OpaqueBytes(n)
	snd := &zzNoSender{}
	size, err := SendTo(snd, vf.U32("seq"), msg)
	vf.Assert("refused", err != nil && size == 0)
	vf.Assert("nothing-sent", snd.sent == 0)
	vf.Reach("end")
}

// C14.e2: a second datagram for a message in flight, with arbitrary header and body, never crashes;
// an index beyond the count announced by the message's first datagram is discarded.
func zzC14eSecond() {
	seq := vf.U32("seq")
	max1 := vf.U16("max1")
	vf.Assume(max1 >= 1 && max1 <= 3)
	idx1 := vf.U16("idx1")
	vf.Assume(idx1 <= max1)
	rb := &ReadBuffers{ReadBuffer: map[uint32]*ReadBuffer{}}
	_, done1, err1 := rb.Receive(zzHeader(seq, max1, idx1, vf.Bytes("body1", 1)))
	vf.Assume(err1 == nil && !done1)
	b := rb.ReadBuffer[seq]
	vf.Assume(b != nil)
	count0, size0 := b.SegCount, b.MsgSize
	// second datagram: same sequence number, everything else arbitrary (its own maxIndex may disagree)
	max2, idx2 := vf.U16("max2"), vf.U16("idx2")
	body2 := vf.Bytes("body2", 1)
	var out []byte
	var done bool
	panicked := vf.Panics(func() { out, done, _ = rb.Receive(zzHeader(seq, max2, idx2, body2)) })
	vf.Assert("second-datagram-never-panics", !panicked)
	if !panicked && idx2 > max1 {
		vf.Assert("index-beyond-announced-count-discarded", !done && out == nil)
		nb := rb.ReadBuffer[seq]
		vf.Assert("completion-state-unchanged", nb != nil && nb.SegCount == count0 && nb.MsgSize == size0 && len(nb.Msgs) == int(max1)+1)
	}
	vf.Reach("end")
}

// C14.f: incomplete messages are forgotten after the expiry time - exactly after it, counted from the
// last datagram received for that message - and a forgotten message is never completed by a late
// segment; a message that is still fresh is not touched by the sweep.
func zzC14fExpiry() {
	expiry := time.Duration(vf.I64("expiry"))
	vf.Assume(expiry > 0 && expiry <= time.Hour)
	rb := &ReadBuffers{ReadBuffer: map[uint32]*ReadBuffer{}, ReadBufferExpiry: expiry}
	s1, s2 := vf.U32("seq1"), vf.U32("seq2")
	vf.Assume(s1 != s2)
	a0, a1, a2 := vf.BytesN("a0", 1), vf.BytesN("a1", 1), vf.BytesN("a2", 1)
	b0, b1 := vf.BytesN("b0", 1), vf.BytesN("b1", 1)
	// message 1 (3 segments): first segment now
	_, done, _ := rb.Receive(zzHeader(s1, 2, 0, a0))
	vf.Assert("incomplete", !done)
	d1 := time.Duration(vf.I64("wait1"))
	vf.Assume(d1 >= 0 && d1 <= 2*time.Hour)
	vf.Advance(d1)
	// message 2 (2 segments): first segment after d1; a second segment of message 1 may refresh it
	_, done, _ = rb.Receive(zzHeader(s2, 1, 0, b0))
	vf.Assert("incomplete", !done)
	refresh := vf.Choose("refresh.m1", 2) == 1 && d1 <= expiry
	if refresh {
		rb.RemoveExpired()
		_, done, _ = rb.Receive(zzHeader(s1, 2, 1, a1))
		vf.Assert("incomplete", !done)
	}
	d2 := time.Duration(vf.I64("wait2"))
	vf.Assume(d2 >= 0 && d2 <= 2*time.Hour)
	vf.Advance(d2)
	rb.RemoveExpired()
	// which messages must still be known
	age1 := d1 + d2
	if refresh {
		age1 = d2
	}
	_, has1 := rb.ReadBuffer[s1]
	_, has2 := rb.ReadBuffer[s2]
	vf.Assert("m1-forgotten-iff-older-than-expiry", has1 == (age1 <= expiry))
	vf.Assert("m2-forgotten-iff-older-than-expiry", has2 == (d2 <= expiry))
	// the remaining segments arrive
	if !refresh {
		_, done, _ = rb.Receive(zzHeader(s1, 2, 1, a1))
		vf.Assert("incomplete", !done)
	}
	out1, done1, _ := rb.Receive(zzHeader(s1, 2, 2, a2))
	out2, done2, _ := rb.Receive(zzHeader(s2, 1, 1, b1))
	if age1 <= expiry {
		vf.Assert("fresh-m1-completed-exactly", done1 && len(out1) == 3 && out1[0] == a0[0] && out1[1] == a1[0] && out1[2] == a2[0])
	} else {
		vf.Assert("expired-m1-never-handed-up", !done1 && out1 == nil)
	}
	if d2 <= expiry {
		vf.Assert("fresh-m2-completed-exactly", done2 && len(out2) == 2 && out2[0] == b0[0] && out2[1] == b1[0])
	} else {
		vf.Assert("expired-m2-never-handed-up", !done2 && out2 == nil)
	}
	vf.Reach("end")
}

// C14.k: a whole message from a peer that does not follow the sender's layout: 2..3 datagrams with
// complete headers and in-range indices whose bodies have arbitrary, mutually inconsistent lengths
// (0..5 bytes each: a long first segment followed by short ones, empty ones, a long last one), in any
// arrival order. Receive never panics and nothing is handed up before the last datagram; when the
// lengths are those a layout-following sender produces, what is handed up is exactly the bodies in
// index order (for the other combinations the property only demands that the process survives).
func zzC14kInconsistentLengths() {
	seq := vf.U32("seq")
	n := 2 + vf.Choose("segments", 2)
	lens := [...]int{0, 1, 2, 5}
	bodies := make([][]byte, n)
	total := 0
	for i := 0; i < n; i++ {
		l := lens[vf.Choose("len."+string(rune('0'+i)), len(lens))]
		bodies[i] = make([]byte, l)
		for k := range bodies[i] {
			bodies[i][k] = byte(16*(i+1) + k)
		}
		if l > 0 {
			bodies[i][0] = vf.U8("first.byte." + string(rune('0'+i)))
		}
		total += l
	}
	order := [][]int{{0, 1, 2}, {2, 1, 0}, {1, 0, 2}, {2, 0, 1}}[vf.Choose("arrival.order", 4)]
	rb := &ReadBuffers{ReadBuffer: map[uint32]*ReadBuffer{}, ReadBufferExpiry: time.Second}
	var out []byte
	handed := 0
	early := false
	seen := 0
	panicked := vf.Panics(func() {
		for _, i := range order {
			if i >= n {
				continue
			}
			m, done, _ := rb.Receive(zzHeader(seq, uint16(n-1), uint16(i), bodies[i]))
			seen++
			if done {
				handed++
				out = m
				if seen < n {
					early = true
				}
			}
		}
	})
	vf.Assert("peer-supplied-lengths-never-panic", !panicked)
	if panicked {
		return
	}
	vf.Assert("nothing-handed-up-early", !early)
	vf.Assert("handed-up-once", handed == 1)
	// what a sender following the layout produces: every segment but the last equally long, the last
	// one not longer; only for those does the property say what the bytes are
	conforming := len(bodies[n-1]) <= len(bodies[0])
	for i := 1; i < n-1; i++ {
		conforming = conforming && len(bodies[i]) == len(bodies[0])
	}
	if handed == 1 && conforming {
		vf.Assert("length-is-the-sum-of-the-bodies", len(out) == total)
		ok := len(out) == total
		if ok {
			k := 0
			for i := 0; i < n; i++ {
				for _, b := range bodies[i] {
					if out[k] != b {
						ok = false
					}
					k++
				}
			}
		}
		vf.Assert("bytes-are-the-bodies-in-index-order", ok)
	}
	vf.Reach("end")
}
