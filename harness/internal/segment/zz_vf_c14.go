package segment

import (
	"bytes"
	"encoding/binary"

	"github.com/aptpod/iscp-go/internal/vf"
)

func zzHeader(seq uint32, maxIdx, idx uint16, body []byte) []byte {
	bs := make([]byte, 8+len(body))
	binary.BigEndian.PutUint32(bs[0:4], seq)
	binary.BigEndian.PutUint16(bs[4:6], maxIdx)
	binary.BigEndian.PutUint16(bs[6:8], idx)
	copy(bs[8:], body)
	return bs
}

// C14.b: first datagram of a message.
func zzC14b() {
	seq, maxIdx, idx := vf.U32("seq"), vf.U16("maxIdx"), vf.U16("idx")
	body := vf.Bytes("body", 2)
	vf.Assume(idx <= maxIdx)
	// slot-table size is concretised: claim is for maxIdx in {0..3} ∪ {0xFFFC..0xFFFF}
	vf.Assume(maxIdx <= 3 || maxIdx >= 0xFFFC)
	// the index is concretised as well: near either end of a large table
	vf.Assume(idx <= 2 || idx+2 >= maxIdx)
	vf.Known("KF-C14-maxidx-ffff", maxIdx == 0xFFFF)
	rb := &ReadBuffers{ReadBuffer: map[uint32]*ReadBuffer{}}
	out, done, err := rb.Receive(zzHeader(seq, maxIdx, idx, body))
	vf.Assert("no-error", err == nil)
	if maxIdx == 0 {
		vf.Assert("single-done", done && bytes.Equal(out, body))
		vf.Assert("single-forgotten", len(rb.ReadBuffer) == 0)
	} else {
		vf.Assert("not-done", !done && out == nil)
		b := rb.ReadBuffer[seq]
		vf.Assert("buffered", b != nil)
		if b != nil {
			vf.Assert("slots", len(b.Msgs) == int(maxIdx)+1)
			vf.Assert("count", b.SegCount == 1)
			if int(idx) < len(b.Msgs) {
				vf.Assert("slot-body", bytes.Equal(b.Msgs[idx], body))
			}
		}
	}
	vf.Reach("end")
}

// C14.e: malformed datagrams never crash.
func zzC14e() {
	bs := vf.Bytes("dgram", 9)
	vf.Known("KF-C14-short-datagram", len(bs) < 8)
	if len(bs) >= 8 {
		// slot-table size is concretised: maxIdx in {0..3} ∪ {0xFFFE, 0xFFFF}; index free
		m := uint16(bs[4])<<8 | uint16(bs[5])
		vf.Assume(m <= 3 || m >= 0xFFFE)
		i := uint16(bs[6])<<8 | uint16(bs[7])
		vf.Assume(i <= 4 || i >= 0xFFFD)
	}
	rb := &ReadBuffers{ReadBuffer: map[uint32]*ReadBuffer{}}
	panicked := vf.Panics(func() { rb.Receive(bs) })
	vf.Assert("no-panic", !panicked)
	vf.Reach("end")
}
