package encoding

import (
	"bytes"
	"io"

	"github.com/aptpod/iscp-go/errors"
	"github.com/aptpod/iscp-go/internal/vf"
	"github.com/aptpod/iscp-go/message"
)

// C12.c: the size gate.
func zzC12cGate() {
	max, n := Size(vf.U64("max")), Size(vf.U64("n"))
	err := validateMessageSize(max, n)
	vf.Assert("gate-iff", (err != nil) == (max != 0 && n > max))
	if err != nil {
		vf.Assert("too-large-error", errors.Is(err, errors.ErrMessageTooLarge))
		vf.Assert("is-malformed", errors.Is(err, errors.ErrMalformedMessage))
		vf.Assert("is-iscp", errors.Is(err, errors.ErrISCP))
	}
	vf.Reach("end")
}

type zzRW struct {
	in      []byte
	written [][]byte
}

func (r *zzRW) Read() ([]byte, error)  { return r.in, nil }
func (r *zzRW) Write(b []byte) error   { r.written = append(r.written, b); return nil }
func (r *zzRW) Close() error           { return nil }
func (r *zzRW) RxBytesCounterValue() uint64 { return 0 }
func (r *zzRW) TxBytesCounterValue() uint64 { return 0 }

type zzEnc struct {
	decodes int
	sawLen  int
}

func (e *zzEnc) EncodeTo(w io.Writer, m message.Message) (int, error) { return 0, nil }
func (e *zzEnc) DecodeFrom(r io.Reader) (int, message.Message, error) {
	e.decodes++
	b, _ := io.ReadAll(r)
	e.sawLen = len(b)
	return len(b), &message.Ping{}, nil
}
func (e *zzEnc) Name() Name               { return "zz" }
func (e *zzEnc) ContentType() ContentType { return ContentTypeBinary }

// C12.c: Transport.Read applies the gate to the frame length before any decoding.
func zzC12cRead() {
	frame := vf.Bytes("frame", 4)
	max := Size(vf.U64("max"))
	rw := &zzRW{in: frame}
	enc := &zzEnc{}
	tr := NewTransport(&TransportConfig{Transport: rw, Encoding: enc, MaxMessageSize: max})
	m, err := tr.Read()
	over := max != 0 && Size(len(frame)) > max
	if over {
		vf.Assert("oversize-rejected", err != nil && m == nil && errors.Is(err, errors.ErrMessageTooLarge))
		vf.Assert("no-decode-on-oversize", enc.decodes == 0)
		vf.Assert("not-counted", tr.RxMessageCounterValue() == 0)
	} else {
		vf.Assert("within-limit-decoded", err == nil && m != nil && enc.decodes == 1 && enc.sawLen == len(frame))
		vf.Assert("counted-once", tr.RxMessageCounterValue() == 1)
	}
	vf.Reach("end")
}

var _ = bytes.NewBuffer
