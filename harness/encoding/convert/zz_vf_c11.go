package convert

import (
	"time"

	"github.com/aptpod/iscp-go/internal/vf"
	"github.com/aptpod/iscp-go/internal/vfmsg"
	"github.com/aptpod/iscp-go/message"
	autogen "github.com/aptpod/iscp-proto/gen/gogofast/iscp2/v1"
)

const (
	zzMsgPkg = "github.com/aptpod/iscp-go/message"
	zzGenPkg = "github.com/aptpod/iscp-proto/gen/gogofast/iscp2/v1"
)

// C11.a: the result-code mapping is total in both directions (defined value sets are read from
// the packages' constant declarations at analysis time).
func zzC11aResultCodeToWire() {
	x := message.ResultCode(vf.I32("code"))
	def := vf.Defined(zzMsgPkg, "ResultCode", int64(x))
	vf.Known("KF-C11-too-short-ping-interval-lib", x == message.ResultCodeTooShortPingInterval)
	y, err := toResultCodeProto(x)
	if def {
		vf.Assert("defined-lib-code-maps", err == nil)
		if err == nil {
			vf.Assert("maps-to-defined-wire-code", vf.Defined(zzGenPkg, "ResultCode", int64(y)))
			back, err2 := toResultCode(y)
			vf.Assert("maps-back", err2 == nil)
			// NormalClosure and Succeeded share wire value 0 (documented alias)
			vf.Assert("round-trip", back == x || (x == message.ResultCodeNormalClosure && back == message.ResultCodeSucceeded))
		}
	} else {
		vf.Assert("undefined-lib-code-rejected", err != nil)
	}
	vf.Reach("end")
}

func zzC11aResultCodeFromWire() {
	y := autogen.ResultCode(vf.I32("code"))
	def := vf.Defined(zzGenPkg, "ResultCode", int64(y))
	vf.Known("KF-C11-too-short-ping-interval-wire", y == autogen.ResultCode_TOO_SHORT_PING_INTERVAL)
	x, err := toResultCode(y)
	if def {
		vf.Assert("defined-wire-code-maps", err == nil)
		if err == nil {
			vf.Assert("maps-to-defined-lib-code", vf.Defined(zzMsgPkg, "ResultCode", int64(x)))
			back, err2 := toResultCodeProto(x)
			vf.Assert("maps-back", err2 == nil && back == y)
		}
	} else {
		vf.Assert("undefined-wire-code-rejected", err != nil)
	}
	vf.Reach("end")
}

func zzC11aQoS() {
	x := message.QoS(vf.U8("qos"))
	y, err := toQoSProto(x)
	if vf.Defined(zzMsgPkg, "QoS", int64(x)) {
		vf.Assert("defined-qos-maps", err == nil)
		if err == nil {
			back, err2 := toQoS(y)
			vf.Assert("qos-round-trip", err2 == nil && back == x)
		}
	} else {
		vf.Assert("undefined-qos-rejected", err != nil)
	}
	w := autogen.QoS(vf.I32("wqos"))
	x2, err3 := toQoS(w)
	if vf.Defined(zzGenPkg, "QoS", int64(w)) {
		vf.Assert("defined-wire-qos-maps", err3 == nil)
		if err3 == nil {
			back, err4 := toQoSProto(x2)
			vf.Assert("wire-qos-round-trip", err4 == nil && back == w)
		}
	} else {
		vf.Assert("undefined-wire-qos-rejected", err3 != nil)
	}
	vf.Reach("end")
}

func zzStrs(label string, n int) []*message.DataID {
	k := vf.Choose(label+".n", n+2) // 0: nil, 1: empty, 2..: entries
	if k == 0 {
		return nil
	}
	out := []*message.DataID{}
	for i := 0; i < k-1; i++ {
		out = append(out, &message.DataID{Name: vf.Str(label + string(rune('0'+i)) + ".name"), Type: vf.Str(label + string(rune('0'+i)) + ".type")})
	}
	return out
}

func zzSameIDs(a, b []*message.DataID) bool {
	if len(a) != len(b) {
		return false
	}
	for i := range a {
		if a[i] == nil || b[i] == nil || *a[i] != *b[i] {
			return false
		}
	}
	return true
}

// C11.b: converter round trip, UpstreamOpenRequest (durations at wire resolution).
func zzC11bUpstreamOpenRequest() {
	ack := vf.Dur("ack", 4000)     // milliseconds on the wire
	exp := vf.Dur("expiry", 1<<22) // whole seconds on the wire
	qos := message.QoS(vf.U8("qos"))
	vf.Assume(vf.Defined(zzMsgPkg, "QoS", int64(qos)))
	var ext *message.UpstreamOpenRequestExtensionFields
	if vf.Choose("ext", 2) == 1 {
		ext = &message.UpstreamOpenRequestExtensionFields{Persist: vf.Bool("persist")}
	}
	m := &message.UpstreamOpenRequest{RequestID: message.RequestID(vf.U32("reqid")), SessionID: vf.Str("session"), AckInterval: ack, ExpiryInterval: exp,
		DataIDs: zzStrs("ids", 2), QoS: qos, ExtensionFields: ext}
	pb, err := WireToProto(m)
	vf.Assert("to-proto-ok", err == nil && pb != nil)
	back, err2 := ProtoToWire(pb)
	vf.Assert("to-wire-ok", err2 == nil)
	g, ok := back.(*message.UpstreamOpenRequest)
	vf.Assert("same-type", ok)
	if !ok {
		return
	}
	vf.Assert("request-id", g.RequestID == m.RequestID)
	vf.Assert("session-id", g.SessionID == m.SessionID)
	vf.Assert("qos", g.QoS == m.QoS)
	// durations at wire resolution: the wire carries the whole number of units, and decoding gives
	// exactly that many units back (so the round trip loses less than one unit)
	w := pb.Message.(*autogen.Message_UpstreamOpenRequest).UpstreamOpenRequest
	vf.Assert("ack-interval-whole-ms", w.AckInterval == uint32(ack/time.Millisecond))
	vf.Assert("expiry-whole-seconds", w.ExpiryInterval == uint32(exp/time.Second))
	vf.Assert("ack-interval-decoded", g.AckInterval == time.Duration(w.AckInterval)*time.Millisecond)
	vf.Assert("expiry-decoded", g.ExpiryInterval == time.Duration(w.ExpiryInterval)*time.Second)
	vf.Assert("data-ids", zzSameIDs(g.DataIDs, m.DataIDs))
	if ext == nil {
		vf.Assert("absent-extension-canonical", g.ExtensionFields == nil || !g.ExtensionFields.Persist)
	} else {
		vf.Assert("extension-kept", g.ExtensionFields != nil && g.ExtensionFields.Persist == ext.Persist)
	}
	vf.Reach("end")
}

// C11.g: converter round trip for every message type with every scalar field symbolic: the message
// that comes back equals the one that went in (nil and empty collections identified, times compared
// as instants), extension fields present or absent.
var zzC11Deep = false

func zzC11gAllTypesDeep() { zzC11Deep = true; zzC11gAllTypes() }

func zzC11gAllTypes() {
	kind := vf.Choose("kind", vfmsg.Kinds)
	ext := vf.Choose("ext", 2) == 1
	g := &vfmsg.Gen{Profile: -1, Deep: zzC11Deep}
	m := g.Build(kind, ext)
	pb, err := WireToProto(m)
	vf.Assert("to-proto-ok", err == nil && pb != nil)
	if err != nil || pb == nil {
		return
	}
	back, err2 := ProtoToWire(pb)
	vf.Assert("to-wire-ok", err2 == nil && back != nil)
	if err2 != nil {
		return
	}
	vf.Assert("round-trip-equal", vf.CanonEqual(m, back))
	vf.Reach("end")
}

// C15.c2: the connect request carries the ping interval and timeout at whole-second resolution:
// the wire value is the configured duration truncated to seconds, and decodes to that many seconds.
func zzC15c2ConnectRequestSeconds() {
	iv := vf.Dur("interval", 1<<22)
	to := vf.Dur("timeout", 1<<22)
	m := &message.ConnectRequest{RequestID: message.RequestID(vf.U32("rid")), ProtocolVersion: "2.0.0", NodeID: "node", PingInterval: iv, PingTimeout: to}
	pb, err := WireToProto(m)
	vf.Assert("to-proto-ok", err == nil && pb != nil)
	if err != nil || pb == nil {
		return
	}
	w := pb.Message.(*autogen.Message_ConnectRequest).ConnectRequest
	vf.Assert("interval-whole-seconds", w.PingInterval == uint32(iv/time.Second))
	vf.Assert("timeout-whole-seconds", w.PingTimeout == uint32(to/time.Second))
	back, err2 := ProtoToWire(pb)
	g, ok := back.(*message.ConnectRequest)
	vf.Assert("to-wire-ok", err2 == nil && ok)
	if ok {
		vf.Assert("decoded-interval", g.PingInterval == iv/time.Second*time.Second && g.PingTimeout == to/time.Second*time.Second)
	}
	vf.Reach("end")
}

// C12.t: decoded messages that carry instants, elapsed times or intervals - the fields the two
// directions of the converter treat with different code (OrUnixZero helpers, float seconds, unit
// multiplication) - encode again and decode back to themselves, for every wire value of the instant
// (any int64: 0, negative, extreme) and boundary values of the intervals.
func zzC12tTimeFieldsFromWire() {
	t := vf.I64("wire.instant")
	el := vf.I64("wire.elapsed")
	ivs := [...]uint32{0, 1, 59, 65535, 1 << 22}
	iv := ivs[vf.Choose("wire.interval", len(ivs))]
	id := make([]byte, 16)
	var pb autogen.Message
	switch vf.Choose("message", 8) {
	case 0:
		pb.Message = &autogen.Message_UpstreamOpenResponse{UpstreamOpenResponse: &autogen.UpstreamOpenResponse{RequestId: 2, AssignedStreamId: id, ServerTime: t}}
	case 1:
		pb.Message = &autogen.Message_DownstreamOpenResponse{DownstreamOpenResponse: &autogen.DownstreamOpenResponse{RequestId: 2, AssignedStreamId: id, ServerTime: t}}
	case 2:
		pb.Message = &autogen.Message_UpstreamMetadata{UpstreamMetadata: &autogen.UpstreamMetadata{RequestId: 3,
			Metadata: &autogen.UpstreamMetadata_BaseTime{BaseTime: &autogen.BaseTime{SessionId: "s", Name: "n", Priority: 1, ElapsedTime: uint64(el), BaseTime: t}}}}
	case 3:
		pb.Message = &autogen.Message_DownstreamMetadata{DownstreamMetadata: &autogen.DownstreamMetadata{RequestId: 3, StreamIdAlias: 4, SourceNodeId: "n",
			Metadata: &autogen.DownstreamMetadata_BaseTime{BaseTime: &autogen.BaseTime{SessionId: "s", Name: "n", Priority: 1, ElapsedTime: uint64(el), BaseTime: t}}}}
	case 4:
		pb.Message = &autogen.Message_UpstreamOpenRequest{UpstreamOpenRequest: &autogen.UpstreamOpenRequest{RequestId: 2, SessionId: "s", AckInterval: iv, ExpiryInterval: iv}}
	case 5:
		pb.Message = &autogen.Message_DownstreamOpenRequest{DownstreamOpenRequest: &autogen.DownstreamOpenRequest{RequestId: 2, ExpiryInterval: iv}}
	case 6:
		pb.Message = &autogen.Message_ConnectRequest{ConnectRequest: &autogen.ConnectRequest{RequestId: 1, ProtocolVersion: "2.0.0", NodeId: "n", PingInterval: iv, PingTimeout: iv}}
	case 7:
		pb.Message = &autogen.Message_DownstreamChunk{DownstreamChunk: &autogen.DownstreamChunk{StreamIdAlias: 7,
			UpstreamOrAlias: &autogen.DownstreamChunk_UpstreamAlias{UpstreamAlias: 3},
			StreamChunk: &autogen.StreamChunk{SequenceNumber: 5, DataPointGroups: []*autogen.DataPointGroup{{
				DataIdOrAlias: &autogen.DataPointGroup_DataIdAlias{DataIdAlias: 2},
				DataPoints:    []*autogen.DataPoint{{ElapsedTime: el, Payload: []byte{1}}},
			}}}}}
	}
	m, err := ProtoToWire(&pb)
	vf.Assert("decodes", err == nil && m != nil)
	if err != nil || m == nil {
		return
	}
	again, err := WireToProto(m)
	vf.Assert("decoded-message-encodes-again", err == nil && again != nil)
	if err != nil || again == nil {
		return
	}
	back, err := ProtoToWire(again)
	vf.Assert("re-decodes", err == nil && back != nil)
	vf.Assert("decodes-back-to-itself", vf.CanonEqual(m, back))
	vf.Reach("end")
}
