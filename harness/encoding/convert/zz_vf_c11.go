package convert

import (
	"github.com/aptpod/iscp-go/internal/vf"
	"github.com/aptpod/iscp-go/message"
	autogen "github.com/aptpod/iscp-proto/gen/gogofast/iscp2/v1"
)

const (
	zzMsgPkg = "github.com/aptpod/iscp-go/message"
	zzGenPkg = "github.com/aptpod/iscp-proto/gen/gogofast/iscp2/v1"
)

// C11.a: the result-code mapping is total in both directions (defined value sets are read from
// the packages' constant declarations at analysis time).
func zzC11aResultCodeToWire() {
	x := message.ResultCode(vf.I32("code"))
	def := vf.Defined(zzMsgPkg, "ResultCode", int64(x))
	vf.Known("KF-C11-too-short-ping-interval-lib", x == message.ResultCodeTooShortPingInterval)
	y, err := toResultCodeProto(x)
	if def {
		vf.Assert("defined-lib-code-maps", err == nil)
		if err == nil {
			vf.Assert("maps-to-defined-wire-code", vf.Defined(zzGenPkg, "ResultCode", int64(y)))
			back, err2 := toResultCode(y)
			vf.Assert("maps-back", err2 == nil)
			// NormalClosure and Succeeded share wire value 0 (documented alias)
			vf.Assert("round-trip", back == x || (x == message.ResultCodeNormalClosure && back == message.ResultCodeSucceeded))
		}
	} else {
		vf.Assert("undefined-lib-code-rejected", err != nil)
	}
	vf.Reach("end")
}

func zzC11aResultCodeFromWire() {
	y := autogen.ResultCode(vf.I32("code"))
	def := vf.Defined(zzGenPkg, "ResultCode", int64(y))
	vf.Known("KF-C11-too-short-ping-interval-wire", y == autogen.ResultCode_TOO_SHORT_PING_INTERVAL)
	x, err := toResultCode(y)
	if def {
		vf.Assert("defined-wire-code-maps", err == nil)
		if err == nil {
			vf.Assert("maps-to-defined-lib-code", vf.Defined(zzMsgPkg, "ResultCode", int64(x)))
			back, err2 := toResultCodeProto(x)
			vf.Assert("maps-back", err2 == nil && back == y)
		}
	} else {
		vf.Assert("undefined-wire-code-rejected", err != nil)
	}
	vf.Reach("end")
}

func zzC11aQoS() {
	x := message.QoS(vf.U8("qos"))
	y, err := toQoSProto(x)
	if vf.Defined(zzMsgPkg, "QoS", int64(x)) {
		vf.Assert("defined-qos-maps", err == nil)
		if err == nil {
			back, err2 := toQoS(y)
			vf.Assert("qos-round-trip", err2 == nil && back == x)
		}
	} else {
		vf.Assert("undefined-qos-rejected", err != nil)
	}
	w := autogen.QoS(vf.I32("wqos"))
	x2, err3 := toQoS(w)
	if vf.Defined(zzGenPkg, "QoS", int64(w)) {
		vf.Assert("defined-wire-qos-maps", err3 == nil)
		if err3 == nil {
			back, err4 := toQoSProto(x2)
			vf.Assert("wire-qos-round-trip", err4 == nil && back == w)
		}
	} else {
		vf.Assert("undefined-wire-qos-rejected", err3 != nil)
	}
	vf.Reach("end")
}
