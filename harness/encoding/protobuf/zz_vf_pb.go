package protobuf

import (
	"bytes"

	autogen "github.com/aptpod/iscp-proto/gen/gogofast/iscp2/v1"
	"github.com/gogo/protobuf/proto"

	"github.com/aptpod/iscp-go/internal/vf"
	"github.com/aptpod/iscp-go/internal/vfmsg"
	"github.com/aptpod/iscp-go/message"
)

// C11.c probe: Ping through the real generated protobuf code.
func zzC11PingBytes() {
	e := NewEncoding()
	id := vf.U32("id")
	var buf bytes.Buffer
	n, err := e.EncodeTo(&buf, &message.Ping{RequestID: message.RequestID(id)})
	vf.Assert("encode-ok", err == nil)
	vf.Assert("count-produced", n == buf.Len())
	total := buf.Len()
	rn, m, err := e.DecodeFrom(&buf)
	vf.Assert("decode-ok", err == nil)
	vf.Assert("count-consumed", rn == total)
	p, ok := m.(*message.Ping)
	vf.Assert("is-ping", ok)
	if ok {
		vf.Assert("id-same", uint32(p.RequestID) == id)
	}
	vf.Reach("end")
}

func zzIDBytes(label string) []byte {
	// a stream id field as the byte decoder can produce it: any length 0..17
	n := vf.Choose(label+".len", 4)
	switch n {
	case 0:
		return nil
	case 1:
		return make([]byte, 15)
	case 2:
		b := make([]byte, 16)
		b[0], b[15] = vf.U8(label+".first"), vf.U8(label+".last")
		return b
	}
	return make([]byte, 17)
}

// C12.b: hostile but well-formed protobuf frames (wrong-length uuids, absent inner messages, unknown
// enum numbers, absent oneof) never make DecodeFrom panic: the result is an error or a message, and
// a produced message encodes again and decodes back to itself.
func zzC12bHostileFrames() {
	var pb autogen.Message
	switch zzShape() {
	case 0: // no oneof set at all
	case 1:
		pb.Message = &autogen.Message_DownstreamChunkAck{DownstreamChunkAck: &autogen.DownstreamChunkAck{
			StreamIdAlias: 7, AckId: 9,
			Results: []*autogen.DownstreamChunkResult{{StreamIdOfUpstream: zzIDBytes("res.id"), SequenceNumberInUpstream: 3, ResultCode: zzRC("res.rc")}},
		}}
	case 2:
		pb.Message = &autogen.Message_DownstreamChunkAck{DownstreamChunkAck: &autogen.DownstreamChunkAck{
			UpstreamAliases: map[uint32]*autogen.UpstreamInfo{5: {SessionId: "s", SourceNodeId: "n", StreamId: zzIDBytes("up.id")}},
		}}
	case 3:
		pb.Message = &autogen.Message_DownstreamChunkAck{DownstreamChunkAck: &autogen.DownstreamChunkAck{
			DataIdAliases: map[uint32]*autogen.DataID{4: nil},
		}}
	case 4:
		pb.Message = &autogen.Message_UpstreamOpenResponse{UpstreamOpenResponse: &autogen.UpstreamOpenResponse{
			RequestId: 2, AssignedStreamId: zzIDBytes("assigned"), ResultCode: zzRC("open.rc"),
		}}
	case 5:
		pb.Message = &autogen.Message_DownstreamChunk{DownstreamChunk: &autogen.DownstreamChunk{
			StreamIdAlias: 7,
			UpstreamOrAlias: &autogen.DownstreamChunk_UpstreamInfo{UpstreamInfo: &autogen.UpstreamInfo{SessionId: "s", SourceNodeId: "n", StreamId: zzIDBytes("chunk.up.id")}},
		}}
	case 6:
		pb.Message = &autogen.Message_UpstreamCloseRequest{UpstreamCloseRequest: &autogen.UpstreamCloseRequest{
			RequestId: 2, StreamId: zzIDBytes("close.id"), TotalDataPoints: zzTotal(), FinalSequenceNumber: 11,
		}}
	}
	frame, merr := proto.Marshal(&pb)
	vf.Assume(merr == nil)
	e := &encoder{}
	var m message.Message
	var err error
	var n int
	panicked := vf.Panics(func() { n, m, err = e.DecodeFrom(bytes.NewReader(frame)) })
	vf.Assert("decode-never-panics", !panicked)
	if panicked {
		return
	}
	vf.Assert("error-or-message", (err != nil) != (m != nil))
	if err != nil {
		vf.Assert("error-result-is-zero", n == 0 && m == nil)
		vf.Reach("rejected")
		return
	}
	vf.Assert("consumed-count", n == len(frame))
	// a produced message can be encoded again and decodes back to itself
	var buf bytes.Buffer
	_, eerr := e.EncodeTo(&buf, m)
	vf.Assert("accepted-message-encodes", eerr == nil)
	if eerr == nil {
		_, m2, derr := e.DecodeFrom(&buf)
		vf.Assert("accepted-message-round-trips", derr == nil && vf.CanonEqual(m, m2))
	}
	vf.Reach("accepted")
}

var zzSymbolicNumbers = false

// zzRC is a wire result code: defined, undefined or negative (concrete classes in the quick tier,
// any int32 in the thorough tier).
func zzRC(label string) autogen.ResultCode {
	if zzSymbolicNumbers {
		return autogen.ResultCode(vf.I32(label))
	}
	switch vf.Choose(label+".class", 5) {
	case 0:
		return autogen.ResultCode_SUCCEEDED
	case 1:
		return autogen.ResultCode_UNSPECIFIED_ERROR
	case 2:
		return autogen.ResultCode_SESSION_CANNOT_CLOSED
	case 3:
		return autogen.ResultCode(9999)
	}
	return autogen.ResultCode(-1)
}

func zzTotal() uint64 {
	if zzSymbolicNumbers {
		return vf.U64("total")
	}
	if vf.Choose("total.class", 2) == 0 {
		return 0
	}
	return 1<<64 - 1
}

func zzC12bHostileFramesSym() { zzSymbolicNumbers = true; zzC12bHostileFrames() }

var zzShapeFixed = -1

func zzShape() int {
	if zzShapeFixed >= 0 {
		return zzShapeFixed
	}
	return vf.Choose("shape", 7)
}

func zzC12bSymShape(k int) { zzSymbolicNumbers = true; zzShapeFixed = k; zzC12bHostileFrames() }
func zzC12bSym0()           { zzC12bSymShape(0) }
func zzC12bSym1()           { zzC12bSymShape(1) }
func zzC12bSym2()           { zzC12bSymShape(2) }
func zzC12bSym3()           { zzC12bSymShape(3) }
func zzC12bSym4()           { zzC12bSymShape(4) }
func zzC12bSym5()           { zzC12bSymShape(5) }
func zzC12bSym6()           { zzC12bSymShape(6) }
func zzC12bShape1() { zzShapeFixed = 1; zzC12bHostileFrames() }
func zzC12bShape4() { zzShapeFixed = 4; zzC12bHostileFrames() }
func zzC12bShape6() { zzShapeFixed = 6; zzC12bHostileFrames() }

// C11.p2: messages of every size class survive the real protobuf byte codec, in sequence through the
// same encoder (pooled buffers are reused and grown), and the codec's byte counts equal the bytes
// produced / consumed.
func zzC11p2Sizes() {
	e := NewEncoding()
	sizes := []int{0, 1, 100, 4090, 4096, 5000, 300, 20000}
	first := vf.Choose("first.size", len(sizes))
	for round := 0; round < 3; round++ {
		n := sizes[(first+round*3)%len(sizes)]
		payload := make([]byte, n)
		if n > 0 {
			payload[0] = vf.U8("b" + string(rune('0'+round)) + ".first")
			payload[n-1] = vf.U8("b" + string(rune('0'+round)) + ".last")
		}
		m := &message.UpstreamChunk{StreamIDAlias: 7, StreamChunk: &message.StreamChunk{SequenceNumber: uint32(round + 1),
			DataPointGroups: []*message.DataPointGroup{{DataIDOrAlias: message.DataIDAlias(3), DataPoints: []*message.DataPoint{{ElapsedTime: 5, Payload: payload}}}}}}
		var buf bytes.Buffer
		wn, err := e.EncodeTo(&buf, m)
		vf.Assert("encode-ok", err == nil)
		vf.Assert("count-produced", wn == buf.Len())
		vf.Assert("frame-not-much-larger-than-payload", buf.Len() <= n+64)
		total := buf.Len()
		rn, back, derr := e.DecodeFrom(&buf)
		vf.Assert("decode-ok", derr == nil)
		vf.Assert("count-consumed", rn == total)
		g, ok := back.(*message.UpstreamChunk)
		vf.Assert("same-type", ok)
		if ok {
			ps := g.StreamChunk.DataPointGroups[0].DataPoints[0].Payload
			vf.Assert("payload-length", len(ps) == n)
			if n > 0 && len(ps) == n {
				vf.Assert("payload-ends", ps[0] == payload[0] && ps[n-1] == payload[n-1])
			}
			vf.Assert("sequence-number", g.StreamChunk.SequenceNumber == uint32(round+1) && g.StreamIDAlias == 7)
		}
	}
	vf.Reach("end")
}

// C11.p3: every message type through the real byte codec (generated marshal / unmarshal code):
// the decoded message equals the encoded one, the byte counts reported equal the bytes produced and
// consumed, and the decoded message encodes again to the same length and decodes to itself.
func zzC11p3AllTypesBytes() {
	kind := vf.Choose("kind", vfmsg.Kinds)
	ext := vf.Choose("ext", 2) == 1
	g := &vfmsg.Gen{Profile: vf.Choose("profile", 5)}
	m := g.Build(kind, ext)
	e := NewEncoding()
	var buf bytes.Buffer
	n, err := e.EncodeTo(&buf, m)
	vf.Assert("encode-ok", err == nil)
	vf.Assert("count-produced", n == buf.Len())
	first := append([]byte{}, buf.Bytes()...)
	rn, back, err := e.DecodeFrom(&buf)
	vf.Assert("decode-ok", err == nil && back != nil)
	if err != nil || back == nil {
		return
	}
	vf.Assert("count-consumed", rn == len(first))
	vf.Assert("round-trip-equal", vf.CanonEqual(m, back))
	// (byte-identical re-encoding is not demanded: map entries may be written in any order)
	var buf2 bytes.Buffer
	n2, err := e.EncodeTo(&buf2, back)
	vf.Assert("re-encode-same-length", err == nil && n2 == len(first))
	_, again, err := e.DecodeFrom(&buf2)
	vf.Assert("re-decode-equal", err == nil && vf.CanonEqual(back, again))
	vf.Reach("end")
}

// C11.p4: a rejected frame leaves nothing behind: after a decode that ended in an error (unknown
// enum number, truncated frame, empty frame) the next frame decodes to its own message and the
// byte count reported is that frame's length (decoders share pooled buffers).
func zzC11p4AfterRejectedFrame() {
	e := NewEncoding()
	var bad []byte
	switch vf.Choose("rejected.frame", 4) {
	case 0: // well-formed, but the converter rejects it
		pb := &autogen.Message{Message: &autogen.Message_Disconnect{Disconnect: &autogen.Disconnect{ResultCode: autogen.ResultCode(9999), ResultString: "stale"}}}
		bad, _ = proto.Marshal(pb)
	case 1: // truncated
		var buf bytes.Buffer
		e.EncodeTo(&buf, &message.UpstreamCall{CallID: "call-id-that-is-cut", DestinationNodeID: "dst", Name: "n", Type: "t", Payload: []byte{1, 2, 3}})
		bad = buf.Bytes()[:buf.Len()-4]
	case 2: // wrong-length uuid
		pb := &autogen.Message{Message: &autogen.Message_UpstreamResumeRequest{UpstreamResumeRequest: &autogen.UpstreamResumeRequest{RequestId: 4, StreamId: []byte{1, 2, 3}}}}
		bad, _ = proto.Marshal(pb)
	case 3:
		bad = []byte{}
	}
	_, m0, err0 := e.DecodeFrom(bytes.NewReader(bad))
	vf.Assert("bad-frame-is-an-error", err0 != nil && m0 == nil)
	g := &vfmsg.Gen{Profile: vf.Choose("profile", 5)}
	want := g.Build(vf.Choose("kind", 6)*7, vf.Choose("ext", 2) == 1) // kinds 0, 7, 14, 21, 28, 35
	var buf bytes.Buffer
	n, err := e.EncodeTo(&buf, want)
	vf.Assume(err == nil)
	rn, got, err := e.DecodeFrom(&buf)
	vf.Assert("next-frame-decodes", err == nil && got != nil)
	vf.Assert("count-is-that-frames-length", rn == n)
	vf.Assert("next-frame-decodes-to-its-own-message", vf.CanonEqual(want, got))
	vf.Reach("end")
}

// C12.q: unknown enum numbers in every place a QoS or result code travels: the decoder answers with
// an error or with a message that encodes again and decodes back to itself - never a message the
// library itself cannot re-encode.
func zzC12qEnumNumbers() {
	vals := [...]int32{0, 1, 2, 3, 255, 256, -1, -2, -256, 2147483647, -2147483648}
	q := autogen.QoS(vals[vf.Choose("qos.number", len(vals))])
	rc := autogen.ResultCode(vals[vf.Choose("result.code.number", len(vals))])
	id := make([]byte, 16)
	var pb autogen.Message
	switch vf.Choose("message", 7) {
	case 0:
		pb.Message = &autogen.Message_UpstreamOpenRequest{UpstreamOpenRequest: &autogen.UpstreamOpenRequest{RequestId: 2, SessionId: "s", Qos: q}}
	case 1:
		pb.Message = &autogen.Message_DownstreamOpenRequest{DownstreamOpenRequest: &autogen.DownstreamOpenRequest{RequestId: 2, Qos: q}}
	case 2:
		pb.Message = &autogen.Message_DownstreamMetadata{DownstreamMetadata: &autogen.DownstreamMetadata{RequestId: 3, Metadata: &autogen.DownstreamMetadata_UpstreamOpen{UpstreamOpen: &autogen.UpstreamOpen{StreamId: id, SessionId: "s", Qos: q}}}}
	case 3:
		pb.Message = &autogen.Message_DownstreamMetadata{DownstreamMetadata: &autogen.DownstreamMetadata{RequestId: 3, Metadata: &autogen.DownstreamMetadata_DownstreamResume{DownstreamResume: &autogen.DownstreamResume{StreamId: id, Qos: q}}}}
	case 4:
		pb.Message = &autogen.Message_UpstreamOpenResponse{UpstreamOpenResponse: &autogen.UpstreamOpenResponse{RequestId: 2, AssignedStreamId: id, ResultCode: rc}}
	case 5:
		pb.Message = &autogen.Message_UpstreamChunkAck{UpstreamChunkAck: &autogen.UpstreamChunkAck{StreamIdAlias: 1, Results: []*autogen.UpstreamChunkResult{{SequenceNumber: 1, ResultCode: rc}}}}
	case 6:
		pb.Message = &autogen.Message_Disconnect{Disconnect: &autogen.Disconnect{ResultCode: rc}}
	}
	frame, err := proto.Marshal(&pb)
	vf.Assume(err == nil)
	e := NewEncoding()
	var m message.Message
	var derr error
	panicked := vf.Panics(func() { _, m, derr = e.DecodeFrom(bytes.NewReader(frame)) })
	vf.Assert("decode-never-panics", !panicked)
	vf.Assert("error-or-message", (derr != nil) != (m != nil))
	if m != nil {
		var buf bytes.Buffer
		_, eerr := e.EncodeTo(&buf, m)
		vf.Assert("accepted-message-encodes-again", eerr == nil)
		if eerr == nil {
			_, back, rerr := e.DecodeFrom(&buf)
			vf.Assert("accepted-message-round-trips", rerr == nil && vf.CanonEqual(m, back))
		}
		vf.Reach("accepted")
	} else {
		vf.Reach("rejected")
	}
}
