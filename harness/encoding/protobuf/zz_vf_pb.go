package protobuf

import (
	"bytes"

	"github.com/aptpod/iscp-go/internal/vf"
	"github.com/aptpod/iscp-go/message"
)

// C11.c probe: Ping through the real generated protobuf code.
func zzC11PingBytes() {
	e := NewEncoding()
	id := vf.U32("id")
	var buf bytes.Buffer
	n, err := e.EncodeTo(&buf, &message.Ping{RequestID: message.RequestID(id)})
	vf.Assert("encode-ok", err == nil)
	vf.Assert("count-produced", n == buf.Len())
	total := buf.Len()
	rn, m, err := e.DecodeFrom(&buf)
	vf.Assert("decode-ok", err == nil)
	vf.Assert("count-consumed", rn == total)
	p, ok := m.(*message.Ping)
	vf.Assert("is-ping", ok)
	if ok {
		vf.Assert("id-same", uint32(p.RequestID) == id)
	}
	vf.Reach("end")
}
