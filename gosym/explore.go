package main

import (
	"fmt"
	"go/token"
	"sort"
	"strings"
	"sync"
	"time"

	"golang.org/x/tools/go/ssa"
)

type LemmaResult struct {
	Lemma        *Lemma
	Paths        int
	PathsEnded   map[string]int
	Obligations  int
	Discharged   int
	Violations   []Violation
	Inconclusive []string
	Reached      map[string]int
	AssertIDs    map[string]int
	Queries      int
	SolverTime   time.Duration
	Wall         time.Duration
	FuncsHit     map[string]bool
	Samples      []map[string]interface{}
	SolverStats  string
	MaxTrail     int
	Unsat        int
	Sat          int
	Unknown      int
}

func (r *Run) exec(fn *ssa.Function) {
	r.m.solver.Reset()
	r.sched = newSched(r)
	mainG := r.sched.spawn("harness", func() {
		r.callSSA(nil, token.NoPos, fn, nil, nil)
	})
	mainG.isMain = true
	r.sched.cur = mainG
	mainG.resume <- struct{}{}
	<-r.sched.done
	// classify the outcome while the solver still holds this path's assertions
	s := r.sched
	if s.fatal != nil {
		switch p := s.fatal.(type) {
		case pathEnd:
			r.ended = p.why
		case unsupportedErr:
			r.ended = "unsupported"
			r.inconclusive = append(r.inconclusive, p.Error())
		case targetPanic:
			r.ended = "panic"
			r.reportViolation("panic", "panic: "+r.panicText(p), token.NoPos, nil)
		case escapedPanic:
			r.ended = "panic"
			r.reportViolation("panic", "panic in goroutine "+shortFn(p.in)+": "+r.panicText(p.tp), token.NoPos, nil)
		case fatalErr:
			r.ended = "fatal"
			r.reportViolation("fatal", "fatal error: "+p.msg, token.NoPos, nil)
		default:
			r.ended = "interp-error"
			r.inconclusive = append(r.inconclusive, fmt.Sprintf("interpreter error: %v", p))
		}
	} else if s.deadlock && !s.mainDone {
		r.ended = "deadlock"
		r.reportViolation("deadlock", "harness blocked forever: "+s.blockedSummary(), token.NoPos, nil)
	}
	s.abortAll()
}

func shortFn(s string) string {
	if i := strings.LastIndex(s, "/"); i >= 0 {
		return s[i+1:]
	}
	return s
}

func (r *Run) panicText(p targetPanic) string {
	if iv, ok := p.v.(Iface); ok {
		if s, ok := iv.V.(Str); ok && s.IsConst {
			return s.C
		}
		if iv.T != nil {
			if p.msg != "" && p.msg != "explicit panic" {
				return p.msg
			}
			return "value of type " + iv.T.String() + " " + p.pos
		}
	}
	if p.msg != "" {
		return p.msg
	}
	return "panic"
}

var cpuTokens chan struct{}

// RunLemma explores all paths of the harness. Paths are independent re-executions, so they are
// spread over several workers (each with its own z3 process) while CPU tokens are available.
func RunLemma(mk func() (*Machine, error), l *Lemma, fn *ssa.Function, deadline time.Time, maxPaths int) *LemmaResult {
	res := &LemmaResult{Lemma: l, PathsEnded: map[string]int{}, Reached: map[string]int{}, AssertIDs: map[string]int{}, FuncsHit: map[string]bool{}}
	t0 := time.Now()
	var mu sync.Mutex
	cond := sync.NewCond(&mu)
	queue := [][]int64{{}}
	active := 0
	workers := 0
	stop := false
	seenViol := map[string]int{}
	var wg sync.WaitGroup

	var worker func(holdsToken bool)
	worker = func(holdsToken bool) {
		defer wg.Done()
		if holdsToken {
			defer func() { <-cpuTokens }()
		}
		m, err := mk()
		if err != nil {
			mu.Lock()
			res.Inconclusive = append(res.Inconclusive, "cannot start solver: "+err.Error())
			workers--
			cond.Broadcast()
			mu.Unlock()
			return
		}
		defer func() {
			mu.Lock()
			res.Queries += m.solver.Queries
			res.SolverTime += m.solver.Time
			res.Sat += m.solver.Sat
			res.Unsat += m.solver.Unsat
			res.Unknown += m.solver.Unknown
			if m.solver.Errors > 0 {
				res.Inconclusive = append(res.Inconclusive, fmt.Sprintf("solver reported %d error lines (last: %s)", m.solver.Errors, m.solver.lastErr))
			}
			workers--
			cond.Broadcast()
			mu.Unlock()
			m.solver.Close()
		}()
		for {
			mu.Lock()
			for len(queue) == 0 && active > 0 && !stop {
				cond.Wait()
			}
			if stop || len(queue) == 0 {
				mu.Unlock()
				return
			}
			if res.Paths+active >= maxPaths {
				res.Inconclusive = append(res.Inconclusive, fmt.Sprintf("path limit %d reached with %d prefixes pending", maxPaths, len(queue)))
				stop = true
				cond.Broadcast()
				mu.Unlock()
				return
			}
			if time.Now().After(deadline) {
				res.Inconclusive = append(res.Inconclusive, fmt.Sprintf("time budget reached with %d prefixes pending after %d paths", len(queue), res.Paths))
				stop = true
				cond.Broadcast()
				mu.Unlock()
				return
			}
			prefix := queue[len(queue)-1]
			queue = queue[:len(queue)-1]
			active++
			// grow the pool while there is a backlog and a free CPU
			if len(queue) > 2 && workers < 16 {
				select {
				case cpuTokens <- struct{}{}:
					workers++
					wg.Add(1)
					go worker(true)
				default:
				}
			}
			mu.Unlock()

			r := m.newRun(prefix)
			r.exec(fn)

			mu.Lock()
			active--
			res.Paths++
			res.PathsEnded[r.ended]++
			res.Obligations += r.obligations
			res.Discharged += r.discharged
			if len(r.trail) > res.MaxTrail {
				res.MaxTrail = len(r.trail)
			}
			for k := range r.reached {
				res.Reached[k]++
			}
			for k, n := range r.assertIDs {
				res.AssertIDs[k] += n
			}
			for k := range r.funcsHit {
				res.FuncsHit[k] = true
			}
			res.Inconclusive = append(res.Inconclusive, r.inconclusive...)
			for _, v := range r.violations {
				key := v.Kind + "|" + v.ID + "|" + strings.Join(v.KnownIDs, ",")
				seenViol[key]++
				if seenViol[key] <= 3 {
					v.Harness = l.Func
					res.Violations = append(res.Violations, v)
				}
			}
			if len(res.Samples) < 3 && r.ended == "" {
				res.Samples = append(res.Samples, r.sample())
			}
			queue = append(queue, r.newAlts...)
			cond.Broadcast()
			mu.Unlock()
		}
	}
	cpuTokens <- struct{}{}
	workers = 1
	wg.Add(1)
	go worker(true)
	wg.Wait()
	sort.Slice(res.Violations, func(i, j int) bool {
		a, b := res.Violations[i], res.Violations[j]
		if a.ID != b.ID {
			return a.ID < b.ID
		}
		return fmt.Sprint(a.Trail) < fmt.Sprint(b.Trail)
	})
	res.Wall = time.Since(t0)
	return res
}

func (r *Run) sample() map[string]interface{} {
	smp := map[string]interface{}{"decisions": len(r.trail), "obligations": r.obligations, "path_conditions": len(r.pc)}
	var labels []string
	for _, in := range r.inputs {
		labels = append(labels, in.Label)
	}
	sort.Strings(labels)
	if len(labels) > 12 {
		labels = labels[:12]
	}
	smp["symbolic_inputs"] = labels
	if len(r.pc) > 0 {
		s := r.pc[len(r.pc)-1].String()
		if len(s) > 160 {
			s = s[:160] + "…"
		}
		smp["last_path_condition"] = s
	}
	return smp
}
