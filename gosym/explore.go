package main

import (
	"fmt"
	"go/token"
	"sort"
	"strings"
	"time"

	"golang.org/x/tools/go/ssa"
)

type LemmaResult struct {
	Lemma        *Lemma
	Paths        int
	PathsEnded   map[string]int
	Obligations  int
	Discharged   int
	Violations   []Violation
	Inconclusive []string
	Reached      map[string]int
	AssertIDs    map[string]int
	Queries      int
	SolverTime   time.Duration
	Wall         time.Duration
	FuncsHit     map[string]bool
	Samples      []map[string]interface{}
	SolverStats  string
	MaxTrail     int
	Unsat        int
	Sat          int
	Unknown      int
}

func (r *Run) exec(fn *ssa.Function) {
	r.m.solver.Reset()
	r.sched = newSched(r)
	mainG := r.sched.spawn("harness", func() {
		r.callSSA(nil, token.NoPos, fn, nil, nil)
	})
	mainG.isMain = true
	r.sched.cur = mainG
	mainG.resume <- struct{}{}
	<-r.sched.done
	// classify the outcome while the solver still holds this path's assertions
	s := r.sched
	if s.fatal != nil {
		switch p := s.fatal.(type) {
		case pathEnd:
			r.ended = p.why
		case unsupportedErr:
			r.ended = "unsupported"
			r.inconclusive = append(r.inconclusive, p.Error())
		case targetPanic:
			r.ended = "panic"
			r.reportViolation("panic", "panic: "+r.panicText(p), token.NoPos, nil)
		case escapedPanic:
			r.ended = "panic"
			r.reportViolation("panic", "panic in goroutine "+shortFn(p.in)+": "+r.panicText(p.tp), token.NoPos, nil)
		case fatalErr:
			r.ended = "fatal"
			r.reportViolation("fatal", "fatal error: "+p.msg, token.NoPos, nil)
		default:
			r.ended = "interp-error"
			r.inconclusive = append(r.inconclusive, fmt.Sprintf("interpreter error: %v", p))
		}
	} else if s.deadlock && !s.mainDone {
		r.ended = "deadlock"
		r.reportViolation("deadlock", "harness blocked forever: "+s.blockedSummary(), token.NoPos, nil)
	}
	s.abortAll()
}

func shortFn(s string) string {
	if i := strings.LastIndex(s, "/"); i >= 0 {
		return s[i+1:]
	}
	return s
}

func (r *Run) panicText(p targetPanic) string {
	if iv, ok := p.v.(Iface); ok {
		if s, ok := iv.V.(Str); ok && s.IsConst {
			return s.C
		}
		if iv.T != nil {
			if p.msg != "" && p.msg != "explicit panic" {
				return p.msg
			}
			return "value of type " + iv.T.String() + " " + p.pos
		}
	}
	if p.msg != "" {
		return p.msg
	}
	return "panic"
}

func (m *Machine) RunLemma(l *Lemma, fn *ssa.Function, deadline time.Time) *LemmaResult {
	res := &LemmaResult{Lemma: l, PathsEnded: map[string]int{}, Reached: map[string]int{}, AssertIDs: map[string]int{}, FuncsHit: map[string]bool{}}
	t0 := time.Now()
	work := [][]int64{{}}
	seenViol := map[string]int{}
	for len(work) > 0 {
		if res.Paths >= m.opts.MaxPaths {
			res.Inconclusive = append(res.Inconclusive, fmt.Sprintf("path limit %d reached with %d prefixes pending", m.opts.MaxPaths, len(work)))
			break
		}
		if time.Now().After(deadline) {
			res.Inconclusive = append(res.Inconclusive, fmt.Sprintf("time budget reached with %d prefixes pending after %d paths", len(work), res.Paths))
			break
		}
		prefix := work[len(work)-1]
		work = work[:len(work)-1]
		r := m.newRun(prefix)
		r.exec(fn)
		res.Paths++
		res.PathsEnded[r.ended]++
		res.Obligations += r.obligations
		res.Discharged += r.discharged
		if len(r.trail) > res.MaxTrail {
			res.MaxTrail = len(r.trail)
		}
		for k := range r.reached {
			res.Reached[k]++
		}
		for k, n := range r.assertIDs {
			res.AssertIDs[k] += n
		}
		for k := range r.funcsHit {
			res.FuncsHit[k] = true
		}
		for _, inc := range r.inconclusive {
			res.Inconclusive = append(res.Inconclusive, inc)
		}
		for _, v := range r.violations {
			key := v.Kind + "|" + v.ID + "|" + strings.Join(v.KnownIDs, ",")
			seenViol[key]++
			if seenViol[key] <= 3 {
				v.Harness = l.Func
				res.Violations = append(res.Violations, v)
			}
		}
		if len(res.Samples) < 3 && r.ended == "" {
			smp := map[string]interface{}{"decisions": len(r.trail), "obligations": r.obligations, "path_conditions": len(r.pc)}
			var labels []string
			for _, in := range r.inputs {
				labels = append(labels, in.Label)
			}
			sort.Strings(labels)
			if len(labels) > 12 {
				labels = labels[:12]
			}
			smp["symbolic_inputs"] = labels
			if len(r.pc) > 0 {
				s := r.pc[len(r.pc)-1].String()
				if len(s) > 160 {
					s = s[:160] + "…"
				}
				smp["last_path_condition"] = s
			}
			res.Samples = append(res.Samples, smp)
		}
		work = append(work, r.newAlts...)
	}
	res.Queries = m.solver.Queries
	res.SolverTime = m.solver.Time
	res.Sat, res.Unsat, res.Unknown = m.solver.Sat, m.solver.Unsat, m.solver.Unknown
	if m.solver.Errors > 0 {
		res.Inconclusive = append(res.Inconclusive, fmt.Sprintf("solver reported %d error lines (last: %s)", m.solver.Errors, m.solver.lastErr))
	}
	res.Wall = time.Since(t0)
	return res
}
