package main

// Stub of compress/flate for the dictionary-window lemmas (C13.b): the compressor's output is an
// opaque frame recording (dictionary, data); the decompressor returns the data iff its own
// dictionary is byte-for-byte the one the compressor used, otherwise "corrupt input". DEFLATE itself
// is outside the claim; what the lemma decides is that both ends keep identical windows.

import (
	"go/token"
	"go/types"

	"golang.org/x/tools/go/ssa"
)

type flateW struct {
	w      Iface   // underlying io.Writer
	dict   []Value // snapshot of the dictionary
	data   []Value
	closed bool
}

type flateR struct {
	r      Iface // underlying io.Reader
	dict   []Value
	loaded bool
	data   []Value
	err    bool
	pos    int
}

var flateReaderType = types.NewNamed(types.NewTypeName(token.NoPos, nil, "flate.decompressor#vf", nil), types.NewStruct(nil, nil), nil)

func cloneVals(in []Value) []Value {
	out := make([]Value, len(in))
	copy(out, in)
	return out
}

// invokeIface calls method name on an interface value.
func (r *Run) invokeIface(c *frame, iv Iface, name string, args ...Value) Value {
	if iv.T == nil {
		panic(r.nilDeref("method " + name + " on nil interface"))
	}
	if iv.T == flateReaderType || iv.T == errObjType || iv.T == runtimeErrType {
		return r.call(c, token.NoPos, &fakeMethod{recv: iv, name: name}, args)
	}
	f := r.m.prog.LookupMethod(iv.T, nil, name)
	if f == nil {
		ms := r.m.prog.MethodSets.MethodSet(iv.T)
		for i := 0; i < ms.Len(); i++ {
			if ms.At(i).Obj().Name() == name {
				f = r.m.prog.MethodValue(ms.At(i))
			}
		}
	}
	if f == nil {
		panic(unsupported("no method " + name + " on " + iv.T.String()))
	}
	return r.call(c, token.NoPos, f, append([]Value{iv.V}, args...))
}

func flateWriterOf(v Value) *flateW {
	p := v.(*Value)
	return (*p).(*Opaque).Data.(*flateW)
}

func (r *Run) newFlateWriter(w Value, dict Value) Value {
	fw := &flateW{w: w.(Iface)}
	if d, ok := dict.(Slice); ok {
		fw.dict = cloneVals(d.S)
	}
	p := new(Value)
	*p = &Opaque{Kind: "flate.Writer", Data: fw}
	return Tuple{p, Iface{}}
}

func (r *Run) flateClose(c *frame, fw *flateW) Value {
	if fw.closed {
		return Iface{}
	}
	fw.closed = true
	if run, ok := flateRun(fw.data); ok && len(fw.dict) <= 254 {
		// A long run of one byte value: the frame is as short as DEFLATE permits. One length-258
		// match costs at least two bits (one for the length symbol, one for the distance symbol), so
		// n bytes need at least n/1032 bytes; the stub adds the seven bytes of its own header.
		// frame: [0xFF dictLen dict... value n(4, big endian) padding...]
		n := len(fw.data)
		var frame []Value
		frame = append(frame, mkBV(8, 0xFF), mkBV(8, uint64(len(fw.dict))))
		frame = append(frame, fw.dict...)
		frame = append(frame, run, mkBV(8, uint64(n>>24)&0xFF), mkBV(8, uint64(n>>16)&0xFF), mkBV(8, uint64(n>>8)&0xFF), mkBV(8, uint64(n)&0xFF))
		for i := 0; i < (n+1031)/1032; i++ {
			frame = append(frame, mkBV(8, 0))
		}
		res := r.invokeIface(c, fw.w, "Write", Slice{S: frame})
		if t, ok := res.(Tuple); ok {
			return t[1]
		}
		return Iface{}
	}
	if len(fw.dict) > 254 || len(fw.data) > 255 {
		panic(unsupported("flate stub: more than 255 bytes that are not a run of one value"))
	}
	var frame []Value
	frame = append(frame, mkBV(8, uint64(len(fw.dict))))
	frame = append(frame, fw.dict...)
	frame = append(frame, mkBV(8, uint64(len(fw.data))))
	frame = append(frame, fw.data...)
	res := r.invokeIface(c, fw.w, "Write", Slice{S: frame})
	if t, ok := res.(Tuple); ok {
		return t[1]
	}
	return Iface{}
}

// flateRead serves Read on the stub decompressor.
func (r *Run) flateRead(c *frame, fr *flateR, dst Slice) Value {
	if !fr.loaded {
		fr.loaded = true
		var all []Value
		buf := make([]Value, 64)
		for i := range buf {
			buf[i] = mkBV(8, 0)
		}
		for round := 0; round < 4096; round++ {
			res := r.invokeIface(c, fr.r, "Read", Slice{S: buf}).(Tuple)
			n := int(r.concInt(res[0], "flate stub read"))
			all = append(all, cloneVals(buf[:n])...)
			if e, _ := res[1].(Iface); e.T != nil {
				break
			}
			if n == 0 {
				break
			}
		}
		// parse the frame: [dictLen dict... dataLen data...]
		ok := len(all) >= 2
		if h := all0Const(all); ok && h == 0xFF {
			// run frame (see flateClose)
			ok = false
			if dl, isT := all[1].(*Term); isT && dl.Const && len(all) >= 7+int(dl.V) {
				dict := all[2 : 2+int(dl.V)]
				rest := all[2+int(dl.V):]
				n, cok := 0, true
				for _, b := range rest[1:5] {
					t, isT := b.(*Term)
					if !isT || !t.Const {
						cok = false
						break
					}
					n = n<<8 | int(t.V)
				}
				if cok && len(rest) == 5+(n+1031)/1032 && len(dict) == len(fr.dict) {
					same := tTrue
					for i := range dict {
						same = tAnd(same, tEq(dict[i].(*Term), fr.dict[i].(*Term)))
					}
					if r.branch(same) {
						fr.data = make([]Value, n)
						for i := range fr.data {
							fr.data[i] = rest[0]
						}
						ok = true
					}
				}
			}
		} else if ok {
			dl := all[0].(*Term)
			if !dl.Const || int(dl.V)+2 > len(all) {
				ok = false
			} else {
				dict := all[1 : 1+int(dl.V)]
				nl := all[1+int(dl.V)].(*Term)
				rest := all[2+int(dl.V):]
				if !nl.Const || int(nl.V) != len(rest) {
					ok = false
				} else if len(dict) != len(fr.dict) {
					ok = false
				} else {
					same := tTrue
					for i := range dict {
						same = tAnd(same, tEq(dict[i].(*Term), fr.dict[i].(*Term)))
					}
					if r.branch(same) {
						fr.data = rest
					} else {
						ok = false
					}
				}
			}
		}
		fr.err = !ok
	}
	if fr.err {
		return Tuple{mkBV(64, 0), r.newErr(constStr("flate: corrupt input (stub: dictionary mismatch)"), nil, false)}
	}
	if fr.pos >= len(fr.data) {
		return Tuple{mkBV(64, 0), r.ioEOF()}
	}
	n := copy(dst.S, fr.data[fr.pos:])
	fr.pos += n
	return Tuple{mkBV(64, uint64(n)), Iface{}}
}

// flateRun reports whether data is a long run of one concrete byte value.
func flateRun(data []Value) (Value, bool) {
	if len(data) < 1024 {
		return nil, false
	}
	first, ok := data[0].(*Term)
	if !ok || !first.Const {
		return nil, false
	}
	for _, v := range data[1:] {
		t, ok := v.(*Term)
		if !ok || !t.Const || t.V != first.V {
			return nil, false
		}
	}
	return first, true
}

func all0Const(all []Value) uint64 {
	if len(all) == 0 {
		return 0
	}
	if t, ok := all[0].(*Term); ok && t.Const {
		return t.V
	}
	return 0
}

func (r *Run) ioEOF() Value {
	pkg := r.m.prog.ImportedPackage("io")
	if pkg == nil {
		panic(unsupported("io not loaded"))
	}
	g := pkg.Var("EOF")
	return copyVal(*r.globalAddr(g))
}

func registerFlate() {
	intrinsics["compress/flate.NewWriterDict"] = func(r *Run, c *frame, fn *ssa.Function, a []Value) Value {
		return r.newFlateWriter(a[0], a[2])
	}
	intrinsics["compress/flate.NewWriter"] = func(r *Run, c *frame, fn *ssa.Function, a []Value) Value {
		return r.newFlateWriter(a[0], Slice{})
	}
	intrinsics["(*compress/flate.Writer).Write"] = func(r *Run, c *frame, fn *ssa.Function, a []Value) Value {
		fw := flateWriterOf(a[0])
		d := a[1].(Slice)
		fw.data = append(fw.data, cloneVals(d.S)...)
		return Tuple{mkBV(64, uint64(len(d.S))), Iface{}}
	}
	intrinsics["(*compress/flate.Writer).Close"] = func(r *Run, c *frame, fn *ssa.Function, a []Value) Value {
		return r.flateClose(c, flateWriterOf(a[0]))
	}
	intrinsics["(*compress/flate.Writer).Reset"] = func(r *Run, c *frame, fn *ssa.Function, a []Value) Value {
		// discards the writer's state; destination replaced, dictionary (if any) kept
		fw := flateWriterOf(a[0])
		fw.w = a[1].(Iface)
		fw.data = nil
		fw.closed = false
		return nil
	}
	intrinsics["(*compress/flate.Writer).Flush"] = func(r *Run, c *frame, fn *ssa.Function, a []Value) Value { return Iface{} }
	mkReader := func(r *Run, src Value, dict Value) Value {
		fr := &flateR{r: src.(Iface)}
		if d, ok := dict.(Slice); ok {
			fr.dict = cloneVals(d.S)
		}
		return Iface{T: flateReaderType, V: &Opaque{Kind: "flate.Reader", Data: fr}}
	}
	intrinsics["compress/flate.NewReaderDict"] = func(r *Run, c *frame, fn *ssa.Function, a []Value) Value {
		return mkReader(r, a[0], a[1])
	}
	intrinsics["compress/flate.NewReader"] = func(r *Run, c *frame, fn *ssa.Function, a []Value) Value {
		return mkReader(r, a[0], Slice{})
	}
}
