package main

// Run = one path execution of a harness (re-execution based DFS over decisions).

import (
	"fmt"
	"sync"
	"go/token"
	"go/types"
	"sort"
	"strings"

	"golang.org/x/tools/go/ssa"
)

type Options struct {
	MaxSteps      int
	MaxPaths      int
	ConcCap       int  // max alternatives when concretising a symbolic value
	AllMapOrders  bool // fork over map iteration orders
	MaxDepth      int
	Trace         bool
	KnownOpen     map[string]bool
	SolverTimeout int
}

type Machine struct {
	prog    *ssa.Program
	fset    *token.FileSet
	solver  *Solver
	opts    Options
	initOK  map[string]bool // package paths whose init is interpreted
	modPath string
}

type inputRec struct {
	Label string
	Kind  string // u8,u16,u32,u64,i64,bool,str,choose,bytes-len,byte
	Term  *Term
	Conc  int64 // for choose/concretised
	IsC   bool
}

type knownRec struct {
	ID   string
	Cond *Term
}

type Violation struct {
	Kind     string // assert, panic, deadlock, fatal
	ID       string // assertion id or panic text
	Pos      string
	Model    map[string]interface{} // label -> value
	Trail    []int64
	KnownIDs []string // non-empty: falls entirely inside known classes
	SelectForks int   // >0: the path depends on Go's choice among ready select arms
	Goroutines  int   // symbolic goroutines alive on the path (native timing may differ: replay is retried)
	Harness  string
	Trace    []string
}

type Run struct {
	m       *Machine
	prefix  []int64
	pos     int
	trail   []int64
	newAlts [][]int64
	pc      []*Term

	globals map[*ssa.Global]*Value
	inited  map[*ssa.Package]bool
	inInit  int

	inputs []inputRec
	known  []knownRec

	violations   []Violation
	obligations  int
	discharged   int
	inconclusive []string
	reached      map[string]bool
	assertIDs    map[string]int // id -> times checked (non-trivially or trivially)
	assumeFailed bool
	ended        string // reason the path ended early ("" = normal)

	sched   *Sched
	nowT    *Term
	timers  []*timer
	locks   map[*Value]*lockState
	conds   map[*Value]*condState
	wgs     map[*Value]*wgState
	onces   map[*Value]*onceState
	strIDs  map[string]uint64
	strByID map[uint64]string
	nsym    int
	steps   int
	depth   int
	opaqueG map[string]*Value
	events  []string
	errID   int
	funcsHit map[string]bool
	autoAdv int
	selectForks int
	canon bool
	pools map[*Value][]Value
	kr    map[*Term]krInfo
	krBound map[*Term]int64 // upper bounds of the non-negative components behind vf.Dur
	stubs   map[string]Value // vf.Stub: function name -> replacement (a model of code outside the engine's reach)
	durOf   map[*Term]durInfo // vf.Dur terms -> components
	fpSecs  map[*Term]durInfo // float64 terms built by Duration.Seconds() from a vf.Dur term
	allSchedules bool
	schedBudget  int // vf.Deviations: remaining deviations from the canonical schedule
	schedForks int
	mapOrderAll bool
}

type krInfo struct {
	div map[int64]*Term // quotient by the constant
	rem map[int64]*Term // remainder by the constant
}

var krMu sync.Mutex
var krDone = map[string]bool{}

// krLemma discharges, in integer arithmetic, the side lemma behind vf.Dur: for 0 <= s <= maxS,
// 0 <= ms < 1000, 0 <= ns < 10^6 and d = s*10^9 + ms*10^6 + ns: d div 10^9 = s, d mod 10^9 = ms*10^6+ns,
// d div 10^6 = s*1000+ms, d mod 10^6 = ns, (d mod 10^9) div 10^6 = ms, and d < 2^63.
func (m *Machine) krLemma(maxS int64) bool {
	key := fmt.Sprintf("%d", maxS)
	krMu.Lock()
	defer krMu.Unlock()
	if v, ok := krDone[key]; ok {
		return v
	}
	script := fmt.Sprintf("(declare-const ks Int)(declare-const km Int)(declare-const kn Int)"+
		"(assert (and (<= 0 ks) (<= ks %d) (<= 0 km) (< km 1000) (<= 0 kn) (< kn 1000000)))"+
		"(define-fun kd () Int (+ (* ks 1000000000) (* km 1000000) kn))"+
		"(assert (not (and (= (div kd 1000000000) ks) (= (mod kd 1000000000) (+ (* km 1000000) kn)) (= (div kd 1000000) (+ (* ks 1000) km)) (= (mod kd 1000000) kn)"+
		" (= (div (mod kd 1000000000) 1000000) km) (= (mod (mod kd 1000000000) 1000000) kn) (< kd 9223372036854775808))))", maxS)
	res := m.solver.RawCheck(script)
	krDone[key] = res == "unsat"
	return krDone[key]
}

type durInfo struct {
	sec, sub *Term // whole seconds, nanoseconds below one second
	maxS     int64
}

var fpSecDone = map[int64]bool{}

// fpSecondsLemma discharges once per bound, with FloatingPoint terms on the one-shot solvers, the side
// lemma behind the rewrites of uint(d.Seconds()) and d.Seconds() == 0 for d = s*10^9 + sub,
// 0 <= s <= maxS, 0 <= sub < 10^9: with f = float64(s) + float64(sub)/1e9 (round to nearest even, as
// the Go code computes it), trunc(f) = s, and f == 0 iff s = 0 and sub = 0.
func (m *Machine) fpSecondsLemma(maxS int64) bool {
	krMu.Lock()
	defer krMu.Unlock()
	if v, ok := fpSecDone[maxS]; ok {
		return v
	}
	script := fmt.Sprintf(`(declare-const s (_ BitVec 64))
(declare-const sub (_ BitVec 64))
(assert (and (bvsge s #x0000000000000000) (bvsle s #x%016x)))
(assert (and (bvsge sub #x0000000000000000) (bvslt sub #x000000003b9aca00)))
(define-fun f () (_ FloatingPoint 11 53) (fp.add RNE ((_ to_fp 11 53) RNE s) (fp.div RNE ((_ to_fp 11 53) RNE sub) ((_ to_fp 11 53) RNE 1000000000.0))))
(assert (not (and (= ((_ fp.to_sbv 64) RTZ f) s) (= (fp.eq f ((_ to_fp 11 53) RNE 0.0)) (and (= s #x0000000000000000) (= sub #x0000000000000000))))))
(check-sat)
`, maxS)
	res, _ := runScript("cvc5", []string{"--tlimit=60000"}, "(set-logic ALL)\n"+script, nil)
	if res != "unsat" {
		res, _ = runScript("z3", []string{"-T:60"}, script, nil)
	}
	fpSecDone[maxS] = res == "unsat"
	return fpSecDone[maxS]
}

type pathEnd struct{ why string }

type abortRun struct{}

func (m *Machine) newRun(prefix []int64) *Run {
	r := &Run{m: m, prefix: prefix,
		globals: map[*ssa.Global]*Value{}, inited: map[*ssa.Package]bool{},
		reached: map[string]bool{}, assertIDs: map[string]int{},
		locks: map[*Value]*lockState{}, conds: map[*Value]*condState{}, wgs: map[*Value]*wgState{}, onces: map[*Value]*onceState{},
		strIDs: map[string]uint64{}, strByID: map[uint64]string{}, opaqueG: map[string]*Value{},
		funcsHit: map[string]bool{}, pools: map[*Value][]Value{}, kr: map[*Term]krInfo{}, krBound: map[*Term]int64{}, stubs: map[string]Value{}, durOf: map[*Term]durInfo{}, fpSecs: map[*Term]durInfo{},
	}
	r.nowT = mkBV(64, 1_000_000_000_000) // virtual clock, ns
	r.mapOrderAll = m.opts.AllMapOrders
	return r
}

func (r *Run) fresh(s Sort, hint string) *Term {
	r.nsym++
	return mkVar(s, fmt.Sprintf("s%d_%s", r.nsym, sanitize(hint)))
}

func sanitize(s string) string {
	var sb strings.Builder
	for _, c := range s {
		if (c >= 'a' && c <= 'z') || (c >= 'A' && c <= 'Z') || (c >= '0' && c <= '9') || c == '_' {
			sb.WriteRune(c)
		} else {
			sb.WriteRune('_')
		}
	}
	return sb.String()
}

func (r *Run) assume(c *Term) {
	if c.Const {
		if !c.Bool() {
			panic(pathEnd{"assume-false"})
		}
		return
	}
	r.pc = append(r.pc, c)
	r.m.solver.Assert(c)
}

// internStr gives a constant string its atom id and asserts its length.
func (r *Run) internStr(s string) *Term {
	id, ok := r.strIDs[s]
	if !ok {
		id = uint64(len(r.strIDs) + 1)
		r.strIDs[s] = id
		r.strByID[id] = s
		// constants live at negative ids so fresh atoms (unconstrained Ints) may still equal them
		t := mkStrConst(uint64(-int64(id)))
		r.m.solver.Assert(tEq(mkApp(bvSort(64), "strlen", t), mkBV(64, uint64(len(s)))))
		return t
	}
	return mkStrConst(uint64(-int64(id)))
}

// strTerm converts any Str to an atom term (only const and atom strings).
func (r *Run) strTerm(s Str) *Term {
	if s.IsConst {
		return r.internStr(s.C)
	}
	if s.IsBytes {
		// all-constant bytes become a constant
		if c, ok := bytesConst(s.Bytes); ok {
			return r.internStr(c)
		}
		panic(unsupported("byte-backed symbolic string used as atom"))
	}
	return s.Atom
}

func bytesConst(bs []Value) (string, bool) {
	b := make([]byte, len(bs))
	for i, v := range bs {
		t := v.(*Term)
		if !t.Const {
			return "", false
		}
		b[i] = byte(t.V)
	}
	return string(b), true
}

// branch decides a boolean condition, forking when both sides are feasible.
func (r *Run) branch(c *Term) bool {
	if c.Const {
		return c.Bool()
	}
	if r.pos < len(r.prefix) {
		d := r.prefix[r.pos]
		r.pos++
		r.trail = append(r.trail, d)
		if d == 1 {
			r.pc = append(r.pc, c)
			r.m.solver.Assert(c)
			return true
		}
		if d == 0 {
			nc := tNot(c)
			r.pc = append(r.pc, nc)
			r.m.solver.Assert(nc)
			return false
		}
		if d == 3 { // forced true
			return true
		}
		return false // 2: forced false
	}
	r.pos++
	rt := r.m.solver.Check(c)
	if rt == "unsat" {
		r.trail = append(r.trail, 2)
		return false
	}
	rf := r.m.solver.Check(tNot(c))
	if rf == "unsat" {
		if rt == "unknown" {
			r.inconclusive = append(r.inconclusive, "solver unknown at branch")
		}
		r.trail = append(r.trail, 3)
		return true
	}
	if rt == "unknown" || rf == "unknown" {
		r.inconclusive = append(r.inconclusive, "solver unknown at branch (kept both)")
	}
	alt := append(append([]int64{}, r.trail...), 0)
	r.newAlts = append(r.newAlts, alt)
	r.trail = append(r.trail, 1)
	r.pc = append(r.pc, c)
	r.m.solver.Assert(c)
	return true
}

// chooseN forks over n alternatives (all assumed feasible); returns index.
func (r *Run) chooseN(n int) int {
	if n <= 1 {
		return 0
	}
	if r.pos < len(r.prefix) {
		d := r.prefix[r.pos]
		r.pos++
		r.trail = append(r.trail, d)
		return int(d)
	}
	r.pos++
	for i := 1; i < n; i++ {
		alt := append(append([]int64{}, r.trail...), int64(i))
		r.newAlts = append(r.newAlts, alt)
	}
	r.trail = append(r.trail, 0)
	return 0
}

// concretize forks over the feasible values of t (up to the cap) and returns the chosen constant.
func (r *Run) concretize(t *Term, what string) *Term {
	if t.Const {
		return t
	}
	if r.pos < len(r.prefix) {
		d := r.prefix[r.pos]
		r.pos++
		r.trail = append(r.trail, d)
		c := mkBV(t.S.W, uint64(d))
		r.assume(tEq(t, c))
		return c
	}
	r.pos++
	capN := r.m.opts.ConcCap
	var vals []uint64
	var excl []*Term
	for len(vals) <= capN {
		res, model := r.m.solver.CheckModel(excl, []*Term{t})
		if res == "unsat" {
			break
		}
		if res != "sat" {
			r.inconclusive = append(r.inconclusive, "solver unknown while concretising "+what)
			break
		}
		v := model[r.m.solver.ref(t)]
		vals = append(vals, v)
		excl = append(excl, tNot(tEq(t, mkBV(t.S.W, v))))
	}
	if len(vals) == 0 {
		panic(pathEnd{"infeasible"})
	}
	if len(vals) > capN {
		r.inconclusive = append(r.inconclusive, fmt.Sprintf("concretisation cap %d exceeded for %s", capN, what))
		vals = vals[:capN]
	}
	sort.Slice(vals, func(i, j int) bool { return vals[i] < vals[j] })
	for _, v := range vals[1:] {
		alt := append(append([]int64{}, r.trail...), int64(v))
		r.newAlts = append(r.newAlts, alt)
	}
	r.trail = append(r.trail, int64(vals[0]))
	c := mkBV(t.S.W, vals[0])
	r.assume(tEq(t, c))
	return c
}

func (r *Run) posStr(p token.Pos) string {
	if p == token.NoPos {
		return ""
	}
	ps := r.m.fset.Position(p)
	return fmt.Sprintf("%s:%d", ps.Filename, ps.Line)
}

// ---------------- violations / obligations

func (r *Run) inputTerms() []*Term {
	var ts []*Term
	for _, in := range r.inputs {
		if !in.IsC {
			ts = append(ts, in.Term)
		}
	}
	return ts
}

func (r *Run) modelFrom(m map[string]uint64) map[string]interface{} {
	out := map[string]interface{}{}
	for _, in := range r.inputs {
		if in.IsC {
			out[in.Label] = in.Conc
			continue
		}
		v, ok := m[in.Term.Name]
		if !ok {
			v = 0
		}
		switch in.Kind {
		case "str":
			id := int64(v)
			if id < 0 {
				if s, ok := r.strByID[uint64(-id)]; ok {
					out[in.Label] = map[string]interface{}{"const": s}
					continue
				}
			}
			out[in.Label] = map[string]interface{}{"atom": id}
		case "bool":
			out[in.Label] = v != 0
		case "i64", "i32", "i16", "i8":
			w := in.Term.S.W
			t := mkBV(w, v)
			out[in.Label] = t.Signed()
		default:
			out[in.Label] = v
		}
	}
	return out
}

// report a violation whose condition (under the current pc) is viol (nil = the current path itself).
// Returns true if a (non-known) violation was recorded.
func (r *Run) reportViolation(kind, id string, pos token.Pos, viol *Term) {
	var extra []*Term
	if viol != nil {
		extra = append(extra, viol)
	}
	// outside every open known class?
	var open []knownRec
	for _, k := range r.known {
		if r.m.opts.KnownOpen[k.ID] {
			open = append(open, k)
		}
	}
	ex2 := append([]*Term{}, extra...)
	for _, k := range open {
		ex2 = append(ex2, tNot(k.Cond))
	}
	var res string
	var model map[string]uint64
	fp := false
	for _, e := range ex2 {
		if hasFP(e, map[*Term]bool{}) {
			fp = true
		}
	}
	if fp {
		res, model = OneShot(r.pc, ex2, r.inputTerms(), 120000, r.m.solver)
	} else {
		res, model = r.m.solver.CheckModel(ex2, r.inputTerms())
	}
	if res == "sat" {
		v := Violation{Kind: kind, ID: id, Pos: r.posStr(pos), Model: r.modelFrom(model), Trail: append([]int64{}, r.trail...), SelectForks: r.selectForks, Goroutines: len(r.sched.gs)}
		r.violations = append(r.violations, v)
		return
	}
	if res != "unsat" {
		r.inconclusive = append(r.inconclusive, "solver unknown for obligation "+id)
		return
	}
	if len(open) == 0 {
		// no violation at all
		return
	}
	// violation only inside known classes (or none): find which classes are hit
	var hit []string
	var firstModel map[string]uint64
	for _, k := range open {
		res, model := r.m.solver.CheckModel(append(append([]*Term{}, extra...), k.Cond), r.inputTerms())
		if res == "sat" {
			hit = append(hit, k.ID)
			if firstModel == nil {
				firstModel = model
			}
		} else if res != "unsat" {
			r.inconclusive = append(r.inconclusive, "solver unknown for known-class "+k.ID)
		}
	}
	if len(hit) > 0 {
		v := Violation{Kind: kind, ID: id, Pos: r.posStr(pos), Model: r.modelFrom(firstModel), Trail: append([]int64{}, r.trail...), KnownIDs: hit}
		r.violations = append(r.violations, v)
	}
}

// obligation: cond must hold on every model of the path condition.
func (r *Run) obligation(id string, cond *Term, pos token.Pos) {
	r.obligations++
	r.assertIDs[id]++
	if cond.Const && cond.Bool() {
		r.discharged++
		return
	}
	nv := len(r.violations)
	ni := len(r.inconclusive)
	r.reportViolation("assert", id, pos, tNot(cond))
	if len(r.violations) == nv && len(r.inconclusive) == ni {
		r.discharged++
		return
	}
	// continue under the assumption that the assertion holds (if possible)
	if cond.Const {
		panic(pathEnd{"assert-failed"})
	}
	if r.m.solver.Check(cond) != "sat" {
		panic(pathEnd{"assert-failed"})
	}
	r.assume(cond)
}

func typeString(t types.Type) string {
	return types.TypeString(t, nil)
}
