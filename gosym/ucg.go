package main

// Under-constrained, inter-procedural (inlining) symbolic execution for the lock-discipline lemma
// C09.a: every access to a field listed in spec/guards.json happens with its guarding lock held
// (read or write lock for reads, write lock for writes), on every feasible path from every root.
//
// Roots: exported functions/methods of the library, targets of `go` statements, and closures that
// escape (are passed or stored instead of being called directly). In-module static callees and
// directly called closures are inlined (depth-bounded) with their parameters renamed to the caller's
// access paths, so helpers such as stateWithoutLock are analysed in the lock context of each caller.

import (
	"encoding/json"
	"fmt"
	"go/token"
	"go/types"
	"os"
	"sort"
	"strings"

	"golang.org/x/tools/go/ssa"
)

type guardSpec struct {
	Struct string   `json:"struct"` // "<pkgname>.<Type>"
	Fields []string `json:"fields"`
	Lock   string   `json:"lock"` // field name of the guarding lock in the same struct
	Note   string   `json:"note,omitempty"`
}

type gFrame struct {
	fn      *ssa.Function
	b       *ssa.BasicBlock
	prev    *ssa.BasicBlock
	idx     int
	keys    map[ssa.Value]string // access-path keys of parameters / free variables (caller namespace)
	defers  []ssa.CallCommon
	visits  map[*ssa.BasicBlock]int
	callInstr ssa.Instruction
	inDefers bool
}

type gPath struct {
	stack   []*gFrame
	env     map[ssa.Value]*Term
	tuples  map[ssa.Value][]*Term
	held    map[string]int
	guarded map[ssa.Value]string // values loaded from guarded fields (maps/slices): guard key
	cells   map[ssa.Value]string // local variables that live in a heap cell (captured by a closure): access path of the pointer stored in them
	pc      []*Term
	pcVars  map[string]bool
	nils    map[string]*Term
	nsym    *int
	steps   int
}

func (p *gPath) nilSym(key string) *Term {
	if t, ok := p.nils[key]; ok {
		return t
	}
	t := p.fresh(boolSort, "nil_"+key)
	p.nils[key] = t
	return t
}

func (p *gPath) addPC(c *Term) {
	p.pc = append(p.pc, c)
	termVars(c, p.pcVars, map[*Term]bool{})
}

func (p *gPath) clone() *gPath {
	q := &gPath{env: map[ssa.Value]*Term{}, tuples: map[ssa.Value][]*Term{}, held: map[string]int{}, guarded: map[ssa.Value]string{}, cells: map[ssa.Value]string{}, nsym: p.nsym, steps: p.steps, pcVars: map[string]bool{}, nils: map[string]*Term{}}
	for k := range p.pcVars {
		q.pcVars[k] = true
	}
	for k, v := range p.nils {
		q.nils[k] = v
	}
	for k, v := range p.env {
		q.env[k] = v
	}
	for k, v := range p.tuples {
		q.tuples[k] = v
	}
	for k, v := range p.held {
		q.held[k] = v
	}
	for k, v := range p.guarded {
		q.guarded[k] = v
	}
	for k, v := range p.cells {
		q.cells[k] = v
	}
	q.pc = append([]*Term{}, p.pc...)
	for _, f := range p.stack {
		nf := &gFrame{fn: f.fn, b: f.b, prev: f.prev, idx: f.idx, keys: f.keys, callInstr: f.callInstr, inDefers: f.inDefers, visits: map[*ssa.BasicBlock]int{}}
		for k, v := range f.visits {
			nf.visits[k] = v
		}
		nf.defers = append([]ssa.CallCommon{}, f.defers...)
		q.stack = append(q.stack, nf)
	}
	return q
}

type gFinding struct {
	Root   string
	Fn     string
	Field  string
	Kind   string // read | write
	Guard  string
	Pos    string
	Chain  []string
}

type gRunner struct {
	prog     *ssa.Program
	fset     *token.FileSet
	solver   *Solver
	guards   map[string]string // "<pkg>.<Type>.<field>" -> lock field
	maxDepth int
	unwind   int
	maxPaths int
	queries  int
	paths    int
	accesses int
	findings map[string]gFinding
	cur      *gPath // the path being run (for key resolution through captured-variable cells)
	incon    []string
	skip     func(*ssa.Function) bool
	interesting map[*ssa.Function]bool
	visited  map[string]bool
}

func (g *gRunner) feasible(pc []*Term) string {
	if len(pc) > 0 {
		pc = append(coneOfInfluence(pc[:len(pc)-1], pc[len(pc)-1:]), pc[len(pc)-1])
	}
	g.solver.Reset()
	for _, c := range pc {
		g.solver.Assert(c)
	}
	g.queries++
	return g.solver.Check()
}

func (g *gRunner) key(f *gFrame, v ssa.Value) string {
	k := g.key0(f, v)
	return k
}

func (g *gRunner) key0(f *gFrame, v ssa.Value) string {
	switch v := v.(type) {
	case *ssa.FieldAddr:
		st := v.X.Type().Underlying().(*types.Pointer).Elem().Underlying().(*types.Struct)
		return g.key(f, v.X) + "." + st.Field(v.Field).Name()
	case *ssa.Field:
		st := v.X.Type().Underlying().(*types.Struct)
		return g.key(f, v.X) + "." + st.Field(v.Field).Name()
	case *ssa.UnOp:
		if v.Op == token.MUL {
			k := g.key(f, v.X)
			// loading the pointer kept in a captured variable's cell yields the pointer's own path
			if strings.HasPrefix(k, "cell:") {
				return k[len("cell:"):]
			}
			return k
		}
	case *ssa.Parameter, *ssa.FreeVar:
		if k, ok := f.keys[v]; ok {
			return k
		}
		return v.Name()
	case *ssa.Global:
		return v.Pkg.Pkg.Name() + "." + v.Name()
	case *ssa.Alloc:
		if g.cur != nil {
			if ck, ok := g.cur.cells[v]; ok {
				return "cell:" + ck
			}
		}
		return "local:" + f.fn.Name() + ":" + v.Name()
	case *ssa.MakeInterface:
		return g.key(f, v.X)
	case *ssa.ChangeInterface:
		return g.key(f, v.X)
	case *ssa.ChangeType:
		return g.key(f, v.X)
	case *ssa.IndexAddr:
		return g.key(f, v.X) + "[]"
	case *ssa.Call:
		return "call:" + f.fn.Name() + ":" + v.Name()
	case *ssa.Phi:
		return "phi:" + f.fn.Name() + ":" + v.Name()
	}
	return "val:" + f.fn.Name() + ":" + v.Name()
}

func isLocalKey(k string) bool {
	return strings.HasPrefix(k, "local:") || strings.HasPrefix(k, "call:")
}

// guardOf returns the guard lock key for an access to X.field, or "" if not guarded.
func (g *gRunner) guardOf(f *gFrame, fa *ssa.FieldAddr) (string, string) {
	pt, ok := fa.X.Type().Underlying().(*types.Pointer)
	if !ok {
		return "", ""
	}
	named, ok := pt.Elem().(*types.Named)
	if !ok {
		return "", ""
	}
	st := named.Underlying().(*types.Struct)
	fname := st.Field(fa.Field).Name()
	id := named.Obj().Pkg().Name() + "." + named.Obj().Name() + "." + fname
	lock, ok := g.guards[id]
	if !ok {
		return "", ""
	}
	base := g.key(f, fa.X)
	return normKey(base + "." + lock), id
}

func (g *gRunner) check(p *gPath, f *gFrame, guard, field, kind string, pos token.Pos, root *ssa.Function) {
	if guard == "" {
		return
	}
	if dbg := os.Getenv("VERIF_UCG_DEBUG"); dbg != "" && strings.Contains(f.fn.String(), dbg) {
		fmt.Fprintf(os.Stderr, "ucg: precheck %s %s guard=%s in %s root=%s\n", kind, field, guard, f.fn.String(), root.String())
	}
	base := strings.TrimSuffix(guard, guard[strings.LastIndex(guard, "."):])
	if isLocalKey(base) {
		return // object still under construction in this function
	}
	g.accesses++
	if dbg := os.Getenv("VERIF_UCG_DEBUG"); dbg != "" && strings.Contains(f.fn.String(), dbg) {
		fmt.Fprintf(os.Stderr, "ucg: %s %s in %s root=%s held=%v\n", kind, field, f.fn.String(), root.String(), p.held)
	}
	ok := p.held["W:"+guard] > 0
	if kind == "read" {
		ok = ok || p.held["R:"+guard] > 0
	}
	if ok {
		return
	}
	var chain []string
	for _, fr := range p.stack {
		chain = append(chain, fr.fn.String())
	}
	fd := gFinding{Root: root.String(), Fn: f.fn.String(), Field: field, Kind: kind, Guard: guard, Pos: g.fset.Position(pos).String(), Chain: chain}
	id := fd.Fn + "|" + fd.Field + "|" + fd.Kind + "|" + strings.Join(chain, ">")
	if _, seen := g.findings[id]; !seen {
		if g.feasible(p.pc) != "unsat" {
			g.findings[id] = fd
		}
	}
}

func (g *gRunner) inlinable(fn *ssa.Function) bool {
	if fn == nil || fn.Blocks == nil || fn.Pkg == nil {
		return false
	}
	if !strings.HasPrefix(fn.Pkg.Pkg.Path(), modPath) {
		return false
	}
	if g.interesting != nil && !g.interesting[fn] {
		return false
	}
	return !g.skip(fn)
}

func (g *gRunner) inlinableIgnoringInterest(fn *ssa.Function) bool {
	if fn == nil || fn.Blocks == nil || fn.Pkg == nil {
		return false
	}
	if !strings.HasPrefix(fn.Pkg.Pkg.Path(), modPath) {
		return false
	}
	return !g.skip(fn)
}

// explore runs all paths from root.
func (g *gRunner) explore(root *ssa.Function) {
	g.visited = map[string]bool{}
	nsym := 0
	start := &gPath{env: map[ssa.Value]*Term{}, tuples: map[ssa.Value][]*Term{}, held: map[string]int{}, guarded: map[ssa.Value]string{}, cells: map[ssa.Value]string{}, nsym: &nsym, pcVars: map[string]bool{}, nils: map[string]*Term{}}
	start.stack = []*gFrame{{fn: root, b: root.Blocks[0], keys: map[ssa.Value]string{}, visits: map[*ssa.BasicBlock]int{}}}
	work := []*gPath{start}
	paths := 0
	for len(work) > 0 {
		p := work[len(work)-1]
		work = work[:len(work)-1]
		forks := g.run(p, root)
		paths++
		work = append(work, forks...)
		if paths > g.maxPaths {
			g.incon = append(g.incon, "path limit in "+root.String())
			break
		}
	}
	g.paths += paths
}

func (p *gPath) fresh(s Sort, hint string) *Term {
	*p.nsym++
	return mkVar(s, fmt.Sprintf("g%d_%s", *p.nsym, sanitize(hint)))
}

func (p *gPath) val(v ssa.Value) *Term {
	if c, ok := v.(*ssa.Const); ok {
		if c.Value == nil {
			return nil
		}
		if s, ok := sortOfType(c.Type()); ok {
			if s.K == SBool {
				return mkBool(c.Value.String() == "true")
			}
			return mkBV(s.W, uint64(c.Int64()))
		}
		return nil
	}
	if t, ok := p.env[v]; ok {
		return t
	}
	if s, ok := sortOfType(v.Type()); ok {
		t := p.fresh(s, v.Name())
		p.env[v] = t
		return t
	}
	return nil
}

func (g *gRunner) lockCall(p *gPath, f *gFrame, c *ssa.CallCommon) bool {
	kind, ok := lockOpOf(c)
	if !ok {
		return false
	}
	var recv ssa.Value
	if c.IsInvoke() {
		recv = c.Value
	} else {
		recv = c.Args[0]
	}
	k := normKey(g.key(f, recv))
	switch kind {
	case "Lock":
		p.held["W:"+k]++
	case "RLock":
		p.held["R:"+k]++
	case "Unlock":
		if p.held["W:"+k] > 0 {
			p.held["W:"+k]--
		}
	case "RUnlock":
		if p.held["R:"+k] > 0 {
			p.held["R:"+k]--
		}
	}
	return true
}

func (g *gRunner) runDefers(p *gPath, f *gFrame) {
	for i := len(f.defers) - 1; i >= 0; i-- {
		d := f.defers[i]
		g.lockCall(p, f, &d)
	}
	f.defers = nil
}

// run advances one path until it ends; returns forked paths.
func (g *gRunner) run(p *gPath, root *ssa.Function) []*gPath {
	g.cur = p
	var forks []*gPath
	for len(p.stack) > 0 {
		f := p.stack[len(p.stack)-1]
		if f.inDefers {
			if len(f.defers) == 0 {
				f.inDefers = false
			} else {
				d := f.defers[len(f.defers)-1]
				f.defers = f.defers[:len(f.defers)-1]
				if g.lockCall(p, f, &d) {
					continue
				}
				var callee *ssa.Function
				var bind []ssa.Value
				if mc, ok := d.Value.(*ssa.MakeClosure); ok {
					callee = mc.Fn.(*ssa.Function)
					bind = mc.Bindings
				} else if !d.IsInvoke() {
					callee = d.StaticCallee()
				}
				if callee != nil && g.inlinable(callee) && len(p.stack) < g.maxDepth && !onStack(p, callee) {
					nf := &gFrame{fn: callee, b: callee.Blocks[0], keys: map[ssa.Value]string{}, visits: map[*ssa.BasicBlock]int{}}
					for i, prm := range callee.Params {
						if i < len(d.Args) {
							nf.keys[prm] = g.key(f, d.Args[i])
						}
					}
					for i, fv := range callee.FreeVars {
						if i < len(bind) {
							nf.keys[fv] = g.key(f, bind[i])
						}
					}
					p.stack = append(p.stack, nf)
				}
				continue
			}
		}
		if f.idx == 0 {
			if f.visits[f.b] >= g.unwind {
				return forks
			}
			f.visits[f.b]++
			// state merging: a configuration (call stack, block, held locks) already explored from this
			// root is not explored again
			var sb strings.Builder
			for _, fr := range p.stack {
				fmt.Fprintf(&sb, "%p:%d:%d/", fr.fn, fr.b.Index, len(fr.defers))
			}
			var hk []string
			for k, v := range p.held {
				if v != 0 {
					hk = append(hk, fmt.Sprintf("%s=%d", k, v))
				}
			}
			sort.Strings(hk)
			sb.WriteString(strings.Join(hk, ","))
			sig := sb.String()
			if g.visited[sig] {
				return forks
			}
			g.visited[sig] = true
		}
		if f.idx >= len(f.b.Instrs) {
			return forks
		}
		in := f.b.Instrs[f.idx]
		f.idx++
		p.steps++
		if p.steps > 20000 {
			g.incon = append(g.incon, "step limit in "+root.String())
			return forks
		}
		switch in := in.(type) {
		case *ssa.Phi:
			if f.prev != nil {
				for i, pr := range f.b.Preds {
					if pr == f.prev {
						if t := p.val(in.Edges[i]); t != nil {
							p.env[in] = t
						} else {
							delete(p.env, in)
						}
						if gk, ok := p.guarded[in.Edges[i]]; ok {
							p.guarded[in] = gk
						}
					}
				}
			}
		case *ssa.BinOp:
			x, y := p.val(in.X), p.val(in.Y)
			if x != nil && y != nil && x.S == y.S {
				if t := ucBinop(in, x, y); t != nil {
					p.env[in] = t
				}
			} else if in.Op == token.EQL || in.Op == token.NEQ {
				// pointer compared with nil: one boolean per access path
				var ptr ssa.Value
				if c, ok := in.Y.(*ssa.Const); ok && c.Value == nil {
					ptr = in.X
				} else if c, ok := in.X.(*ssa.Const); ok && c.Value == nil {
					ptr = in.Y
				}
				if ptr != nil {
					if _, isPtr := ptr.Type().Underlying().(*types.Pointer); isPtr {
						t := p.nilSym(g.key(f, ptr))
						if in.Op == token.NEQ {
							t = tNot(t)
						}
						p.env[in] = t
					}
				}
			}
		case *ssa.FieldAddr:
			// dereferencing a pointer the path knows to be nil panics: such a path ends here
			if _, isPtr := in.X.Type().Underlying().(*types.Pointer); isPtr {
				k := g.key(f, in.X)
				if t, ok := p.nils[k]; ok {
					c := tNot(t)
					if g.feasible(append(append([]*Term{}, p.pc...), c)) == "unsat" {
						return forks
					}
					p.addPC(c)
				}
			}
		case *ssa.UnOp:
			switch in.Op {
			case token.NOT:
				if x := p.val(in.X); x != nil {
					p.env[in] = tNot(x)
				}
			case token.MUL:
				if fa, ok := in.X.(*ssa.FieldAddr); ok {
					guard, field := g.guardOf(f, fa)
					if guard != "" {
						g.check(p, f, guard, field, "read", in.Pos(), root)
						switch in.Type().Underlying().(type) {
						case *types.Map, *types.Slice:
							p.guarded[in] = guard + "|" + field
						}
					}
				}
			}
		case *ssa.Store:
			if al, ok := in.Addr.(*ssa.Alloc); ok {
				if _, isPtr := in.Val.Type().Underlying().(*types.Pointer); isPtr {
					k := g.key(f, in.Val)
					if !isLocalKey(k) && !strings.HasPrefix(k, "val:") && !strings.HasPrefix(k, "phi:") {
						p.cells[al] = k
					} else {
						delete(p.cells, al)
					}
				}
			}
			if fa, ok := in.Addr.(*ssa.FieldAddr); ok {
				guard, field := g.guardOf(f, fa)
				g.check(p, f, guard, field, "write", in.Pos(), root)
			}
		case *ssa.MapUpdate:
			if gk, ok := p.guarded[in.Map]; ok {
				parts := strings.SplitN(gk, "|", 2)
				g.check(p, f, parts[0], parts[1], "write", in.Pos(), root)
			}
		case *ssa.Lookup:
			if gk, ok := p.guarded[in.X]; ok {
				parts := strings.SplitN(gk, "|", 2)
				g.check(p, f, parts[0], parts[1], "read", in.Pos(), root)
				// maps / slices stored inside a guarded map are guarded by the same lock
				if mt, ok := in.X.Type().Underlying().(*types.Map); ok {
					switch mt.Elem().Underlying().(type) {
					case *types.Map, *types.Slice:
						p.guarded[in] = gk
					}
				}
			}
			g.tupleSyms(p, in)
		case *ssa.Range:
			if gk, ok := p.guarded[in.X]; ok {
				parts := strings.SplitN(gk, "|", 2)
				g.check(p, f, parts[0], parts[1], "read", in.Pos(), root)
				p.guarded[in] = gk
			}
		case *ssa.Next:
			if gk, ok := p.guarded[in.Iter]; ok {
				parts := strings.SplitN(gk, "|", 2)
				g.check(p, f, parts[0], parts[1], "read", in.Pos(), root)
				p.guarded[in] = gk
			}
			g.tupleSyms(p, in)
		case *ssa.TypeAssert, *ssa.Select:
			g.tupleSyms(p, in.(ssa.Value))
		case *ssa.Convert:
			if x := p.val(in.X); x != nil {
				if wd, _, ok := isInt(in.Type()); ok && x.S.K == SBV {
					_, signed, _ := isInt(in.X.Type())
					p.env[in] = tBVResize(x, wd, signed)
				}
			}
		case *ssa.ChangeType:
			if x := p.val(in.X); x != nil {
				p.env[in] = x
			}
		case *ssa.Extract:
			if ts, ok := p.tuples[in.Tuple]; ok && in.Index < len(ts) && ts[in.Index] != nil {
				p.env[in] = ts[in.Index]
			}
			if gk, ok := p.guarded[in.Tuple]; ok {
				switch in.Type().Underlying().(type) {
				case *types.Map, *types.Slice:
					p.guarded[in] = gk
				}
			}
		case *ssa.Defer:
			f.defers = append(f.defers, in.Call)
		case *ssa.Go:
			// the target runs on its own goroutine: analysed as a root of its own
		case *ssa.Call:
			if g.lockCall(p, f, &in.Call) {
				break
			}
			if b, ok := in.Call.Value.(*ssa.Builtin); ok {
				if (b.Name() == "delete" || b.Name() == "len" || b.Name() == "clear") && len(in.Call.Args) > 0 {
					if gk, ok := p.guarded[in.Call.Args[0]]; ok {
						parts := strings.SplitN(gk, "|", 2)
						kind := "read"
						if b.Name() != "len" {
							kind = "write"
						}
						g.check(p, f, parts[0], parts[1], kind, in.Pos(), root)
					}
				}
				break
			}
			g.tupleSyms(p, in)
			var callee *ssa.Function
			var bind []ssa.Value
			if mc, ok := in.Call.Value.(*ssa.MakeClosure); ok {
				callee = mc.Fn.(*ssa.Function)
				bind = mc.Bindings
			} else if !in.Call.IsInvoke() {
				callee = in.Call.StaticCallee()
			}
			// a callee that receives a map / slice loaded from a guarded field is inlined even if it
			// touches no guarded field or lock itself: its lookups are accesses to the guarded object
			tainted := false
			for _, a := range in.Call.Args {
				if _, ok := p.guarded[a]; ok {
					tainted = true
				}
			}
			if dbg := os.Getenv("VERIF_UCG_DEBUG"); dbg != "" && callee != nil && strings.Contains(callee.String(), dbg) {
				fmt.Fprintf(os.Stderr, "ucg: call %s from %s root=%s inlinable=%v depth=%d onstack=%v\n", callee.String(), f.fn.String(), root.String(), g.inlinable(callee), len(p.stack), onStack(p, callee))
			}
			if callee != nil && (g.inlinable(callee) || (tainted && g.inlinableIgnoringInterest(callee))) && len(p.stack) < g.maxDepth && !onStack(p, callee) {
				nf := &gFrame{fn: callee, b: callee.Blocks[0], keys: map[ssa.Value]string{}, visits: map[*ssa.BasicBlock]int{}, callInstr: in}
				for i, prm := range callee.Params {
					if i < len(in.Call.Args) {
						nf.keys[prm] = g.key(f, in.Call.Args[i])
						if t := p.val(in.Call.Args[i]); t != nil {
							p.env[prm] = t
						}
						if gk, ok := p.guarded[in.Call.Args[i]]; ok {
							p.guarded[prm] = gk
						}
					}
				}
				for i, fv := range callee.FreeVars {
					if i < len(bind) {
						nf.keys[fv] = g.key(f, bind[i])
					}
				}
				p.stack = append(p.stack, nf)
			}
		case *ssa.If:
			c := p.val(in.Cond)
			if c == nil {
				c = p.fresh(boolSort, "cond")
			}
			var next *ssa.BasicBlock
			if c.Const {
				if c.Bool() {
					next = f.b.Succs[0]
				} else {
					next = f.b.Succs[1]
				}
			} else {
				// the solver is only needed when the condition shares variables with the path condition
				tf, ff := "sat", "sat"
				cv := map[string]bool{}
				termVars(c, cv, map[*Term]bool{})
				related := false
				for v := range cv {
					if p.pcVars[v] {
						related = true
						break
					}
				}
				if related {
					tf = g.feasible(append(append([]*Term{}, p.pc...), c))
					ff = g.feasible(append(append([]*Term{}, p.pc...), tNot(c)))
				}
				switch {
				case tf != "unsat" && ff != "unsat":
					q := p.clone()
					qf := q.stack[len(q.stack)-1]
					q.addPC(tNot(c))
					qf.prev, qf.b, qf.idx = qf.b, qf.b.Succs[1], 0
					forks = append(forks, q)
					p.addPC(c)
					next = f.b.Succs[0]
				case tf != "unsat":
					p.addPC(c)
					next = f.b.Succs[0]
				case ff != "unsat":
					p.addPC(tNot(c))
					next = f.b.Succs[1]
				default:
					return forks
				}
			}
			f.prev, f.b, f.idx = f.b, next, 0
		case *ssa.Jump:
			f.prev, f.b, f.idx = f.b, f.b.Succs[0], 0
		case *ssa.RunDefers:
			f.inDefers = true
		case *ssa.Return, *ssa.Panic:
			if _, isPanic := in.(*ssa.Panic); isPanic {
				g.runDefers(p, f)
				return forks
			}
			p.stack = p.stack[:len(p.stack)-1]
		}
	}
	return forks
}

func onStack(p *gPath, fn *ssa.Function) bool {
	for _, f := range p.stack {
		if f.fn == fn {
			return true
		}
	}
	return false
}

func (g *gRunner) tupleSyms(p *gPath, v ssa.Value) {
	if tt, ok := v.Type().(*types.Tuple); ok {
		ts := make([]*Term, tt.Len())
		for i := 0; i < tt.Len(); i++ {
			if s, ok := sortOfType(tt.At(i).Type()); ok {
				ts[i] = p.fresh(s, v.Name())
			}
		}
		p.tuples[v] = ts
	}
}

// interesting: functions that (transitively, through static in-module calls and closures they
// create) touch a guarded field or a lock. Only those are roots / get inlined.
func (g *gRunner) computeInteresting(all []*ssa.Function) map[*ssa.Function]bool {
	direct := map[*ssa.Function]bool{}
	calls := map[*ssa.Function][]*ssa.Function{}
	for _, fn := range all {
		for _, b := range fn.Blocks {
			for _, in := range b.Instrs {
				switch in := in.(type) {
				case *ssa.FieldAddr:
					if pt, ok := in.X.Type().Underlying().(*types.Pointer); ok {
						if named, ok := pt.Elem().(*types.Named); ok {
							if st, ok := named.Underlying().(*types.Struct); ok && named.Obj().Pkg() != nil {
								id := named.Obj().Pkg().Name() + "." + named.Obj().Name() + "." + st.Field(in.Field).Name()
								if _, ok := g.guards[id]; ok {
									direct[fn] = true
								}
							}
						}
					}
				case *ssa.Call:
					if _, ok := lockOpOf(&in.Call); ok {
						direct[fn] = true
					}
					if c := in.Call.StaticCallee(); c != nil {
						calls[fn] = append(calls[fn], c)
					}
					if mc, ok := in.Call.Value.(*ssa.MakeClosure); ok {
						calls[fn] = append(calls[fn], mc.Fn.(*ssa.Function))
					}
				case *ssa.Defer:
					if _, ok := lockOpOf(&in.Call); ok {
						direct[fn] = true
					}
					if c := in.Call.StaticCallee(); c != nil {
						calls[fn] = append(calls[fn], c)
					}
					if mc, ok := in.Call.Value.(*ssa.MakeClosure); ok {
						calls[fn] = append(calls[fn], mc.Fn.(*ssa.Function))
					}
				}
			}
		}
	}
	res := map[*ssa.Function]bool{}
	for f := range direct {
		res[f] = true
	}
	for changed := true; changed; {
		changed = false
		for _, fn := range all {
			if res[fn] {
				continue
			}
			for _, c := range calls[fn] {
				if res[c] {
					res[fn] = true
					changed = true
					break
				}
			}
		}
	}
	return res
}

type gStats struct {
	Roots    int
	Paths    int
	Queries  int
	Accesses int
	Findings []gFinding
	Incon    []string
	Guards   int
	Skipped  []string
	RootNames []string
}

func runGuardedBy(prog *ssa.Program, solver *Solver, skip func(*ssa.Function) bool, guardsPath string) (*gStats, error) {
	var specs []guardSpec
	b, err := os.ReadFile(guardsPath)
	if err != nil {
		return nil, err
	}
	if err := json.Unmarshal(b, &specs); err != nil {
		return nil, err
	}
	st := &gStats{}
	g := &gRunner{prog: prog, fset: prog.Fset, solver: solver, guards: map[string]string{}, maxDepth: 4, unwind: 2, maxPaths: 1500, findings: map[string]gFinding{}, skip: skip}
	// resolve guard table against the current tree: entries whose struct or field no longer exist are skipped with a note
	typeIndex := map[string]*types.Struct{}
	for _, pkg := range prog.AllPackages() {
		if !strings.HasPrefix(pkg.Pkg.Path(), modPath) {
			continue
		}
		for _, m := range pkg.Members {
			if t, ok := m.(*ssa.Type); ok {
				if s, ok := t.Type().Underlying().(*types.Struct); ok {
					typeIndex[pkg.Pkg.Name()+"."+t.Name()] = s
				}
			}
		}
	}
	for _, sp := range specs {
		s, ok := typeIndex[sp.Struct]
		if !ok {
			st.Skipped = append(st.Skipped, "struct not found: "+sp.Struct)
			continue
		}
		has := func(n string) bool {
			if i := strings.Index(n, "."); i > 0 {
				n = n[:i]
			}
			for i := 0; i < s.NumFields(); i++ {
				if s.Field(i).Name() == n {
					return true
				}
			}
			return false
		}
		if !has(sp.Lock) {
			st.Skipped = append(st.Skipped, "lock field not found: "+sp.Struct+"."+sp.Lock)
			continue
		}
		for _, f := range sp.Fields {
			if !has(f) {
				st.Skipped = append(st.Skipped, "field not found: "+sp.Struct+"."+f)
				continue
			}
			g.guards[sp.Struct+"."+f] = sp.Lock
			st.Guards++
		}
	}
	// roots
	rootSet := map[*ssa.Function]bool{}
	type unexpMethod struct {
		recv types.Type
		fn   *ssa.Function
	}
	var unexportedMethods []unexpMethod
	var all []*ssa.Function
	var collect func(fn *ssa.Function)
	collect = func(fn *ssa.Function) {
		all = append(all, fn)
		for _, a := range fn.AnonFuncs {
			collect(a)
		}
	}
	for _, pkg := range prog.AllPackages() {
		if !strings.HasPrefix(pkg.Pkg.Path(), modPath) {
			continue
		}
		for _, m := range pkg.Members {
			switch m := m.(type) {
			case *ssa.Function:
				if !skip(m) {
					collect(m)
					if m.Object() != nil && m.Object().Exported() {
						rootSet[m] = true
					}
				}
			case *ssa.Type:
				for _, t := range []types.Type{m.Type(), types.NewPointer(m.Type())} {
					ms := prog.MethodSets.MethodSet(t)
					for i := 0; i < ms.Len(); i++ {
						f := prog.MethodValue(ms.At(i))
						if f == nil || f.Pkg != pkg || f.Synthetic != "" || skip(f) {
							continue
						}
						collect(f)
						if f.Object() != nil && f.Object().Exported() && m.Object().Exported() {
							rootSet[f] = true
						}
						if f.Object() != nil && !m.Object().Exported() {
							unexportedMethods = append(unexportedMethods, unexpMethod{t, f})
						}
					}
				}
			}
		}
	}
	// methods of unexported types that are reached through an interface (dynamic dispatch is not
	// followed by the inliner): a method is a root when some interface-method call in the module can
	// land on it (e.g. the sent-chunk storage behind the sentStorage interface)
	type invokeSite struct {
		iface *types.Interface
		name  string
	}
	invoked := map[string]invokeSite{}
	for _, fn := range all {
		for _, blk := range fn.Blocks {
			for _, in := range blk.Instrs {
				ci, ok := in.(ssa.CallInstruction)
				if !ok || !ci.Common().IsInvoke() {
					continue
				}
				c := ci.Common()
				it, ok := c.Value.Type().Underlying().(*types.Interface)
				if !ok {
					continue
				}
				invoked[c.Value.Type().String()+"."+c.Method.Name()] = invokeSite{it, c.Method.Name()}
			}
		}
	}
	for _, um := range unexportedMethods {
		for _, site := range invoked {
			if um.fn.Name() == site.name && types.Implements(um.recv, site.iface) {
				rootSet[um.fn] = true
			}
		}
	}
	// go targets and escaping closures
	for _, fn := range all {
		for _, blk := range fn.Blocks {
			for _, in := range blk.Instrs {
				switch in := in.(type) {
				case *ssa.Go:
					if mc, ok := in.Call.Value.(*ssa.MakeClosure); ok {
						rootSet[mc.Fn.(*ssa.Function)] = true
					} else if c := in.Call.StaticCallee(); c != nil && g.inlinable(c) {
						rootSet[c] = true
					}
				case *ssa.MakeClosure:
					direct := true
					for _, ref := range *in.Referrers() {
						switch r := ref.(type) {
						case *ssa.Call:
							if r.Call.Value != in {
								direct = false
							}
						case *ssa.Defer:
							if r.Call.Value != in {
								direct = false
							}
						case *ssa.Go:
						case *ssa.DebugRef:
						default:
							direct = false
						}
					}
					if !direct {
						rootSet[in.Fn.(*ssa.Function)] = true
					}
				}
			}
		}
	}
	g.interesting = g.computeInteresting(all)
	var roots []*ssa.Function
	for r := range rootSet {
		if r.Blocks != nil && g.interesting[r] {
			roots = append(roots, r)
		}
	}
	sort.Slice(roots, func(i, j int) bool { return roots[i].String() < roots[j].String() })
	for _, r := range roots {
		g.explore(r)
		st.RootNames = append(st.RootNames, r.String())
	}
	st.Roots = len(roots)
	st.Paths = g.paths
	st.Queries = g.queries
	st.Accesses = g.accesses
	st.Incon = g.incon
	var ids []string
	for id := range g.findings {
		ids = append(ids, id)
	}
	sort.Strings(ids)
	for _, id := range ids {
		st.Findings = append(st.Findings, g.findings[id])
	}
	return st, nil
}
