package main

// SMT terms with constant folding. Sorts: Bool, BitVec(w), Str (encoded as Int atoms).

import (
	"fmt"
	"math/bits"
	"strings"
)

type SortKind int

const (
	SBool SortKind = iota
	SBV
	SStr // opaque string atom (SMT Int)
	SFP  // float64
)

type Sort struct {
	K SortKind
	W int
}

func (s Sort) SMT() string {
	switch s.K {
	case SBool:
		return "Bool"
	case SBV:
		return fmt.Sprintf("(_ BitVec %d)", s.W)
	case SStr:
		return "Int"
	case SFP:
		return "(_ FloatingPoint 11 53)"
	}
	panic("bad sort")
}

var boolSort = Sort{SBool, 0}
var strSort = Sort{SStr, 0}

func bvSort(w int) Sort { return Sort{SBV, w} }

type Term struct {
	S     Sort
	Const bool
	V     uint64 // constant value: bool 0/1, bv bits, str atom id
	Op    string
	Args  []*Term
	Name  string // for variables (Op=="var")
	size  int
}

func (t *Term) IsConst() bool { return t.Const }

func mask(w int) uint64 {
	if w >= 64 {
		return ^uint64(0)
	}
	return (uint64(1) << uint(w)) - 1
}

var tTrue = &Term{S: boolSort, Const: true, V: 1}
var tFalse = &Term{S: boolSort, Const: true, V: 0}

func mkBool(b bool) *Term {
	if b {
		return tTrue
	}
	return tFalse
}

func mkBV(w int, v uint64) *Term {
	return &Term{S: bvSort(w), Const: true, V: v & mask(w)}
}

func mkStrConst(id uint64) *Term { return &Term{S: strSort, Const: true, V: id} }

func mkVar(s Sort, name string) *Term {
	return &Term{S: s, Op: "var", Name: name, size: 1}
}

func mkApp(s Sort, op string, args ...*Term) *Term {
	sz := 1
	for _, a := range args {
		sz += a.size
	}
	return &Term{S: s, Op: op, Args: args, size: sz}
}

func (t *Term) Bool() bool { return t.V != 0 }

// signed value of const bv
func (t *Term) Signed() int64 {
	w := t.S.W
	v := t.V
	if w < 64 && v&(1<<uint(w-1)) != 0 {
		v |= ^mask(w)
	}
	return int64(v)
}

func tNot(a *Term) *Term {
	if a.Const {
		return mkBool(!a.Bool())
	}
	if a.Op == "not" {
		return a.Args[0]
	}
	return mkApp(boolSort, "not", a)
}

func tAnd(a, b *Term) *Term {
	if a.Const {
		if a.Bool() {
			return b
		}
		return tFalse
	}
	if b.Const {
		if b.Bool() {
			return a
		}
		return tFalse
	}
	if a == b {
		return a
	}
	return mkApp(boolSort, "and", a, b)
}

func tOr(a, b *Term) *Term {
	if a.Const {
		if a.Bool() {
			return tTrue
		}
		return b
	}
	if b.Const {
		if b.Bool() {
			return tTrue
		}
		return a
	}
	if a == b {
		return a
	}
	return mkApp(boolSort, "or", a, b)
}

func tImplies(a, b *Term) *Term { return tOr(tNot(a), b) }

func tEq(a, b *Term) *Term {
	if a.S != b.S {
		panic(fmt.Sprintf("tEq sort mismatch %v %v", a.S, b.S))
	}
	if a == b {
		return tTrue
	}
	if a.Const && b.Const {
		return mkBool(a.V == b.V)
	}
	if a.S.K == SBool {
		if a.Const {
			if a.Bool() {
				return b
			}
			return tNot(b)
		}
		if b.Const {
			if b.Bool() {
				return a
			}
			return tNot(a)
		}
	}
	if a.S.K == SFP {
		return mkApp(boolSort, "fp.eq", a, b)
	}
	return mkApp(boolSort, "=", a, b)
}

func tIte(c, a, b *Term) *Term {
	if c.Const {
		if c.Bool() {
			return a
		}
		return b
	}
	if a == b {
		return a
	}
	if a.Const && b.Const && a.V == b.V {
		return a
	}
	if a.S.K == SBool && a.Const && b.Const {
		if a.Bool() {
			return c
		}
		return tNot(c)
	}
	return mkApp(a.S, "ite", c, a, b)
}

// bit-vector binary ops
func tBVBin(op string, a, b *Term) *Term {
	if a.S != b.S {
		panic(fmt.Sprintf("tBVBin %s sort mismatch %v %v", op, a.S, b.S))
	}
	w := a.S.W
	if a.Const && b.Const {
		x, y := a.V, b.V
		switch op {
		case "bvadd":
			return mkBV(w, x+y)
		case "bvsub":
			return mkBV(w, x-y)
		case "bvmul":
			return mkBV(w, x*y)
		case "bvand":
			return mkBV(w, x&y)
		case "bvor":
			return mkBV(w, x|y)
		case "bvxor":
			return mkBV(w, x^y)
		case "bvudiv":
			if y != 0 {
				return mkBV(w, x/y)
			}
		case "bvurem":
			if y != 0 {
				return mkBV(w, x%y)
			}
		case "bvsdiv":
			if y != 0 {
				sx, sy := a.Signed(), b.Signed()
				if !(sy == -1 && sx == -sx && sx != 0) {
					return mkBV(w, uint64(sx/sy))
				}
			}
		case "bvsrem":
			if y != 0 {
				sx, sy := a.Signed(), b.Signed()
				if sy != -1 {
					return mkBV(w, uint64(sx%sy))
				}
				return mkBV(w, 0)
			}
		case "bvshl":
			if y >= uint64(w) {
				return mkBV(w, 0)
			}
			return mkBV(w, x<<y)
		case "bvlshr":
			if y >= uint64(w) {
				return mkBV(w, 0)
			}
			return mkBV(w, x>>y)
		case "bvashr":
			sx := a.Signed()
			if y >= uint64(w) {
				y = uint64(w - 1)
			}
			return mkBV(w, uint64(sx>>y))
		}
	}
	// identities
	switch op {
	case "bvadd", "bvor", "bvxor":
		if a.Const && a.V == 0 {
			return b
		}
		if b.Const && b.V == 0 {
			return a
		}
	case "bvsub", "bvshl", "bvlshr", "bvashr":
		if b.Const && b.V == 0 {
			return a
		}
	case "bvmul":
		if a.Const && a.V == 1 {
			return b
		}
		if b.Const && b.V == 1 {
			return a
		}
		if (a.Const && a.V == 0) || (b.Const && b.V == 0) {
			return mkBV(w, 0)
		}
	case "bvand":
		if (a.Const && a.V == 0) || (b.Const && b.V == 0) {
			return mkBV(w, 0)
		}
		if a.Const && a.V == mask(w) {
			return b
		}
		if b.Const && b.V == mask(w) {
			return a
		}
	case "bvudiv":
		if b.Const && b.V == 1 {
			return a
		}
	}
	return mkApp(a.S, op, a, b)
}

// comparison ops returning Bool: bvult bvule bvugt bvuge bvslt bvsle bvsgt bvsge
func tBVCmp(op string, a, b *Term) *Term {
	if a.S != b.S {
		panic(fmt.Sprintf("tBVCmp %s sort mismatch %v %v", op, a.S, b.S))
	}
	if a.Const && b.Const {
		x, y := a.V, b.V
		sx, sy := a.Signed(), b.Signed()
		switch op {
		case "bvult":
			return mkBool(x < y)
		case "bvule":
			return mkBool(x <= y)
		case "bvugt":
			return mkBool(x > y)
		case "bvuge":
			return mkBool(x >= y)
		case "bvslt":
			return mkBool(sx < sy)
		case "bvsle":
			return mkBool(sx <= sy)
		case "bvsgt":
			return mkBool(sx > sy)
		case "bvsge":
			return mkBool(sx >= sy)
		}
	}
	if a == b {
		switch op {
		case "bvule", "bvuge", "bvsle", "bvsge":
			return tTrue
		default:
			return tFalse
		}
	}
	return mkApp(boolSort, op, a, b)
}

func tBVNot(a *Term) *Term {
	if a.Const {
		return mkBV(a.S.W, ^a.V)
	}
	return mkApp(a.S, "bvnot", a)
}

func tBVNeg(a *Term) *Term {
	if a.Const {
		return mkBV(a.S.W, -a.V)
	}
	return mkApp(a.S, "bvneg", a)
}

// resize: zero/sign extend or truncate to width w
func tBVResize(a *Term, w int, signed bool) *Term {
	aw := a.S.W
	if aw == w {
		return a
	}
	if a.Const {
		if w < aw {
			return mkBV(w, a.V)
		}
		if signed {
			return mkBV(w, uint64(a.Signed()))
		}
		return mkBV(w, a.V)
	}
	if w < aw {
		return mkApp(bvSort(w), fmt.Sprintf("(_ extract %d 0)", w-1), a)
	}
	if signed {
		return mkApp(bvSort(w), fmt.Sprintf("(_ sign_extend %d)", w-aw), a)
	}
	return mkApp(bvSort(w), fmt.Sprintf("(_ zero_extend %d)", w-aw), a)
}

func (t *Term) constSMT() string {
	switch t.S.K {
	case SBool:
		if t.Bool() {
			return "true"
		}
		return "false"
	case SBV:
		if t.S.W%4 == 0 {
			return fmt.Sprintf("#x%0*x", t.S.W/4, t.V)
		}
		return fmt.Sprintf("#b%0*b", t.S.W, t.V)
	case SStr:
		return fmt.Sprintf("%d", int64(t.V))
	}
	panic("constSMT")
}

// String renders without sharing (debug / small terms).
func (t *Term) String() string {
	if t.Const {
		return t.constSMT()
	}
	if t.Op == "var" {
		return t.Name
	}
	var sb strings.Builder
	sb.WriteString("(")
	sb.WriteString(t.Op)
	for _, a := range t.Args {
		sb.WriteString(" ")
		sb.WriteString(a.String())
	}
	sb.WriteString(")")
	return sb.String()
}

var _ = bits.Len
