package main

import (
	"fmt"
	"go/token"
	"go/types"
	"math"

	"golang.org/x/tools/go/ssa"
)

// storeInto stores v at addr in place (field pointers into existing aggregates stay valid).
func storeInto(addr *Value, v Value) {
	switch rhs := v.(type) {
	case Struct:
		if lhs, ok := (*addr).(Struct); ok && len(lhs) == len(rhs) {
			for i := range lhs {
				storeInto(&lhs[i], rhs[i])
			}
			return
		}
		*addr = copyVal(v)
	case Array:
		if lhs, ok := (*addr).(Array); ok && len(lhs) == len(rhs) {
			for i := range lhs {
				storeInto(&lhs[i], rhs[i])
			}
			return
		}
		*addr = copyVal(v)
	default:
		*addr = copyVal(v)
	}
}

func (r *Run) unop(fr *frame, instr *ssa.UnOp, x Value) Value {
	if p, ok := x.(Poison); ok {
		if r.inInit > 0 {
			return p
		}
		panic(unsupported("unop on poison: " + p.Why))
	}
	switch instr.Op {
	case token.MUL: // load
		if ref, ok := x.(*SymRef); ok {
			return ref.load()
		}
		p := fr.ptr(x, "load")
		return copyVal(*p)
	case token.ARROW:
		ch, _ := x.(*ChanObj)
		v, ok := r.chanRecv(ch)
		if instr.CommaOk {
			return Tuple{v, mkBool(ok)}
		}
		return v
	case token.NOT:
		return tNot(x.(*Term))
	case token.SUB:
		switch x := x.(type) {
		case *Term:
			if x.S.K == SFP {
				return mkApp(fpSort, "fp.neg", x)
			}
			return tBVNeg(x)
		case F64:
			return -x
		case FSym:
			return x
		}
	case token.XOR:
		return tBVNot(x.(*Term))
	}
	panic(unsupported(fmt.Sprintf("unop %s on %T", instr.Op, x)))
}

func (r *Run) binop(op token.Token, t types.Type, x, y Value) Value {
	if p, ok := x.(Poison); ok {
		if r.inInit > 0 {
			return p
		}
		panic(unsupported("binop on poison: " + p.Why))
	}
	if p, ok := y.(Poison); ok {
		if r.inInit > 0 {
			return p
		}
		panic(unsupported("binop on poison: " + p.Why))
	}
	switch op {
	case token.EQL:
		return r.eqVal(x, y)
	case token.NEQ:
		return tNot(r.eqVal(x, y))
	}
	// symbolic float64 arithmetic (one side may be a concrete F64)
	if xt, ok := x.(*Term); ok && xt.S.K == SFP {
		return r.fpBinop(op, xt, toFP(y))
	}
	if yt, ok := y.(*Term); ok && yt.S.K == SFP {
		return r.fpBinop(op, toFP(x), yt)
	}
	switch x := x.(type) {
	case *Term:
		yt := y.(*Term)
		if x.S.K == SBool {
			switch op {
			case token.AND, token.LAND:
				return tAnd(x, yt)
			case token.OR, token.LOR:
				return tOr(x, yt)
			}
			panic(unsupported("bool binop " + op.String()))
		}
		_, signed, _ := isInt(t)
		w := x.S.W
		switch op {
		case token.ADD:
			return tBVBin("bvadd", x, yt)
		case token.SUB:
			return tBVBin("bvsub", x, yt)
		case token.MUL:
			prod := tBVBin("bvmul", x, yt)
			// whole-unit durations: q*C with a bounded non-negative component q and a constant C that
			// cannot overflow is remembered so that (q*C)/C and (q*C)%C are answered structurally
			if w == 64 && !prod.Const {
				q, cst := x, yt
				if q.Const {
					q, cst = yt, x
				}
				if b, ok := r.krBound[q]; ok && cst.Const && cst.Signed() > 0 && b <= (1<<62)/cst.Signed() {
					info := krInfo{div: map[int64]*Term{cst.Signed(): q}, rem: map[int64]*Term{cst.Signed(): mkBV(64, 0)}}
					if cst.Signed() == 1000000000 {
						info.div[1000000] = tBVBin("bvmul", q, mkBV(64, 1000))
						info.rem[1000000] = mkBV(64, 0)
					}
					r.kr[prod] = info
				}
			}
			return prod
		case token.QUO, token.REM:
			if info, ok := r.kr[x]; ok && yt.Const {
				if op == token.QUO {
					if t, ok := info.div[yt.Signed()]; ok {
						return t
					}
				} else if t, ok := info.rem[yt.Signed()]; ok {
					return t
				}
			}
			// division by zero is a runtime panic
			if !r.branch(tNot(tEq(yt, mkBV(w, 0)))) {
				panic(targetPanic{v: r.runtimeErr("integer divide by zero"), msg: "integer divide by zero"})
			}
			if op == token.QUO {
				if signed {
					return tBVBin("bvsdiv", x, yt)
				}
				return tBVBin("bvudiv", x, yt)
			}
			if signed {
				return tBVBin("bvsrem", x, yt)
			}
			return tBVBin("bvurem", x, yt)
		case token.AND:
			return tBVBin("bvand", x, yt)
		case token.OR:
			return tBVBin("bvor", x, yt)
		case token.XOR:
			return tBVBin("bvxor", x, yt)
		case token.AND_NOT:
			return tBVBin("bvand", x, tBVNot(yt))
		case token.SHL, token.SHR:
			// shift count: unsigned or (checked) signed; widths may differ
			sh := yt
			if sh.S.W != w {
				if sh.S.W > w {
					// large counts saturate
					big := tBVCmp("bvuge", sh, mkBV(sh.S.W, uint64(w)))
					shn := tBVResize(sh, w, false)
					sh = tIte(big, mkBV(w, uint64(w)), shn)
				} else {
					sh = tBVResize(sh, w, false)
				}
			}
			if op == token.SHL {
				return tBVBin("bvshl", x, sh)
			}
			if signed {
				return tBVBin("bvashr", x, sh)
			}
			return tBVBin("bvlshr", x, sh)
		case token.LSS:
			if signed {
				return tBVCmp("bvslt", x, yt)
			}
			return tBVCmp("bvult", x, yt)
		case token.LEQ:
			if signed {
				return tBVCmp("bvsle", x, yt)
			}
			return tBVCmp("bvule", x, yt)
		case token.GTR:
			if signed {
				return tBVCmp("bvsgt", x, yt)
			}
			return tBVCmp("bvugt", x, yt)
		case token.GEQ:
			if signed {
				return tBVCmp("bvsge", x, yt)
			}
			return tBVCmp("bvuge", x, yt)
		}
	case FSym:
		return r.fsymBin(op)
	case F64:
		if _, ok := y.(FSym); ok {
			return r.fsymBin(op)
		}
		yf := y.(F64)
		switch op {
		case token.ADD:
			return x + yf
		case token.SUB:
			return x - yf
		case token.MUL:
			return x * yf
		case token.QUO:
			return x / yf
		case token.LSS:
			return mkBool(x < yf)
		case token.LEQ:
			return mkBool(x <= yf)
		case token.GTR:
			return mkBool(x > yf)
		case token.GEQ:
			return mkBool(x >= yf)
		}
	case Str:
		ys := y.(Str)
		switch op {
		case token.ADD:
			return r.strConcat(x, ys)
		case token.LSS, token.LEQ, token.GTR, token.GEQ:
			if x.IsConst && ys.IsConst {
				switch op {
				case token.LSS:
					return mkBool(x.C < ys.C)
				case token.LEQ:
					return mkBool(x.C <= ys.C)
				case token.GTR:
					return mkBool(x.C > ys.C)
				case token.GEQ:
					return mkBool(x.C >= ys.C)
				}
			}
			panic(unsupported("ordering of symbolic strings"))
		}
	}
	panic(unsupported(fmt.Sprintf("binop %s on %T,%T", op, x, y)))
}

func toFP(v Value) *Term {
	switch v := v.(type) {
	case *Term:
		return v
	case F64:
		return mkFP(float64(v))
	}
	panic(unsupported(fmt.Sprintf("float operand %T", v)))
}

func (r *Run) fpBinop(op token.Token, x, y *Term) Value {
	switch op {
	case token.ADD:
		return tFPBin("fp.add", x, y)
	case token.SUB:
		return tFPBin("fp.sub", x, y)
	case token.MUL:
		return tFPBin("fp.mul", x, y)
	case token.QUO:
		return tFPBin("fp.div", x, y)
	case token.LSS:
		return tFPCmp("fp.lt", x, y)
	case token.LEQ:
		return tFPCmp("fp.leq", x, y)
	case token.GTR:
		return tFPCmp("fp.gt", x, y)
	case token.GEQ:
		return tFPCmp("fp.geq", x, y)
	}
	panic(unsupported("float op " + op.String()))
}

func (r *Run) fsymBin(op token.Token) Value {
	switch op {
	case token.ADD, token.SUB, token.MUL, token.QUO:
		return FSym{}
	case token.LSS, token.LEQ, token.GTR, token.GEQ:
		return r.fresh(boolSort, "fcmp")
	}
	panic(unsupported("float op " + op.String() + " on untracked float"))
}

func (r *Run) strConcat(a, b Str) Value {
	if a.IsConst && b.IsConst {
		return constStr(a.C + b.C)
	}
	if a.IsConst && a.C == "" {
		return b
	}
	if b.IsConst && b.C == "" {
		return a
	}
	ab, ok1 := r.strBytes(a)
	bb, ok2 := r.strBytes(b)
	if ok1 && ok2 {
		return Str{IsBytes: true, Bytes: append(append([]Value{}, ab...), bb...)}
	}
	// opaque concatenation: uninterpreted function of the two atoms
	t := mkApp(strSort, "uf_concat", r.strTerm(a), r.strTerm(b))
	return Str{Atom: t}
}

func (r *Run) strBytes(s Str) ([]Value, bool) {
	if s.IsConst {
		out := make([]Value, len(s.C))
		for i := 0; i < len(s.C); i++ {
			out[i] = mkBV(8, uint64(s.C[i]))
		}
		return out, true
	}
	if s.IsBytes {
		return s.Bytes, true
	}
	return nil, false
}

func (r *Run) strLen(s Str) *Term {
	if s.IsConst {
		return mkBV(64, uint64(len(s.C)))
	}
	if s.IsBytes {
		return mkBV(64, uint64(len(s.Bytes)))
	}
	return mkApp(bvSort(64), "strlen", s.Atom)
}

func (r *Run) strEq(a, b Str) *Term {
	if a.IsConst && b.IsConst {
		return mkBool(a.C == b.C)
	}
	ab, ok1 := r.strBytes(a)
	bb, ok2 := r.strBytes(b)
	if (a.IsBytes || b.IsBytes) && ok1 && ok2 {
		if len(ab) != len(bb) {
			return tFalse
		}
		res := tTrue
		for i := range ab {
			res = tAnd(res, tEq(ab[i].(*Term), bb[i].(*Term)))
		}
		return res
	}
	if a.IsBytes || b.IsBytes {
		panic(unsupported("comparison of byte-backed string with opaque string"))
	}
	return tEq(r.strTerm(a), r.strTerm(b))
}

// eqVal implements Go's == on comparable values, as a Bool term.
func (r *Run) eqVal(x, y Value) *Term {
	switch x := x.(type) {
	case nil:
		return mkBool(isNilish(y))
	case *Term:
		if x.S.K == SFP {
			if di, ok := r.fpSecs[x]; ok {
				if yt := toFP(y); yt.Const && yt.Float() == 0 {
					// side lemma: d.Seconds() == 0 iff d == 0
					return tAnd(tEq(di.sec, mkBV(64, 0)), tEq(di.sub, mkBV(64, 0)))
				}
			}
			return tFPCmp("fp.eq", x, toFP(y))
		}
		return tEq(x, y.(*Term))
	case FSym:
		return r.fresh(boolSort, "fcmp")
	case F64:
		if _, ok := y.(FSym); ok {
			return r.fresh(boolSort, "fcmp")
		}
		if yt, ok := y.(*Term); ok {
			return tFPCmp("fp.eq", mkFP(float64(x)), yt)
		}
		return mkBool(x == y.(F64))
	case Str:
		return r.strEq(x, y.(Str))
	case *Value:
		yp, ok := y.(*Value)
		if !ok {
			return mkBool(x == nil && isNilish(y))
		}
		return mkBool(x == yp)
	case Struct:
		ys := y.(Struct)
		res := tTrue
		for i := range x {
			res = tAnd(res, r.eqVal(x[i], ys[i]))
		}
		return res
	case Array:
		ya := y.(Array)
		res := tTrue
		for i := range x {
			res = tAnd(res, r.eqVal(x[i], ya[i]))
		}
		return res
	case *MapObj:
		if ym, ok := y.(*MapObj); ok {
			return mkBool(x == ym)
		}
		return mkBool(x == nil && isNilish(y))
	case *ChanObj:
		if yc, ok := y.(*ChanObj); ok {
			return mkBool(x == yc)
		}
		return mkBool(x == nil && isNilish(y))
	case Slice:
		// only comparison with nil is legal
		if ys, ok := y.(Slice); ok {
			return mkBool(x.S == nil && ys.S == nil)
		}
		return mkBool(x.S == nil)
	case Iface:
		yi, ok := y.(Iface)
		if !ok {
			return mkBool(x.T == nil && isNilish(y))
		}
		if x.T == nil || yi.T == nil {
			return mkBool(x.T == nil && yi.T == nil)
		}
		if !types.Identical(x.T, yi.T) {
			return tFalse
		}
		if x.T == errObjType || x.T == runtimeErrType {
			if xo, ok := x.V.(*Opaque); ok {
				yo, ok2 := yi.V.(*Opaque)
				return mkBool(ok2 && xo == yo)
			}
			if xs, ok := x.V.(Str); ok {
				if ys, ok2 := yi.V.(Str); ok2 {
					return r.strEq(xs, ys)
				}
			}
			return tFalse
		}
		return r.eqVal(x.V, yi.V)
	case *Closure:
		return mkBool(x == nil && isNilFunc(y))
	case *ssa.Function:
		return mkBool(x == nil && isNilFunc(y))
	case *Opaque:
		yo, ok := y.(*Opaque)
		return mkBool(ok && x == yo)
	case *nativeFunc:
		return mkBool(false)
	}
	panic(unsupported(fmt.Sprintf("== on %T, %T", x, y)))
}

func isNilish(v Value) bool {
	switch v := v.(type) {
	case nil:
		return true
	case *Value:
		return v == nil
	case *MapObj:
		return v == nil
	case *ChanObj:
		return v == nil
	case Slice:
		return v.S == nil
	case Iface:
		return v.T == nil
	case *Closure:
		return v == nil
	case *ssa.Function:
		return v == nil
	}
	return false
}

func (r *Run) conv(tDst, tSrc types.Type, x Value) Value {
	if p, ok := x.(Poison); ok {
		if r.inInit > 0 {
			return p
		}
		panic(unsupported("conv of poison: " + p.Why))
	}
	ud := tDst.Underlying()
	us := tSrc.Underlying()
	switch us := us.(type) {
	case *types.Pointer:
		if _, ok := ud.(*types.Pointer); ok {
			return x
		}
		if b, ok := ud.(*types.Basic); ok && b.Kind() == types.UnsafePointer {
			return x
		}
	case *types.Slice:
		// []byte -> string, []rune -> string
		if isString(ud) {
			s := x.(Slice)
			if eb, ok := us.Elem().Underlying().(*types.Basic); ok && eb.Kind() == types.Uint8 {
				bs := make([]Value, len(s.S))
				copy(bs, s.S)
				if c, ok := bytesConst(bs); ok {
					return constStr(c)
				}
				return Str{IsBytes: true, Bytes: bs}
			}
			panic(unsupported("[]rune to string"))
		}
		if _, ok := ud.(*types.Slice); ok {
			return x
		}
	case *types.Basic:
		if us.Kind() == types.UnsafePointer {
			if _, ok := ud.(*types.Pointer); ok {
				return x
			}
		}
		if isString(us) {
			s := x.(Str)
			switch ud := ud.(type) {
			case *types.Slice:
				if eb, ok := ud.Elem().Underlying().(*types.Basic); ok && eb.Kind() == types.Uint8 {
					bs, ok := r.strBytes(s)
					if !ok {
						panic(unsupported("opaque symbolic string to []byte"))
					}
					out := make([]Value, len(bs))
					copy(out, bs)
					return Slice{S: out}
				}
				if s.IsConst {
					rs := []rune(s.C)
					out := make([]Value, len(rs))
					for i, c := range rs {
						out[i] = mkBV(32, uint64(c))
					}
					return Slice{S: out}
				}
				panic(unsupported("symbolic string to []rune"))
			case *types.Basic:
				if isString(ud) {
					return x
				}
			}
		}
		if w, signed, ok := isInt(us); ok {
			t := x.(*Term)
			_ = w
			if wd, _, ok := isInt(ud); ok {
				// widening back a truncated bounded component (uint32(d/unit) -> time.Duration): if the
				// component is known to fit, the result is the component itself
				if !signed && wd > t.S.W && !t.Const && len(t.Args) == 1 && t.Op == fmt.Sprintf("(_ extract %d 0)", t.S.W-1) {
					if inner := t.Args[0]; inner.S.W == wd {
						if b, ok := r.krBound[inner]; ok && (t.S.W >= 63 || b < int64(1)<<uint(t.S.W)) {
							return inner
						}
					}
				}
				return tBVResize(t, wd, signed)
			}
			if isFloat(ud) {
				if !t.Const {
					if ud.(*types.Basic).Kind() == types.Float64 || ud.(*types.Basic).Kind() == types.UntypedFloat {
						return tIntToFP(t, signed)
					}
					return FSym{}
				}
				if signed {
					return F64(float64(t.Signed()))
				}
				return F64(float64(t.V))
			}
			if isString(ud) {
				if !t.Const {
					panic(unsupported("symbolic rune to string"))
				}
				return constStr(string(rune(t.Signed())))
			}
		}
		if isFloat(us) {
			if xt, ok := x.(*Term); ok && xt.S.K == SFP {
				if isFloat(ud) {
					if ud.(*types.Basic).Kind() == types.Float32 {
						panic(unsupported("symbolic float64 to float32"))
					}
					return x
				}
				if wd, _, ok := isInt(ud); ok {
					// float64(q) for a bounded integer component q (below 2^53) is exact, so converting
					// it back yields q
					if xt.Op == "(_ to_fp 11 53) RNE" && len(xt.Args) == 1 && xt.Args[0].S.W == 64 {
						if b, ok := r.krBound[xt.Args[0]]; ok && b < 1<<53 {
							return tBVResize(xt.Args[0], wd, true)
						}
					}
					if di, ok := r.fpSecs[xt]; ok {
						return tBVResize(di.sec, wd, true) // side lemma: trunc(d.Seconds()) = whole seconds
					}
					return tFPToInt(xt, wd)
				}
			}
			if _, ok := x.(FSym); ok {
				if isFloat(ud) {
					return x
				}
				if wd, _, ok := isInt(ud); ok {
					return r.fresh(bvSort(wd), "f2i")
				}
			}
			f := float64(x.(F64))
			if isFloat(ud) {
				if ud.(*types.Basic).Kind() == types.Float32 {
					return F64(float64(float32(f)))
				}
				return x
			}
			if wd, signed, ok := isInt(ud); ok {
				if signed {
					return mkBV(wd, uint64(int64(f)))
				}
				if f < 0 {
					return mkBV(wd, uint64(int64(f)))
				}
				if f >= math.MaxInt64 {
					return mkBV(wd, uint64(f))
				}
				return mkBV(wd, uint64(f))
			}
		}
		if isBoolT(us) && isBoolT(ud) {
			return x
		}
	}
	panic(unsupported(fmt.Sprintf("conversion %v -> %v", tSrc, tDst)))
}

// ---------------- maps

// mapFind forks over "key equals entry i"; returns the entry or nil.
func (r *Run) mapFind(m *MapObj, key Value) *mapEntry {
	if m == nil {
		return nil
	}
	for _, e := range m.Entries {
		if r.branch(r.eqVal(e.K, key)) {
			return e
		}
	}
	return nil
}

func (r *Run) mapInsert(m *MapObj, key, val Value) {
	if e := r.mapFind(m, key); e != nil {
		e.V = val
		return
	}
	m.Entries = append(m.Entries, &mapEntry{K: key, V: val})
}

func (r *Run) mapDelete(m *MapObj, key Value) {
	if m == nil {
		return
	}
	for i, e := range m.Entries {
		if r.branch(r.eqVal(e.K, key)) {
			m.Entries = append(append([]*mapEntry{}, m.Entries[:i]...), m.Entries[i+1:]...)
			return
		}
	}
}

func (r *Run) lookup(instr *ssa.Lookup, x, idx Value) Value {
	switch x := x.(type) {
	case *MapObj:
		vt := instr.X.Type().Underlying().(*types.Map).Elem()
		var v Value
		ok := false
		if e := r.mapFind(x, idx); e != nil {
			v = copyVal(e.V)
			ok = true
		} else {
			v = zero(vt)
		}
		if instr.CommaOk {
			return Tuple{v, mkBool(ok)}
		}
		return v
	case Str:
		return r.strIndex(x, idx.(*Term), instr.Index.Type())
	}
	panic(unsupported(fmt.Sprintf("lookup on %T", x)))
}

type iterator interface {
	next(r *Run) Value
}

type mapIter struct {
	m       *MapObj
	remain  []*mapEntry
}

func (it *mapIter) next(r *Run) Value {
	// drop entries deleted meanwhile
	for {
		var live []*mapEntry
		for _, e := range it.remain {
			for _, c := range it.m.Entries {
				if c == e {
					live = append(live, e)
					break
				}
			}
		}
		it.remain = live
		break
	}
	if len(it.remain) == 0 {
		return Tuple{tFalse, zero(it.m.KeyT), zero(it.m.ValT)}
	}
	k := 0
	if r.mapOrderAll && len(it.remain) > 1 {
		k = r.chooseN(len(it.remain))
	}
	e := it.remain[k]
	it.remain = append(append([]*mapEntry{}, it.remain[:k]...), it.remain[k+1:]...)
	return Tuple{tTrue, copyVal(e.K), copyVal(e.V)}
}

type strIter struct {
	s   string
	pos int
}

func (it *strIter) next(r *Run) Value {
	if it.pos >= len(it.s) {
		return Tuple{tFalse, mkBV(64, 0), mkBV(32, 0)}
	}
	for i, c := range it.s[it.pos:] {
		_ = i
		p := it.pos
		it.pos += len(string(c))
		return Tuple{tTrue, mkBV(64, uint64(p)), mkBV(32, uint64(c))}
	}
	return nil
}

func (r *Run) rangeIter(x Value, t types.Type) iterator {
	switch x := x.(type) {
	case *MapObj:
		if x == nil {
			mt := t.Underlying().(*types.Map)
			return &mapIter{m: &MapObj{KeyT: mt.Key(), ValT: mt.Elem()}}
		}
		return &mapIter{m: x, remain: append([]*mapEntry{}, x.Entries...)}
	case Str:
		if x.IsConst {
			return &strIter{s: x.C}
		}
		if x.IsBytes {
			if c, ok := bytesConst(x.Bytes); ok {
				return &strIter{s: c}
			}
		}
		panic(unsupported("range over symbolic string"))
	}
	panic(unsupported(fmt.Sprintf("range over %T", x)))
}

// ---------------- type assertion

func (r *Run) implements(dyn types.Type, iface *types.Interface, v Value) bool {
	if dyn == flateReaderType {
		for i := 0; i < iface.NumMethods(); i++ {
			if n := iface.Method(i).Name(); n != "Read" && n != "Close" {
				return false
			}
		}
		return true
	}
	if dyn == errObjType || dyn == runtimeErrType {
		for i := 0; i < iface.NumMethods(); i++ {
			switch iface.Method(i).Name() {
			case "Error":
			case "Unwrap":
				o, ok := v.(*Opaque)
				if !ok {
					return false
				}
				eo, ok := o.Data.(*errObj)
				if !ok || len(eo.wraps) == 0 {
					return false
				}
				sig := iface.Method(i).Type().(*types.Signature)
				_, isSlice := sig.Results().At(0).Type().Underlying().(*types.Slice)
				if isSlice != eo.multi {
					return false
				}
			case "RuntimeError":
				if dyn != runtimeErrType {
					return false
				}
			default:
				return false
			}
		}
		return true
	}
	return types.Implements(dyn, iface)
}

func (r *Run) typeAssert(instr *ssa.TypeAssert, xv Value) Value {
	x, ok := xv.(Iface)
	if !ok {
		if p, isP := xv.(Poison); isP {
			panic(unsupported("type assert on poison: " + p.Why))
		}
		panic(fmt.Sprintf("typeAssert on %T", xv))
	}
	var v Value
	success := false
	if x.T != nil {
		if it, isIface := instr.AssertedType.Underlying().(*types.Interface); isIface {
			if r.implements(x.T, it, x.V) {
				v = x
				success = true
			}
		} else if types.Identical(x.T, instr.AssertedType) {
			v = copyVal(x.V)
			success = true
		}
	}
	if instr.CommaOk {
		if !success {
			v = zero(instr.AssertedType)
		}
		return Tuple{v, mkBool(success)}
	}
	if !success {
		msg := fmt.Sprintf("interface conversion: interface is %v, not %v", x.T, instr.AssertedType)
		panic(targetPanic{v: r.runtimeErr(msg), msg: msg})
	}
	return v
}

// ---------------- builtins

func (r *Run) callBuiltin(caller *frame, pos token.Pos, fn *ssa.Builtin, args []Value) Value {
	switch fn.Name() {
	case "append":
		if len(args) == 1 {
			return args[0]
		}
		var tail []Value
		switch a1 := args[1].(type) {
		case Str:
			bs, ok := r.strBytes(a1)
			if !ok {
				panic(unsupported("append of opaque string"))
			}
			tail = bs
		case Slice:
			tail = a1.S
		}
		s := args[0].(Slice)
		if len(tail) == 0 {
			return s
		}
		// Go's growth: reuse capacity when available
		if len(s.S)+len(tail) <= cap(s.S) {
			n := s.S[:len(s.S)+len(tail)]
			for i, v := range tail {
				n[len(s.S)+i] = copyVal(v)
			}
			return Slice{S: n}
		}
		newCap := len(s.S) + len(tail)
		if c2 := 2 * cap(s.S); c2 > newCap {
			newCap = c2
		}
		n := make([]Value, len(s.S), newCap)
		copy(n, s.S)
		for _, v := range tail {
			n = append(n, copyVal(v))
		}
		if newCap > len(n) {
			et := fn.Type().(*types.Signature).Params().At(0).Type().Underlying().(*types.Slice).Elem()
			full := n[:newCap]
			for i := len(n); i < newCap; i++ {
				full[i] = zero(et)
			}
		}
		return Slice{S: n}
	case "copy":
		dst := args[0].(Slice)
		var src []Value
		switch a1 := args[1].(type) {
		case Str:
			bs, ok := r.strBytes(a1)
			if !ok {
				panic(unsupported("copy from opaque string"))
			}
			src = bs
		case Slice:
			src = a1.S
		}
		n := len(src)
		if len(dst.S) < n {
			n = len(dst.S)
		}
		tmp := make([]Value, n)
		for i := 0; i < n; i++ {
			tmp[i] = copyVal(src[i])
		}
		copy(dst.S, tmp)
		return mkBV(64, uint64(n))
	case "close":
		ch, _ := args[0].(*ChanObj)
		r.chanClose(ch)
		return nil
	case "delete":
		m, _ := args[0].(*MapObj)
		r.mapDelete(m, args[1])
		return nil
	case "print", "println":
		return nil
	case "len":
		switch x := args[0].(type) {
		case Str:
			return r.strLen(x)
		case Array:
			return mkBV(64, uint64(len(x)))
		case *Value:
			if x == nil {
				return mkBV(64, 0)
			}
			return mkBV(64, uint64(len((*x).(Array))))
		case Slice:
			if x.SymLen != nil {
				return x.SymLen
			}
			return mkBV(64, uint64(len(x.S)))
		case *MapObj:
			if x == nil {
				return mkBV(64, 0)
			}
			return mkBV(64, uint64(len(x.Entries)))
		case *ChanObj:
			if x == nil {
				return mkBV(64, 0)
			}
			return mkBV(64, uint64(len(x.buf)))
		}
		panic(unsupported(fmt.Sprintf("len of %T", args[0])))
	case "cap":
		switch x := args[0].(type) {
		case Array:
			return mkBV(64, uint64(len(x)))
		case *Value:
			if x == nil {
				return mkBV(64, 0)
			}
			return mkBV(64, uint64(len((*x).(Array))))
		case Slice:
			return mkBV(64, uint64(cap(x.S)))
		case *ChanObj:
			if x == nil {
				return mkBV(64, 0)
			}
			return mkBV(64, uint64(x.cap))
		}
		panic(unsupported(fmt.Sprintf("cap of %T", args[0])))
	case "min", "max":
		res := args[0]
		for _, a := range args[1:] {
			at, ok1 := a.(*Term)
			rt, ok2 := res.(*Term)
			if !ok1 || !ok2 {
				panic(unsupported("min/max on non-integers"))
			}
			// signedness unknown here: use the builtin's signature
			sig := fn.Type().(*types.Signature)
			_, signed, _ := isInt(sig.Params().At(0).Type())
			var lt *Term
			if signed {
				lt = tBVCmp("bvslt", at, rt)
			} else {
				lt = tBVCmp("bvult", at, rt)
			}
			if fn.Name() == "min" {
				res = tIte(lt, at, rt)
			} else {
				res = tIte(lt, rt, at)
			}
		}
		return res
	case "clear":
		switch x := args[0].(type) {
		case *MapObj:
			if x != nil {
				x.Entries = nil
			}
		case Slice:
			for i := range x.S {
				x.S[i] = zeroLike(x.S[i])
			}
		}
		return nil
	case "recover":
		return r.doRecover(caller)
	case "panic":
		panic(targetPanic{v: args[0], msg: "explicit panic"})
	case "ssa:wrapnilchk":
		recv := args[0]
		if p, ok := recv.(*Value); ok && p == nil {
			panic(r.nilDeref("value method called using nil pointer"))
		}
		return recv
	}
	panic(unsupported("builtin " + fn.Name()))
}

func zeroLike(v Value) Value {
	switch v := v.(type) {
	case *Term:
		if v.S.K == SBool {
			return tFalse
		}
		return mkBV(v.S.W, 0)
	case F64:
		return F64(0)
	case Str:
		return constStr("")
	case *Value:
		return (*Value)(nil)
	case Struct:
		n := make(Struct, len(v))
		for i := range v {
			n[i] = zeroLike(v[i])
		}
		return n
	case Array:
		n := make(Array, len(v))
		for i := range v {
			n[i] = zeroLike(v[i])
		}
		return n
	case Slice:
		return Slice{}
	case *MapObj:
		return (*MapObj)(nil)
	case *ChanObj:
		return (*ChanObj)(nil)
	case Iface:
		return Iface{}
	case *Closure, *ssa.Function:
		return (*Closure)(nil)
	}
	return nil
}

func (r *Run) doRecover(caller *frame) Value {
	if caller != nil && !caller.panicking && caller.caller != nil && caller.caller.panicking {
		p := caller.caller.panicV
		if tp, ok := p.(targetPanic); ok {
			caller.caller.panicking = false
			caller.caller.panicV = nil
			return tp.v
		}
	}
	return Iface{}
}
