package main

// Under-constrained, intra-procedural symbolic execution for the "every function" lemma C08.a:
// every path of every function that acquires a mutex releases it again.
//
// Inputs are under-constrained: parameters, memory reads and call results are fresh symbols (scalars
// are SMT variables, so correlated branch conditions are decided by the solver, not by syntax);
// locks are identified by the canonical access path of their address (u.mu, c.downstreams.mu, ...).
// Loops are unrolled (each block at most `unwind` visits per path); on re-entering a loop header the
// held-lock multiset must equal the one of the first visit; at every return/panic exit (after the
// deferred calls) it must be empty.

import (
	"fmt"
	"go/token"
	"go/types"
	"sort"
	"strings"

	"golang.org/x/tools/go/ssa"
)

type ucFinding struct {
	Fn    string
	Kind  string // leak-at-exit | loop-imbalance | unlock-unheld
	Key   string
	Pos   string
	Path  []int
	Model map[string]uint64
}

type ucStats struct {
	Functions int
	Sites     int
	Paths     int
	Queries   int
	Findings  []ucFinding
	Incon     []string
	Names     []string
}

type lockOp struct {
	kind string // Lock RLock Unlock RUnlock
	key  string
}

func lockOpOf(common *ssa.CallCommon) (string, bool) {
	if common.IsInvoke() {
		switch common.Method.Name() {
		case "Lock", "Unlock", "RLock", "RUnlock":
			// sync.Locker-like interface
			if n, ok := common.Value.Type().(*types.Named); ok && n.Obj().Pkg() != nil && n.Obj().Pkg().Path() == "sync" {
				return common.Method.Name(), true
			}
			if _, ok := common.Value.Type().Underlying().(*types.Interface); ok {
				return common.Method.Name(), true
			}
		}
		return "", false
	}
	fn := common.StaticCallee()
	if fn == nil {
		return "", false
	}
	switch fn.String() {
	case "(*sync.Mutex).Lock", "(*sync.RWMutex).Lock":
		return "Lock", true
	case "(*sync.Mutex).Unlock", "(*sync.RWMutex).Unlock":
		return "Unlock", true
	case "(*sync.RWMutex).RLock":
		return "RLock", true
	case "(*sync.RWMutex).RUnlock":
		return "RUnlock", true
	}
	return "", false
}

func lockKey(v ssa.Value) string {
	switch v := v.(type) {
	case *ssa.FieldAddr:
		st := v.X.Type().Underlying().(*types.Pointer).Elem().Underlying().(*types.Struct)
		return lockKey(v.X) + "." + st.Field(v.Field).Name()
	case *ssa.Field:
		st := v.X.Type().Underlying().(*types.Struct)
		return lockKey(v.X) + "." + st.Field(v.Field).Name()
	case *ssa.UnOp:
		if v.Op == token.MUL {
			return lockKey(v.X)
		}
	case *ssa.Parameter:
		return v.Name()
	case *ssa.FreeVar:
		return v.Name()
	case *ssa.Global:
		return v.Pkg.Pkg.Name() + "." + v.Name()
	case *ssa.Alloc:
		if v.Comment != "" {
			return v.Comment
		}
		return "alloc" + v.Name()
	case *ssa.MakeInterface:
		return lockKey(v.X)
	case *ssa.ChangeInterface:
		return lockKey(v.X)
	case *ssa.ChangeType:
		return lockKey(v.X)
	case *ssa.IndexAddr:
		return lockKey(v.X) + "[]"
	}
	return "val:" + v.Name()
}

// normalise aliases: the Cond's L of connStatus/streamState is their embedded RWMutex
func normKey(k string) string {
	if strings.HasSuffix(k, ".cond.L") {
		return strings.TrimSuffix(k, ".cond.L") + ".RWMutex"
	}
	return k
}

func hasLockOps(fn *ssa.Function) int {
	n := 0
	for _, b := range fn.Blocks {
		for _, in := range b.Instrs {
			switch in := in.(type) {
			case *ssa.Call:
				if k, ok := lockOpOf(&in.Call); ok && (k == "Lock" || k == "RLock") {
					n++
				}
			case *ssa.Defer:
				if k, ok := lockOpOf(&in.Call); ok && (k == "Lock" || k == "RLock") {
					n++
				}
			}
		}
	}
	return n
}

type ucPath struct {
	env     map[ssa.Value]*Term
	tuples  map[ssa.Value][]*Term
	mem     map[string]*Term
	held    map[string]int
	defers  []ssa.CallCommon
	deferFn []*ssa.Function
	visits  map[*ssa.BasicBlock]int
	first   map[*ssa.BasicBlock]map[string]int
	pc      []*Term
	trail   []int
	nsym    *int
}

func (p *ucPath) clone() *ucPath {
	q := &ucPath{env: map[ssa.Value]*Term{}, tuples: map[ssa.Value][]*Term{}, mem: map[string]*Term{}, held: map[string]int{}, visits: map[*ssa.BasicBlock]int{}, first: map[*ssa.BasicBlock]map[string]int{}, nsym: p.nsym}
	for k, v := range p.env {
		q.env[k] = v
	}
	for k, v := range p.tuples {
		q.tuples[k] = v
	}
	for k, v := range p.mem {
		q.mem[k] = v
	}
	for k, v := range p.held {
		q.held[k] = v
	}
	for k, v := range p.visits {
		q.visits[k] = v
	}
	for k, v := range p.first {
		q.first[k] = v
	}
	q.defers = append([]ssa.CallCommon{}, p.defers...)
	q.deferFn = append([]*ssa.Function{}, p.deferFn...)
	q.pc = append([]*Term{}, p.pc...)
	q.trail = append([]int{}, p.trail...)
	return q
}

func sortOfType(t types.Type) (Sort, bool) {
	if w, _, ok := isInt(t); ok {
		return bvSort(w), true
	}
	if isBoolT(t) {
		return boolSort, true
	}
	return Sort{}, false
}

func (p *ucPath) fresh(s Sort, hint string) *Term {
	*p.nsym++
	return mkVar(s, fmt.Sprintf("u%d_%s", *p.nsym, sanitize(hint)))
}

func (p *ucPath) val(v ssa.Value) *Term {
	if c, ok := v.(*ssa.Const); ok {
		if c.Value == nil {
			return nil
		}
		if s, ok := sortOfType(c.Type()); ok {
			if s.K == SBool {
				return mkBool(c.Value.String() == "true")
			}
			return mkBV(s.W, uint64(c.Int64()))
		}
		return nil
	}
	if t, ok := p.env[v]; ok {
		return t
	}
	if s, ok := sortOfType(v.Type()); ok {
		t := p.fresh(s, v.Name())
		p.env[v] = t
		return t
	}
	return nil
}

func heldEq(a, b map[string]int) (string, bool) {
	keys := map[string]bool{}
	for k := range a {
		keys[k] = true
	}
	for k := range b {
		keys[k] = true
	}
	var ks []string
	for k := range keys {
		ks = append(ks, k)
	}
	sort.Strings(ks)
	for _, k := range ks {
		if a[k] != b[k] {
			return k, false
		}
	}
	return "", true
}

type ucRunner struct {
	prog     *ssa.Program
	solver   *Solver
	unwind   int
	maxPaths int
	summary  map[*ssa.Function]map[string]int // uniform net effect of closures (for defers / calls)
	stats    *ucStats
	fset     *token.FileSet
}

func (u *ucRunner) feasible(pc []*Term) string {
	u.solver.Reset()
	for _, c := range pc {
		u.solver.Assert(c)
	}
	u.stats.Queries++
	return u.solver.Check()
}

func (u *ucRunner) model(pc []*Term) map[string]uint64 {
	u.solver.Reset()
	var vars []*Term
	seen := map[string]bool{}
	var walk func(t *Term)
	walk = func(t *Term) {
		if t.Op == "var" && !seen[t.Name] {
			seen[t.Name] = true
			vars = append(vars, t)
		}
		for _, a := range t.Args {
			walk(a)
		}
	}
	for _, c := range pc {
		u.solver.Assert(c)
		walk(c)
	}
	_, m := u.solver.CheckModel(nil, vars)
	return m
}

func (u *ucRunner) applyLock(p *ucPath, kind, key string, fn *ssa.Function, pos token.Pos, out *[]ucFinding) {
	key = normKey(key)
	switch kind {
	case "Lock":
		p.held["W:"+key]++
	case "RLock":
		p.held["R:"+key]++
	case "Unlock":
		if p.held["W:"+key] <= 0 && fn.Parent() == nil {
			*out = append(*out, ucFinding{Fn: fn.String(), Kind: "unlock-unheld", Key: "W:" + key, Pos: u.fset.Position(pos).String(), Path: append([]int{}, p.trail...)})
			return
		}
		p.held["W:"+key]--
	case "RUnlock":
		if p.held["R:"+key] <= 0 && fn.Parent() == nil {
			*out = append(*out, ucFinding{Fn: fn.String(), Kind: "unlock-unheld", Key: "R:" + key, Pos: u.fset.Position(pos).String(), Path: append([]int{}, p.trail...)})
			return
		}
		p.held["R:"+key]--
	}
}

// netEffect returns the uniform net lock effect of fn (nil map = balanced), ok=false if paths differ.
func (u *ucRunner) analyse(fn *ssa.Function) ([]ucFinding, map[string]int, bool) {
	if fn.Blocks == nil {
		return nil, nil, true
	}
	var findings []ucFinding
	nsym := 0
	start := &ucPath{env: map[ssa.Value]*Term{}, tuples: map[ssa.Value][]*Term{}, mem: map[string]*Term{}, held: map[string]int{}, visits: map[*ssa.BasicBlock]int{}, first: map[*ssa.BasicBlock]map[string]int{}, nsym: &nsym}
	type item struct {
		p    *ucPath
		b    *ssa.BasicBlock
		prev *ssa.BasicBlock
	}
	work := []item{{start, fn.Blocks[0], nil}}
	paths := 0
	var exitEffects []map[string]int
	for len(work) > 0 {
		it := work[len(work)-1]
		work = work[:len(work)-1]
		p, b, prev := it.p, it.b, it.prev
	blockLoop:
		for {
			// loop header re-entry check
			if p.visits[b] > 0 {
				if first, ok := p.first[b]; ok {
					if k, same := heldEq(first, p.held); !same {
						if u.feasible(p.pc) != "unsat" {
							findings = append(findings, ucFinding{Fn: fn.String(), Kind: "loop-imbalance", Key: k, Pos: u.fset.Position(firstPos(b)).String(), Path: append([]int{}, p.trail...), Model: u.model(p.pc)})
						}
						break blockLoop
					}
				}
			}
			if p.visits[b] >= u.unwind {
				break blockLoop // bounded unwinding: this path is cut here (outside the claim)
			}
			if p.visits[b] == 0 {
				h := map[string]int{}
				for k, v := range p.held {
					h[k] = v
				}
				p.first[b] = h
			}
			p.visits[b]++
			p.trail = append(p.trail, b.Index)
			var next *ssa.BasicBlock
			for _, in := range b.Instrs {
				switch in := in.(type) {
				case *ssa.Phi:
					if prev != nil {
						for i, pr := range b.Preds {
							if pr == prev {
								if t := p.val(in.Edges[i]); t != nil {
									p.env[in] = t
								} else {
									delete(p.env, in)
								}
							}
						}
					}
				case *ssa.BinOp:
					x, y := p.val(in.X), p.val(in.Y)
					if x != nil && y != nil && x.S == y.S {
						if t := ucBinop(in, x, y); t != nil {
							p.env[in] = t
						}
					}
				case *ssa.UnOp:
					switch in.Op {
					case token.NOT:
						if x := p.val(in.X); x != nil {
							p.env[in] = tNot(x)
						}
					case token.MUL:
						if s, ok := sortOfType(in.Type()); ok {
							k := lockKey(in.X)
							if t, ok := p.mem[k]; ok && t.S == s {
								p.env[in] = t
							} else {
								t := p.fresh(s, "load_"+in.Name())
								p.mem[k] = t
								p.env[in] = t
							}
						}
					}
				case *ssa.Store:
					k := lockKey(in.Addr)
					if t := p.val(in.Val); t != nil {
						p.mem[k] = t
					} else {
						delete(p.mem, k)
					}
				case *ssa.Convert:
					if x := p.val(in.X); x != nil {
						if wd, _, ok := isInt(in.Type()); ok && x.S.K == SBV {
							_, signed, _ := isInt(in.X.Type())
							p.env[in] = tBVResize(x, wd, signed)
						}
					}
				case *ssa.ChangeType:
					if x := p.val(in.X); x != nil {
						p.env[in] = x
					}
				case *ssa.Extract:
					if ts, ok := p.tuples[in.Tuple]; ok && in.Index < len(ts) && ts[in.Index] != nil {
						p.env[in] = ts[in.Index]
					}
				case *ssa.Call:
					if kind, ok := lockOpOf(&in.Call); ok {
						var recv ssa.Value
						if in.Call.IsInvoke() {
							recv = in.Call.Value
						} else {
							recv = in.Call.Args[0]
						}
						u.applyLock(p, kind, lockKey(recv), fn, in.Pos(), &findings)
					} else {
						// closure called directly with a known uniform effect
						if mc, ok := in.Call.Value.(*ssa.MakeClosure); ok {
							if eff, ok := u.summary[mc.Fn.(*ssa.Function)]; ok {
								for k, v := range eff {
									p.held[k] += v
								}
							}
						}
						// any call may change memory
						p.mem = map[string]*Term{}
					}
					// result symbols are created lazily by val(); tuples get per-index symbols
					if tt, ok := in.Type().(*types.Tuple); ok {
						ts := make([]*Term, tt.Len())
						for i := 0; i < tt.Len(); i++ {
							if s, ok := sortOfType(tt.At(i).Type()); ok {
								ts[i] = p.fresh(s, in.Name())
							}
						}
						p.tuples[in] = ts
					}
				case *ssa.Defer:
					p.defers = append(p.defers, in.Call)
				case *ssa.Lookup, *ssa.TypeAssert, *ssa.Next, *ssa.Select:
					v := in.(ssa.Value)
					if tt, ok := v.Type().(*types.Tuple); ok {
						ts := make([]*Term, tt.Len())
						for i := 0; i < tt.Len(); i++ {
							if s, ok := sortOfType(tt.At(i).Type()); ok {
								ts[i] = p.fresh(s, v.Name())
							}
						}
						p.tuples[v] = ts
					}
				case *ssa.If:
					c := p.val(in.Cond)
					var tf, ff string
					if c == nil {
						c = p.fresh(boolSort, "cond")
					}
					if c.Const {
						if c.Bool() {
							next = b.Succs[0]
						} else {
							next = b.Succs[1]
						}
						break
					}
					tf = u.feasible(append(append([]*Term{}, p.pc...), c))
					ff = u.feasible(append(append([]*Term{}, p.pc...), tNot(c)))
					if tf == "unknown" || ff == "unknown" {
						u.stats.Incon = append(u.stats.Incon, "solver unknown in "+fn.String())
					}
					if tf != "unsat" && ff != "unsat" {
						q := p.clone()
						q.pc = append(q.pc, tNot(c))
						work = append(work, item{q, b.Succs[1], b})
						p.pc = append(p.pc, c)
						next = b.Succs[0]
					} else if tf != "unsat" {
						p.pc = append(p.pc, c)
						next = b.Succs[0]
					} else if ff != "unsat" {
						p.pc = append(p.pc, tNot(c))
						next = b.Succs[1]
					} else {
						break blockLoop
					}
				case *ssa.Jump:
					next = b.Succs[0]
				case *ssa.RunDefers:
					u.runDefers(p, fn, &findings)
				case *ssa.Return, *ssa.Panic:
					if _, isPanic := in.(*ssa.Panic); isPanic {
						u.runDefers(p, fn, &findings)
					}
					paths++
					eff := map[string]int{}
					leak := ""
					var ks []string
					for k := range p.held {
						ks = append(ks, k)
					}
					sort.Strings(ks)
					for _, k := range ks {
						if p.held[k] != 0 {
							eff[k] = p.held[k]
							if p.held[k] > 0 && leak == "" {
								leak = k
							}
						}
					}
					exitEffects = append(exitEffects, eff)
					if leak != "" && fn.Parent() == nil {
						findings = append(findings, ucFinding{Fn: fn.String(), Kind: "leak-at-exit", Key: leak, Pos: u.fset.Position(in.Pos()).String(), Path: append([]int{}, p.trail...), Model: u.model(p.pc)})
					}
					break blockLoop
				}
			}
			if next == nil {
				break
			}
			prev, b = b, next
			if paths > u.maxPaths || len(work) > 4*u.maxPaths {
				u.stats.Incon = append(u.stats.Incon, "path limit in "+fn.String())
				work = nil
				break
			}
		}
	}
	u.stats.Paths += paths
	// uniform effect?
	uniform := true
	var eff map[string]int
	for i, e := range exitEffects {
		if i == 0 {
			eff = e
			continue
		}
		if _, same := heldEq(eff, e); !same {
			uniform = false
		}
	}
	if fn.Parent() != nil && !uniform {
		// a closure whose net effect depends on the path: report leaks at its exits
		for _, e := range exitEffects {
			for k, v := range e {
				if v > 0 {
					findings = append(findings, ucFinding{Fn: fn.String(), Kind: "leak-at-exit", Key: k, Pos: u.fset.Position(fn.Pos()).String()})
				}
			}
		}
	}
	return dedupFindings(findings), eff, uniform
}

func dedupFindings(in []ucFinding) []ucFinding {
	seen := map[string]bool{}
	var out []ucFinding
	for _, f := range in {
		k := f.Fn + "|" + f.Kind + "|" + f.Key + "|" + f.Pos
		if !seen[k] {
			seen[k] = true
			out = append(out, f)
		}
	}
	return out
}

func firstPos(b *ssa.BasicBlock) token.Pos {
	for _, in := range b.Instrs {
		if in.Pos() != token.NoPos {
			return in.Pos()
		}
	}
	return token.NoPos
}

func (u *ucRunner) runDefers(p *ucPath, fn *ssa.Function, out *[]ucFinding) {
	for i := len(p.defers) - 1; i >= 0; i-- {
		d := p.defers[i]
		if kind, ok := lockOpOf(&d); ok {
			var recv ssa.Value
			if d.IsInvoke() {
				recv = d.Value
			} else {
				recv = d.Args[0]
			}
			u.applyLock(p, kind, lockKey(recv), fn, d.Pos(), out)
			continue
		}
		if mc, ok := d.Value.(*ssa.MakeClosure); ok {
			if eff, ok := u.summary[mc.Fn.(*ssa.Function)]; ok {
				for k, v := range eff {
					p.held[k] += v
				}
			}
		}
	}
	p.defers = nil
}

func ucBinop(in *ssa.BinOp, x, y *Term) *Term {
	_, signed, _ := isInt(in.X.Type())
	if x.S.K == SBool {
		switch in.Op {
		case token.EQL:
			return tEq(x, y)
		case token.NEQ:
			return tNot(tEq(x, y))
		case token.LAND, token.AND:
			return tAnd(x, y)
		case token.LOR, token.OR:
			return tOr(x, y)
		}
		return nil
	}
	cmp := func(s, us string) *Term {
		if signed {
			return tBVCmp(s, x, y)
		}
		return tBVCmp(us, x, y)
	}
	switch in.Op {
	case token.EQL:
		return tEq(x, y)
	case token.NEQ:
		return tNot(tEq(x, y))
	case token.LSS:
		return cmp("bvslt", "bvult")
	case token.LEQ:
		return cmp("bvsle", "bvule")
	case token.GTR:
		return cmp("bvsgt", "bvugt")
	case token.GEQ:
		return cmp("bvsge", "bvuge")
	case token.ADD:
		return tBVBin("bvadd", x, y)
	case token.SUB:
		return tBVBin("bvsub", x, y)
	case token.AND:
		return tBVBin("bvand", x, y)
	case token.OR:
		return tBVBin("bvor", x, y)
	case token.XOR:
		return tBVBin("bvxor", x, y)
	}
	return nil
}

// runLockBalance analyses every function of the module that acquires a mutex.
func runLockBalance(prog *ssa.Program, solver *Solver, skip func(*ssa.Function) bool) *ucStats {
	st := &ucStats{}
	u := &ucRunner{prog: prog, solver: solver, unwind: 2, maxPaths: 4000, summary: map[*ssa.Function]map[string]int{}, stats: st, fset: prog.Fset}
	var fns []*ssa.Function
	var collect func(fn *ssa.Function)
	collect = func(fn *ssa.Function) {
		for _, a := range fn.AnonFuncs {
			collect(a)
		}
		fns = append(fns, fn) // closures before their parents
	}
	var roots []*ssa.Function
	for _, pkg := range prog.AllPackages() {
		if !strings.HasPrefix(pkg.Pkg.Path(), modPath) {
			continue
		}
		for _, m := range pkg.Members {
			switch m := m.(type) {
			case *ssa.Function:
				roots = append(roots, m)
			case *ssa.Type:
				for _, t := range []types.Type{m.Type(), types.NewPointer(m.Type())} {
					ms := prog.MethodSets.MethodSet(t)
					for i := 0; i < ms.Len(); i++ {
						if f := prog.MethodValue(ms.At(i)); f != nil && f.Pkg == pkg && f.Synthetic == "" {
							roots = append(roots, f)
						}
					}
				}
			}
		}
	}
	seen := map[*ssa.Function]bool{}
	sort.Slice(roots, func(i, j int) bool { return roots[i].String() < roots[j].String() })
	for _, r := range roots {
		if seen[r] || skip(r) {
			continue
		}
		seen[r] = true
		collect(r)
	}
	for _, fn := range fns {
		n := hasLockOps(fn)
		uses := n > 0
		if !uses {
			// also analyse closures containing unlocks only (they give a summary to their users)
			for _, b := range fn.Blocks {
				for _, in := range b.Instrs {
					if c, ok := in.(*ssa.Call); ok {
						if _, ok := lockOpOf(&c.Call); ok {
							uses = true
						}
					}
					if d, ok := in.(*ssa.Defer); ok {
						if _, ok := lockOpOf(&d.Call); ok {
							uses = true
						}
					}
				}
			}
		}
		if !uses {
			continue
		}
		st.Functions++
		st.Sites += n
		st.Names = append(st.Names, fn.String())
		fs, eff, uniform := u.analyse(fn)
		if fn.Parent() != nil && uniform && len(eff) > 0 {
			u.summary[fn] = eff
			// a closure with a non-zero uniform effect is not itself a finding; its users account for it
			var keep []ucFinding
			for _, f := range fs {
				if f.Kind != "leak-at-exit" && f.Kind != "unlock-unheld" {
					keep = append(keep, f)
				}
			}
			fs = keep
		}
		st.Findings = append(st.Findings, fs...)
	}
	return st
}
