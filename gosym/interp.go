package main

import (
	"fmt"
	"go/constant"
	"go/token"
	"go/types"
	"slices"
	"strings"

	"golang.org/x/tools/go/ssa"
)

type deferred struct {
	fn    Value
	args  []Value
	instr *ssa.Defer
	tail  *deferred
}

type frame struct {
	r                *Run
	caller           *frame
	fn               *ssa.Function
	block, prevBlock *ssa.BasicBlock
	env              map[ssa.Value]Value
	locals           []Value
	defers           *deferred
	result           Value
	panicking        bool
	panicV           interface{}
	phitemps         []Value
	curPos           token.Pos
}

// targetPanic is a Go-level panic in the program under analysis.
type targetPanic struct {
	v   Value // interface value passed to panic
	msg string
	pos string
}

func (r *Run) runtimeErr(msg string) Value {
	return Iface{T: runtimeErrType, V: constStr("runtime error: " + msg)}
}

// marker types for intrinsic-owned dynamic types
var runtimeErrType = types.NewNamed(types.NewTypeName(token.NoPos, nil, "runtime.Error#vf", nil), types.NewStruct(nil, nil), nil)
var errObjType = types.NewNamed(types.NewTypeName(token.NoPos, nil, "errors.errorObj#vf", nil), types.NewStruct(nil, nil), nil)

func (fr *frame) get(key ssa.Value) Value {
	switch key := key.(type) {
	case nil:
		return nil
	case *ssa.Function:
		return key
	case *ssa.Builtin:
		return key
	case *ssa.Const:
		return fr.r.constValue(key)
	case *ssa.Global:
		return fr.r.globalAddr(key)
	}
	if v, ok := fr.env[key]; ok {
		return v
	}
	panic(fmt.Sprintf("get: no value for %T: %v in %s", key, key.Name(), fr.fn))
}

func (r *Run) constValue(c *ssa.Const) Value {
	if c.Value == nil {
		return zero(c.Type())
	}
	t := c.Type().Underlying()
	if b, ok := t.(*types.Basic); ok {
		if w, _, ok := isInt(b); ok {
			if i, ok := constant.Int64Val(constant.ToInt(c.Value)); ok {
				return mkBV(w, uint64(i))
			}
			u, _ := constant.Uint64Val(constant.ToInt(c.Value))
			return mkBV(w, u)
		}
		switch {
		case b.Info()&types.IsBoolean != 0:
			return mkBool(constant.BoolVal(c.Value))
		case b.Info()&types.IsString != 0:
			if c.Value.Kind() == constant.String {
				return constStr(constant.StringVal(c.Value))
			}
			return constStr(string(rune(c.Int64())))
		case b.Info()&types.IsFloat != 0:
			f, _ := constant.Float64Val(c.Value)
			return F64(f)
		}
	}
	panic(unsupported("constant of type " + c.Type().String()))
}

// ---------------- globals and package init

func (r *Run) globalAddr(g *ssa.Global) *Value {
	if p, ok := r.globals[g]; ok {
		return p
	}
	r.ensureInit(g.Pkg)
	if p, ok := r.globals[g]; ok {
		return p
	}
	cell := new(Value)
	elemT := g.Type().(*types.Pointer).Elem()
	if g.Pkg != nil && !r.m.wantInit(g.Pkg) && g.Name() != "init$guard" {
		// foreign package without interpreted init: opaque for interface/pointer typed globals
		*cell = r.opaqueGlobal(g, elemT)
	} else {
		*cell = zero(elemT)
	}
	r.globals[g] = cell
	return cell
}

func (r *Run) opaqueGlobal(g *ssa.Global, t types.Type) Value {
	name := g.Pkg.Pkg.Path() + "." + g.Name()
	switch t.Underlying().(type) {
	case *types.Interface:
		if types.Implements(t, errorIface) || t.String() == "error" {
			return Iface{T: errObjType, V: &Opaque{Kind: "err", Name: name, Data: &errObj{msg: constStr(name)}}}
		}
		return Iface{T: errObjType, V: &Opaque{Kind: "opaque", Name: name}}
	case *types.Pointer:
		p := new(Value)
		*p = &Opaque{Kind: "opaque", Name: name}
		return p
	}
	return Poison{"uninitialised foreign global " + name}
}

var errorIface = types.Universe.Lookup("error").Type().Underlying().(*types.Interface)

func (m *Machine) wantInit(p *ssa.Package) bool {
	path := p.Pkg.Path()
	if strings.HasPrefix(path, m.modPath) {
		return true
	}
	return m.initOK[path]
}

func (r *Run) ensureInit(p *ssa.Package) {
	if p == nil || r.inited[p] {
		return
	}
	r.inited[p] = true
	if !r.m.wantInit(p) {
		return
	}
	// allocate all globals first
	for _, mem := range p.Members {
		if g, ok := mem.(*ssa.Global); ok {
			if _, ok := r.globals[g]; !ok {
				cell := new(Value)
				*cell = zero(g.Type().(*types.Pointer).Elem())
				r.globals[g] = cell
			}
		}
	}
	initFn := p.Func("init")
	if initFn == nil || initFn.Blocks == nil {
		return
	}
	r.inInit++
	defer func() { r.inInit-- }()
	r.callSSA(nil, token.NoPos, initFn, nil, nil)
}

// ---------------- defers

func (fr *frame) runDefer(d *deferred) {
	var ok bool
	defer func() {
		if !ok {
			p := recover()
			switch p.(type) {
			case abortRun, pathEnd, unsupportedErr, fatalErr:
				panic(p)
			}
			fr.panicking = true
			fr.panicV = p
		}
	}()
	fr.r.call(fr, d.instr.Pos(), d.fn, d.args)
	ok = true
}

func (fr *frame) runDefers() {
	for d := fr.defers; d != nil; d = d.tail {
		fr.defers = d.tail
		fr.runDefer(d)
	}
	fr.defers = nil
	if fr.panicking {
		panic(fr.panicV)
	}
}

// ---------------- calls

func (r *Run) prepareCall(fr *frame, call *ssa.CallCommon) (fn Value, args []Value) {
	v := fr.get(call.Value)
	if call.Method == nil {
		fn = v
	} else {
		recv, ok := v.(Iface)
		if !ok {
			if p, isP := v.(Poison); isP {
				panic(unsupported("invoke on poison: " + p.Why))
			}
			panic(fmt.Sprintf("invoke on non-interface %T", v))
		}
		if recv.T == nil {
			panic(targetPanic{v: r.runtimeErr("invalid memory address or nil pointer dereference"), msg: "method " + call.Method.Name() + " invoked on nil interface"})
		}
		if recv.T == errObjType || recv.T == runtimeErrType || recv.T == flateReaderType {
			fn = &fakeMethod{recv: recv, name: call.Method.Name()}
		} else {
			f := r.m.prog.LookupMethod(recv.T, call.Method.Pkg(), call.Method.Name())
			if f == nil {
				panic(fmt.Sprintf("method set for dynamic type %v does not contain %s", recv.T, call.Method))
			}
			fn = f
			args = append(args, recv.V)
		}
	}
	for _, a := range call.Args {
		args = append(args, fr.get(a))
	}
	return
}

type fakeMethod struct {
	recv Iface
	name string
}

func (r *Run) call(caller *frame, pos token.Pos, fn Value, args []Value) Value {
	switch fn := fn.(type) {
	case *ssa.Function:
		if fn == nil {
			panic(targetPanic{v: r.runtimeErr("invalid memory address or nil pointer dereference"), msg: "call of nil func"})
		}
		return r.callSSA(caller, pos, fn, args, nil)
	case *Closure:
		if fn == nil {
			panic(targetPanic{v: r.runtimeErr("invalid memory address or nil pointer dereference"), msg: "call of nil func"})
		}
		return r.callSSA(caller, pos, fn.Fn, args, fn.Env)
	case *ssa.Builtin:
		return r.callBuiltin(caller, pos, fn, args)
	case *fakeMethod:
		if fn.recv.T == flateReaderType {
			fr := fn.recv.V.(*Opaque).Data.(*flateR)
			switch fn.name {
			case "Read":
				return r.flateRead(caller, fr, args[0].(Slice))
			case "Close":
				return Iface{}
			}
			panic(unsupported("flate stub reader method " + fn.name))
		}
		return r.callFakeMethod(fn, args)
	case *nativeFunc:
		return fn.f(r, caller, args)
	case Poison:
		panic(unsupported("call of poison func: " + fn.Why))
	case nil:
		panic(targetPanic{v: r.runtimeErr("invalid memory address or nil pointer dereference"), msg: "call of nil func"})
	}
	panic(fmt.Sprintf("cannot call %T", fn))
}

// nativeFunc is a function value implemented by the executor (e.g. context cancel funcs from intrinsics).
type nativeFunc struct {
	name string
	f    func(r *Run, caller *frame, args []Value) Value
}

func fnKey(fn *ssa.Function) string {
	if o := fn.Origin(); o != nil {
		return o.String()
	}
	return fn.String()
}

func (r *Run) callSSA(caller *frame, pos token.Pos, fn *ssa.Function, args []Value, env []Value) Value {
	key := fnKey(fn)
	if fn.Parent() == nil {
		if in, ok := intrinsics[key]; ok {
			return in(r, caller, fn, args)
		}
		if strings.HasPrefix(key, vfPrefix) {
			return r.callVF(caller, pos, fn, args)
		}
		if st, ok := r.stubs[key]; ok {
			r.funcsHit["stub:"+key] = true
			return r.call(caller, pos, st, args)
		}
	}
	if fn.Blocks == nil {
		if r.inInit > 0 {
			return poisonResult(fn, "no body: "+key)
		}
		panic(unsupported("no code for function: " + key))
	}
	if r.inInit > 0 && caller != nil && caller.fn.Name() == "init" && caller.fn.Parent() == nil && caller.fn.Signature.Recv() == nil {
		// call directly from a package initialiser
		if fn.Name() == "init" && fn.Pkg != nil && fn == fn.Pkg.Func("init") {
			r.ensureInit(fn.Pkg)
			return nil
		}
		return r.callTolerant(caller, pos, fn, args, env)
	}
	return r.callSSA2(caller, pos, fn, args, env)
}

func poisonResult(fn *ssa.Function, why string) Value {
	res := fn.Signature.Results()
	switch res.Len() {
	case 0:
		return nil
	case 1:
		return Poison{why}
	}
	t := make(Tuple, res.Len())
	for i := range t {
		t[i] = Poison{why}
	}
	return t
}

// callTolerant: during package init, an unsupported callee yields poison instead of ending the run.
func (r *Run) callTolerant(caller *frame, pos token.Pos, fn *ssa.Function, args []Value, env []Value) (res Value) {
	defer func() {
		if p := recover(); p != nil {
			switch e := p.(type) {
			case unsupportedErr:
				res = poisonResult(fn, e.msg)
				return
			case targetPanic:
				res = poisonResult(fn, "panic in init: "+e.msg)
				return
			case string:
				res = poisonResult(fn, "interp: "+e)
				return
			case error:
				if _, isFatal := p.(abortRun); !isFatal {
					res = poisonResult(fn, "interp: "+e.Error())
					return
				}
			}
			panic(p)
		}
	}()
	return r.callSSA2(caller, pos, fn, args, env)
}

func (r *Run) callSSA2(caller *frame, pos token.Pos, fn *ssa.Function, args []Value, env []Value) Value {
	if fn.TypeParams().Len() > 0 && len(fn.TypeArgs()) == 0 {
		panic(unsupported("uninstantiated generic function " + fn.String()))
	}
	r.depth++
	if r.depth > r.m.opts.MaxDepth {
		panic(unsupported("call depth exceeded at " + fn.String()))
	}
	defer func() { r.depth-- }()
	if fn.Pkg != nil && strings.HasPrefix(fn.Pkg.Pkg.Path(), r.m.modPath) && !strings.Contains(fn.Name(), "zz") {
		r.funcsHit[fn.String()] = true
	}
	fr := &frame{r: r, caller: caller, fn: fn}
	fr.env = make(map[ssa.Value]Value)
	fr.block = fn.Blocks[0]
	fr.locals = make([]Value, len(fn.Locals))
	for i, l := range fn.Locals {
		fr.locals[i] = zero(l.Type().(*types.Pointer).Elem())
		fr.env[l] = &fr.locals[i]
	}
	if len(args) != len(fn.Params) {
		panic(fmt.Sprintf("arg count mismatch calling %s: %d vs %d", fn, len(args), len(fn.Params)))
	}
	for i, p := range fn.Params {
		fr.env[p] = args[i]
	}
	for i, fv := range fn.FreeVars {
		fr.env[fv] = env[i]
	}
	for fr.block != nil {
		fr.runFrame()
	}
	return fr.result
}

func (fr *frame) runFrame() {
	defer func() {
		if fr.block == nil {
			return // normal return
		}
		p := recover()
		switch p.(type) {
		case abortRun, pathEnd, unsupportedErr, fatalErr:
			panic(p)
		case targetPanic:
		default:
			// interpreter bug or Go runtime error inside the interpreter
			panic(p)
		}
		fr.panicking = true
		fr.panicV = p
		fr.runDefers()
		fr.block = fr.fn.Recover
		if fr.block == nil {
			// recovered, no named results: return zero values
			fr.result = zero(fr.fn.Signature.Results())
			if fr.fn.Signature.Results().Len() == 0 {
				fr.result = nil
			}
		}
	}()
	for {
		nonPhis := fr.executePhis()
		for _, instr := range nonPhis {
			fr.r.steps++
			if fr.r.steps > fr.r.m.opts.MaxSteps {
				panic(unsupported("step limit exceeded (unwinding bound) in " + fr.fn.String()))
			}
			if fr.r.m.opts.Trace {
				if v, ok := instr.(ssa.Value); ok {
					fmt.Printf("  [%s] %s = %s\n", fr.fn.Name(), v.Name(), instr)
				} else {
					fmt.Printf("  [%s] %s\n", fr.fn.Name(), instr)
				}
			}
			if p := instr.Pos(); p != token.NoPos {
				fr.curPos = p
			}
			if fr.r.inInit > 0 && fr.fn.Name() == "init" && fr.fn.Parent() == nil && fr.fn.Signature.Recv() == nil {
				if fr.visitInstrTolerant(instr) == kReturn {
					return
				}
				continue
			}
			if fr.visitInstr(instr) == kReturn {
				return
			}
		}
	}
}

func (fr *frame) executePhis() []ssa.Instruction {
	firstNonPhi := -1
	for i, instr := range fr.block.Instrs {
		if _, ok := instr.(*ssa.Phi); !ok {
			firstNonPhi = i
			break
		}
	}
	nonPhis := fr.block.Instrs[firstNonPhi:]
	if firstNonPhi > 0 {
		phis := fr.block.Instrs[:firstNonPhi]
		predIndex := slices.Index(fr.block.Preds, fr.prevBlock)
		fr.phitemps = fr.phitemps[:0]
		for _, phi := range phis {
			fr.phitemps = append(fr.phitemps, fr.get(phi.(*ssa.Phi).Edges[predIndex]))
		}
		for i, phi := range phis {
			fr.env[phi.(*ssa.Phi)] = fr.phitemps[i]
		}
	}
	return nonPhis
}

// visitInstrTolerant: inside a package initialiser an instruction that cannot be interpreted
// produces a poison value instead of ending the run.
func (fr *frame) visitInstrTolerant(instr ssa.Instruction) (k continuation) {
	defer func() {
		if p := recover(); p != nil {
			why := ""
			switch e := p.(type) {
			case unsupportedErr:
				why = e.msg
			case string:
				why = "interp: " + e
			case targetPanic:
				why = "panic in init: " + e.msg
			default:
				if err, ok := p.(error); ok {
					if _, isAbort := p.(abortRun); !isAbort {
						why = "interp: " + err.Error()
						break
					}
				}
				panic(p)
			}
			if v, ok := instr.(ssa.Value); ok {
				fr.env[v] = Poison{why}
			}
			switch instr.(type) {
			case *ssa.If, *ssa.Jump, *ssa.Return, *ssa.Panic:
				panic(unsupported("control flow on poison in init of " + fr.fn.Pkg.Pkg.Path() + ": " + why))
			}
			k = kNext
		}
	}()
	return fr.visitInstr(instr)
}

type continuation int

const (
	kNext continuation = iota
	kReturn
	kJump
)

func (r *Run) nilDeref(what string) targetPanic {
	return targetPanic{v: r.runtimeErr("invalid memory address or nil pointer dereference"), msg: what}
}

func (fr *frame) ptr(v Value, what string) *Value {
	p, ok := v.(*Value)
	if !ok {
		if po, isP := v.(Poison); isP {
			panic(unsupported("deref of poison: " + po.Why))
		}
		panic(fmt.Sprintf("%s: expected pointer, got %T at %s", what, v, fr.r.posStr(fr.curPos)))
	}
	if p == nil {
		panic(fr.r.nilDeref(what))
	}
	return p
}

func (fr *frame) visitInstr(instr ssa.Instruction) continuation {
	r := fr.r
	switch instr := instr.(type) {
	case *ssa.DebugRef:
	case *ssa.UnOp:
		fr.env[instr] = r.unop(fr, instr, fr.get(instr.X))
	case *ssa.BinOp:
		fr.env[instr] = r.binop(instr.Op, instr.X.Type(), fr.get(instr.X), fr.get(instr.Y))
	case *ssa.Call:
		fn, args := r.prepareCall(fr, &instr.Call)
		fr.env[instr] = r.call(fr, instr.Pos(), fn, args)
	case *ssa.ChangeInterface:
		fr.env[instr] = fr.get(instr.X)
	case *ssa.ChangeType:
		fr.env[instr] = fr.get(instr.X)
	case *ssa.Convert:
		fr.env[instr] = r.conv(instr.Type(), instr.X.Type(), fr.get(instr.X))
	case *ssa.SliceToArrayPointer:
		x := fr.get(instr.X).(Slice)
		n := int(instr.Type().Underlying().(*types.Pointer).Elem().Underlying().(*types.Array).Len())
		if len(x.S) < n {
			panic(targetPanic{v: r.runtimeErr("cannot convert slice to array pointer: length too short")})
		}
		if x.S == nil {
			fr.env[instr] = (*Value)(nil)
		} else {
			// arrays are stored as Array slots; a pointer into a slice's backing store cannot alias
			// an Array value in this memory model
			panic(unsupported("SliceToArrayPointer"))
		}
	case *ssa.MakeInterface:
		v := fr.get(instr.X)
		fr.env[instr] = Iface{T: instr.X.Type(), V: copyVal(v)}
	case *ssa.Extract:
		t := fr.get(instr.Tuple)
		if p, ok := t.(Poison); ok {
			fr.env[instr] = p
		} else {
			fr.env[instr] = t.(Tuple)[instr.Index]
		}
	case *ssa.Slice:
		fr.env[instr] = r.sliceOp(fr, instr, fr.get(instr.X), fr.get(instr.Low), fr.get(instr.High), fr.get(instr.Max))
	case *ssa.Return:
		switch len(instr.Results) {
		case 0:
		case 1:
			fr.result = fr.get(instr.Results[0])
		default:
			var res Tuple
			for _, x := range instr.Results {
				res = append(res, fr.get(x))
			}
			fr.result = res
		}
		fr.block = nil
		return kReturn
	case *ssa.RunDefers:
		fr.runDefers()
	case *ssa.Panic:
		v := fr.get(instr.X)
		panic(targetPanic{v: v, msg: "explicit panic", pos: r.posStr(instr.Pos())})
	case *ssa.Send:
		r.chanSend(fr.get(instr.Chan).(*ChanObj), copyVal(fr.get(instr.X)))
	case *ssa.Store:
		if ref, ok := fr.get(instr.Addr).(*SymRef); ok {
			v := fr.get(instr.Val).(*Term)
			for i := range ref.cells {
				ref.cells[i] = tIte(tEq(ref.idx, mkBV(ref.idx.S.W, uint64(i))), v, ref.cells[i].(*Term))
			}
			break
		}
		p := fr.ptr(fr.get(instr.Addr), "store")
		storeInto(p, fr.get(instr.Val))
	case *ssa.If:
		c := fr.get(instr.Cond)
		ct, ok := c.(*Term)
		if !ok {
			if po, isP := c.(Poison); isP {
				panic(unsupported("branch on poison: " + po.Why))
			}
			panic(fmt.Sprintf("If on %T", c))
		}
		succ := 1
		if r.branch(ct) {
			succ = 0
		}
		fr.prevBlock, fr.block = fr.block, fr.block.Succs[succ]
		return kJump
	case *ssa.Jump:
		fr.prevBlock, fr.block = fr.block, fr.block.Succs[0]
		return kJump
	case *ssa.Defer:
		fn, args := r.prepareCall(fr, &instr.Call)
		if instr.DeferStack != nil {
			panic(unsupported("defer stack (range-over-func)"))
		}
		fr.defers = &deferred{fn: fn, args: args, instr: instr, tail: fr.defers}
	case *ssa.Go:
		fn, args := r.prepareCall(fr, &instr.Call)
		r.goCall(fn, args, fnName(fn))
	case *ssa.MakeChan:
		sz := r.concIntT(fr.get(instr.Size), instr.Size.Type(), "chan size")
		elemT := instr.Type().Underlying().(*types.Chan).Elem()
		fr.env[instr] = &ChanObj{cap: int(sz), elemZero: func() Value { return zero(elemT) }, name: r.posStr(instr.Pos())}
	case *ssa.Alloc:
		var addr *Value
		if instr.Heap {
			addr = new(Value)
			fr.env[instr] = addr
		} else {
			addr = fr.env[instr].(*Value)
		}
		*addr = zero(instr.Type().(*types.Pointer).Elem())
	case *ssa.MakeSlice:
		ln := r.concIntT(fr.get(instr.Len), instr.Len.Type(), "make len")
		cp := r.concIntT(fr.get(instr.Cap), instr.Cap.Type(), "make cap")
		if ln < 0 || cp < ln {
			panic(targetPanic{v: r.runtimeErr("makeslice: len out of range")})
		}
		if cp > 1<<23 {
			panic(unsupported("huge make"))
		}
		s := make([]Value, cp)
		et := instr.Type().Underlying().(*types.Slice).Elem()
		for i := range s {
			s[i] = zero(et)
		}
		fr.env[instr] = Slice{S: s[:ln]}
	case *ssa.MakeMap:
		mt := instr.Type().Underlying().(*types.Map)
		fr.env[instr] = &MapObj{KeyT: mt.Key(), ValT: mt.Elem()}
	case *ssa.Range:
		fr.env[instr] = r.rangeIter(fr.get(instr.X), instr.X.Type())
	case *ssa.Next:
		fr.env[instr] = fr.get(instr.Iter).(iterator).next(r)
	case *ssa.FieldAddr:
		p := fr.ptr(fr.get(instr.X), "field address")
		s, ok := (*p).(Struct)
		if !ok {
			if _, isOp := (*p).(*Opaque); isOp {
				panic(unsupported("field of opaque object"))
			}
			panic(fmt.Sprintf("FieldAddr of %T at %s", *p, r.posStr(instr.Pos())))
		}
		fr.env[instr] = &s[instr.Field]
	case *ssa.Field:
		x := fr.get(instr.X)
		if po, ok := x.(Poison); ok {
			fr.env[instr] = po
		} else {
			fr.env[instr] = x.(Struct)[instr.Field]
		}
	case *ssa.IndexAddr:
		x := fr.get(instr.X)
		idx := fr.get(instr.Index).(*Term)
		switch x := x.(type) {
		case Slice:
			if x.SymLen != nil {
				panic(unsupported("indexing an opaque symbolic-length slice"))
			}
			if ref := r.symRef(instr, x.S, idx); ref != nil {
				fr.env[instr] = ref
				break
			}
			i := r.boundedIndex(idx, len(x.S), instr.Index.Type(), "index")
			fr.env[instr] = &x.S[i]
		case *Value:
			if x == nil {
				panic(r.nilDeref("index of nil array pointer"))
			}
			a := (*x).(Array)
			if ref := r.symRef(instr, a, idx); ref != nil {
				fr.env[instr] = ref
				break
			}
			i := r.boundedIndex(idx, len(a), instr.Index.Type(), "index")
			fr.env[instr] = &a[i]
		default:
			panic(fmt.Sprintf("IndexAddr on %T", x))
		}
	case *ssa.Index:
		x := fr.get(instr.X)
		idx := fr.get(instr.Index).(*Term)
		switch x := x.(type) {
		case Array:
			fr.env[instr] = r.readIndex(x, idx, instr.Index.Type())
		case Str:
			fr.env[instr] = r.strIndex(x, idx, instr.Index.Type())
		default:
			panic(fmt.Sprintf("Index on %T", x))
		}
	case *ssa.Lookup:
		fr.env[instr] = r.lookup(instr, fr.get(instr.X), fr.get(instr.Index))
	case *ssa.MapUpdate:
		m := fr.get(instr.Map).(*MapObj)
		if m == nil {
			panic(targetPanic{v: r.runtimeErr("assignment to entry in nil map")})
		}
		r.mapInsert(m, copyVal(fr.get(instr.Key)), copyVal(fr.get(instr.Value)))
	case *ssa.TypeAssert:
		fr.env[instr] = r.typeAssert(instr, fr.get(instr.X))
	case *ssa.MakeClosure:
		var bindings []Value
		for _, b := range instr.Bindings {
			bindings = append(bindings, fr.get(b))
		}
		fr.env[instr] = &Closure{instr.Fn.(*ssa.Function), bindings}
	case *ssa.Select:
		fr.env[instr] = r.selectInstr(fr, instr)
	default:
		panic(unsupported(fmt.Sprintf("instruction %T", instr)))
	}
	return kNext
}

func fnName(fn Value) string {
	switch f := fn.(type) {
	case *ssa.Function:
		return f.String()
	case *Closure:
		return f.Fn.String()
	}
	return fmt.Sprintf("%T", fn)
}

func (r *Run) goCall(fn Value, args []Value, name string) {
	r.sched.spawn(name, func() {
		defer func() {
			if p := recover(); p != nil {
				if tp, ok := p.(targetPanic); ok {
					panic(escapedPanic{tp, name})
				}
				panic(p)
			}
		}()
		r.call(nil, token.NoPos, fn, args)
	})
}

type escapedPanic struct {
	tp targetPanic
	in string
}

// concInt makes an integer value concrete (forking over feasible values).
func (r *Run) concInt(v Value, what string) int64 {
	t, ok := v.(*Term)
	if !ok {
		if v == nil {
			return 0
		}
		panic(fmt.Sprintf("concInt on %T", v))
	}
	c := r.concretize(t, what)
	return c.Signed()
}

func (r *Run) concIntT(v Value, t types.Type, what string) int64 {
	tm, ok := v.(*Term)
	if !ok {
		return r.concInt(v, what)
	}
	c := r.concretize(tm, what)
	if _, signed, ok := isInt(t); ok && !signed {
		return int64(c.V)
	}
	return c.Signed()
}

// boundedIndex: emits the bounds check (a failing check is a runtime panic branch) and makes idx concrete.
func (r *Run) boundedIndex(idx *Term, n int, idxT types.Type, what string) int {
	w := idx.S.W
	_, signed, _ := isInt(idxT)
	var inb *Term
	if signed {
		inb = tAnd(tBVCmp("bvsge", idx, mkBV(w, 0)), tBVCmp("bvslt", idx, mkBV(w, uint64(n))))
	} else {
		inb = tBVCmp("bvult", idx, mkBV(w, uint64(n)))
	}
	if w < 64 && n >= 1<<uint(w) && !signed {
		inb = tTrue
	}
	if !r.branch(inb) {
		panic(targetPanic{v: r.runtimeErr(fmt.Sprintf("index out of range [%s] with length %d", idx.String(), n)), msg: "index out of range"})
	}
	c := r.concretize(idx, what)
	return int(c.V)
}

// SymRef is the address of cells[idx] for a symbolic idx (scalar cells only; used by loads and stores).
type SymRef struct {
	cells []Value
	idx   *Term
}

// symRef returns a symbolic element reference when idx is symbolic, all cells are scalars of one sort,
// and the address is only loaded from / stored to. The bounds check is emitted here.
func (r *Run) symRef(instr *ssa.IndexAddr, cells []Value, idx *Term) *SymRef {
	if idx.Const || len(cells) == 0 || len(cells) > 512 {
		return nil
	}
	var sort0 Sort
	for i, c := range cells {
		t, ok := c.(*Term)
		if !ok {
			return nil
		}
		if i == 0 {
			sort0 = t.S
		} else if t.S != sort0 {
			return nil
		}
	}
	for _, ref := range *instr.Referrers() {
		switch u := ref.(type) {
		case *ssa.UnOp:
			if u.Op != token.MUL {
				return nil
			}
		case *ssa.Store:
			if u.Addr != instr {
				return nil
			}
		case *ssa.DebugRef:
		default:
			return nil
		}
	}
	w := idx.S.W
	_, signed, _ := isInt(instr.Index.Type())
	var inb *Term
	if signed {
		inb = tAnd(tBVCmp("bvsge", idx, mkBV(w, 0)), tBVCmp("bvslt", idx, mkBV(w, uint64(len(cells)))))
	} else {
		inb = tBVCmp("bvult", idx, mkBV(w, uint64(len(cells))))
	}
	if w < 64 && !signed && len(cells) >= 1<<uint(w) {
		inb = tTrue
	}
	if !r.branch(inb) {
		panic(targetPanic{v: r.runtimeErr("index out of range"), msg: "index out of range"})
	}
	return &SymRef{cells: cells, idx: idx}
}

func (ref *SymRef) load() Value {
	return iteChain(ref.cells, ref.idx)
}

func sameTerm(a, b *Term) bool {
	return a == b || (a.Const && b.Const && a.S == b.S && a.V == b.V)
}

// iteChain selects cells[idx]; runs of equal cells become one range test (idx <= hi).
func iteChain(cells []Value, idx *Term) *Term {
	w := idx.S.W
	n := len(cells)
	// run boundaries
	type run struct {
		hi int
		v  *Term
	}
	var runs []run
	for i := 0; i < n; i++ {
		t := cells[i].(*Term)
		if len(runs) > 0 && sameTerm(runs[len(runs)-1].v, t) {
			runs[len(runs)-1].hi = i
		} else {
			runs = append(runs, run{i, t})
		}
	}
	res := runs[len(runs)-1].v
	for k := len(runs) - 2; k >= 0; k-- {
		lo := 0
		if k > 0 {
			lo = runs[k-1].hi + 1
		}
		var c *Term
		if lo == runs[k].hi {
			c = tEq(idx, mkBV(w, uint64(lo)))
		} else {
			c = tBVCmp("bvule", idx, mkBV(w, uint64(runs[k].hi)))
		}
		res = tIte(c, runs[k].v, res)
	}
	return res
}

// readIndex reads array[idx] without forking when elements are scalars (ite chain).
func (r *Run) readIndex(a Array, idx *Term, idxT types.Type) Value {
	if idx.Const {
		i := r.boundedIndex(idx, len(a), idxT, "index")
		return a[i]
	}
	// scalar elements: ite chain
	allScalar := len(a) > 0
	for _, e := range a {
		if _, ok := e.(*Term); !ok {
			allScalar = false
			break
		}
	}
	if allScalar && len(a) <= 64 {
		w := idx.S.W
		inb := tBVCmp("bvult", idx, mkBV(w, uint64(len(a))))
		if !r.branch(inb) {
			panic(targetPanic{v: r.runtimeErr("index out of range"), msg: "index out of range"})
		}
		return iteChain(a, idx)
	}
	i := r.boundedIndex(idx, len(a), idxT, "index")
	return a[i]
}

func (r *Run) strIndex(s Str, idx *Term, idxT types.Type) Value {
	if !idx.Const && (s.IsConst || s.IsBytes) {
		var cells []Value
		if s.IsConst {
			cells = make([]Value, len(s.C))
			for i := 0; i < len(s.C); i++ {
				cells[i] = mkBV(8, uint64(s.C[i]))
			}
		} else {
			cells = s.Bytes
		}
		if len(cells) > 0 && len(cells) <= 512 {
			w := idx.S.W
			_, signed, _ := isInt(idxT)
			var inb *Term
			if signed {
				inb = tAnd(tBVCmp("bvsge", idx, mkBV(w, 0)), tBVCmp("bvslt", idx, mkBV(w, uint64(len(cells)))))
			} else {
				inb = tBVCmp("bvult", idx, mkBV(w, uint64(len(cells))))
			}
			if w < 64 && !signed && len(cells) >= 1<<uint(w) {
				inb = tTrue
			}
			if !r.branch(inb) {
				panic(targetPanic{v: r.runtimeErr("index out of range"), msg: "index out of range"})
			}
			return iteChain(cells, idx)
		}
	}
	if s.IsConst {
		i := r.boundedIndex(idx, len(s.C), idxT, "string index")
		return mkBV(8, uint64(s.C[i]))
	}
	if s.IsBytes {
		i := r.boundedIndex(idx, len(s.Bytes), idxT, "string index")
		return s.Bytes[i]
	}
	panic(unsupported("index of opaque symbolic string"))
}

func (r *Run) sliceOp(fr *frame, instr *ssa.Slice, x, lo, hi, max Value) Value {
	conc := func(v Value, def int) int {
		if v == nil {
			return def
		}
		return -1
	}
	_ = conc
	switch x := x.(type) {
	case Str:
		var n int
		var get func(i, j int) Value
		switch {
		case x.IsConst:
			n = len(x.C)
			get = func(i, j int) Value { return constStr(x.C[i:j]) }
		case x.IsBytes:
			n = len(x.Bytes)
			get = func(i, j int) Value { return Str{IsBytes: true, Bytes: x.Bytes[i:j]} }
		default:
			panic(unsupported("slicing opaque symbolic string"))
		}
		l, h := r.sliceBounds(lo, hi, n, n)
		return get(l, h)
	case Slice:
		if x.SymLen != nil {
			panic(unsupported("slicing an opaque symbolic-length slice"))
		}
		l, h := r.sliceBounds(lo, hi, len(x.S), cap(x.S))
		m := cap(x.S)
		if max != nil {
			m = int(r.concInt(max, "slice max"))
			if m < h || m > cap(x.S) {
				panic(targetPanic{v: r.runtimeErr("slice bounds out of range"), msg: "slice bounds out of range"})
			}
		}
		if x.S == nil {
			return Slice{}
		}
		return Slice{S: x.S[l:h:m]}
	case *Value:
		if x == nil {
			panic(r.nilDeref("slice of nil array pointer"))
		}
		a := (*x).(Array)
		l, h := r.sliceBounds(lo, hi, len(a), len(a))
		m := len(a)
		if max != nil {
			m = int(r.concInt(max, "slice max"))
		}
		return Slice{S: []Value(a)[l:h:m]}
	}
	panic(fmt.Sprintf("slice of %T", x))
}

// sliceBounds checks 0 <= lo <= hi <= capN (hi defaults to lenN) as a panic branch and concretises.
func (r *Run) sliceBounds(lo, hi Value, lenN, capN int) (int, int) {
	lt := mkBV(64, 0)
	if lo != nil {
		lt = tBVResize(lo.(*Term), 64, true)
	}
	ht := mkBV(64, uint64(lenN))
	if hi != nil {
		ht = tBVResize(hi.(*Term), 64, true)
	}
	ok := tAnd(tBVCmp("bvsle", mkBV(64, 0), lt), tAnd(tBVCmp("bvsle", lt, ht), tBVCmp("bvsle", ht, mkBV(64, uint64(capN)))))
	if !r.branch(ok) {
		panic(targetPanic{v: r.runtimeErr("slice bounds out of range"), msg: "slice bounds out of range"})
	}
	l := r.concretize(lt, "slice low")
	h := r.concretize(ht, "slice high")
	return int(l.V), int(h.V)
}

func (r *Run) selectInstr(fr *frame, instr *ssa.Select) Value {
	var cases []selCase
	for _, st := range instr.States {
		ch, _ := fr.get(st.Chan).(*ChanObj)
		c := selCase{ch: ch, send: st.Dir == types.SendOnly}
		if c.send {
			c.val = copyVal(fr.get(st.Send))
		}
		cases = append(cases, c)
	}
	chosen, recv, recvOk := r.selectOp(cases, instr.Blocking)
	res := Tuple{mkBV(64, uint64(int64(chosen))), mkBool(recvOk)}
	for i, st := range instr.States {
		if st.Dir == types.RecvOnly {
			var v Value
			if i == chosen && recvOk {
				v = recv
			} else {
				v = zero(st.Chan.Type().Underlying().(*types.Chan).Elem())
			}
			res = append(res, v)
		}
	}
	return res
}
