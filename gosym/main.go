package main

// gosym: bounded symbolic executor for Go SSA, driving the /verif checks.
//
// usage: gosym check <PROPERTY> <quick|thorough> [-lemma ID] [-trace]
//        gosym replay <dir>

import (
	"encoding/json"
	"flag"
	"fmt"
	"os"
	"path/filepath"
	"runtime"
	"sort"
	"strconv"
	"strings"
	"sync"
	"time"

	"golang.org/x/tools/go/packages"
	"golang.org/x/tools/go/ssa"
	"golang.org/x/tools/go/ssa/ssautil"
)

const modPath = "github.com/aptpod/iscp-go"

var (
	verifDir = "/verif"
	repoDir  = "/repo"
)

type Lemma struct {
	ID        string   `json:"id"`
	Property  string   `json:"property"`
	Pkg       string   `json:"pkg"`   // package dir relative to /repo
	Func      string   `json:"func"`  // harness function
	Tier      string   `json:"tier"`  // quick | thorough
	Shims     []string `json:"shims"` // further package dirs whose harness files are overlaid
	Desc      string   `json:"desc"`
	Bounds    string   `json:"bounds"`
	ConcCap   int      `json:"conc_cap"`
	MaxPaths  int      `json:"max_paths"`
	MaxSteps  int      `json:"max_steps"`
	MapOrders bool     `json:"all_map_orders"`
	Reach     []string `json:"reach"`   // reach witnesses that must be hit on at least one path
	Asserts   []string `json:"asserts"` // assertion ids that must be checked at least once
	TimeoutS  int      `json:"timeout_s"`
	Stubs     []string `json:"stubs"`
	Outside   string   `json:"outside"`
	SolverMs  int      `json:"solver_timeout_ms"`
	Mode      string   `json:"mode"` // "" = harness, "lockbal" = under-constrained lock balance over Pkgs
	Pkgs      []string `json:"pkgs"`
}

type KnownFinding struct {
	ID       string `json:"id"`
	Property string `json:"property"`
	Lemma    string `json:"lemma"`
	Status   string `json:"status"` // open | fixed
	What     string `json:"what"`
	Commit   string `json:"commit,omitempty"`
	Class    string `json:"class,omitempty"`
}

func loadJSON(path string, v interface{}) error {
	b, err := os.ReadFile(path)
	if err != nil {
		return err
	}
	return json.Unmarshal(b, v)
}

func main() {
	if len(os.Args) < 2 {
		fmt.Fprintln(os.Stderr, "usage: gosym check <PROP> <tier> | gosym replay <dir>")
		os.Exit(2)
	}
	if v := os.Getenv("VERIF_DIR"); v != "" {
		verifDir = v
	}
	if v := os.Getenv("VERIF_REPO"); v != "" {
		repoDir = v
	}
	switch os.Args[1] {
	case "check":
		os.Exit(cmdCheck(os.Args[2:]))
	case "replay":
		os.Exit(cmdReplay(os.Args[2:]))
	case "native":
		os.Exit(cmdNative(os.Args[2:]))
	default:
		fmt.Fprintln(os.Stderr, "unknown command")
		os.Exit(2)
	}
}

func harnessOverlay(dirs []string, native bool) (map[string][]byte, error) {
	ov := map[string][]byte{}
	// close the directory list under DEPS (harness files of one package may import harness-only packages)
	seen := map[string]bool{}
	for _, d := range dirs {
		seen[d] = true
	}
	for i := 0; i < len(dirs); i++ {
		if b, err := os.ReadFile(filepath.Join(verifDir, "harness", dirs[i], "DEPS")); err == nil {
			for _, d := range strings.Fields(string(b)) {
				if !seen[d] {
					seen[d] = true
					dirs = append(dirs, d)
				}
			}
		}
	}
	for _, d := range dirs {
		hd := filepath.Join(verifDir, "harness", d)
		ents, err := os.ReadDir(hd)
		if err != nil {
			continue // package without harness files (lock-balance mode loads plain packages)
		}
		for _, e := range ents {
			if e.IsDir() || !strings.HasSuffix(e.Name(), ".go") {
				continue
			}
			b, err := os.ReadFile(filepath.Join(hd, e.Name()))
			if err != nil {
				return nil, err
			}
			ov[filepath.Join(repoDir, d, e.Name())] = b
		}
	}
	vfFile := "vf_sym.go"
	if native {
		vfFile = "vf_native.go"
	}
	b, err := os.ReadFile(filepath.Join(verifDir, "vf", vfFile))
	if err != nil {
		return nil, err
	}
	ov[filepath.Join(repoDir, "internal", "vf", vfFile)] = b
	return ov, nil
}

var initStd = []string{"context", "errors", "io", "bytes", "strings", "strconv", "unicode/utf8", "encoding/binary", "sync", "sync/atomic",
	"math", "math/bits", "sort", "slices", "maps", "github.com/google/uuid", "golang.org/x/sync/errgroup", "golang.org/x/exp/maps", "golang.org/x/exp/slices",
	"github.com/AlekSi/pointer", "time", "encoding/hex", "net/url"}

type loaded struct {
	prog *ssa.Program
	pkgs map[string]*ssa.Package // by dir relative to repo
	errs []string
}

func loadProgram(dirs []string) (*loaded, error) {
	ov, err := harnessOverlay(dirs, false)
	if err != nil {
		return nil, err
	}
	var patterns []string
	for _, d := range dirs {
		patterns = append(patterns, "./"+d)
	}
	env := append(os.Environ(), "GOFLAGS=-mod=mod", "GOPROXY=off")
	cfg := &packages.Config{
		Mode:       packages.LoadAllSyntax,
		Dir:        repoDir,
		Overlay:    ov,
		BuildFlags: []string{"-tags=vfsym"},
		Env:        env,
	}
	pkgs, err := packages.Load(cfg, patterns...)
	if err != nil {
		return nil, err
	}
	ld := &loaded{pkgs: map[string]*ssa.Package{}}
	packages.Visit(pkgs, nil, func(p *packages.Package) {
		for _, e := range p.Errors {
			if strings.Contains(e.Msg, "missing function body") || strings.Contains(e.Msg, "func missing body") {
				continue
			}
			if strings.HasPrefix(p.PkgPath, modPath) {
				ld.errs = append(ld.errs, e.Error())
			}
		}
	})
	prog, spkgs := ssautil.AllPackages(pkgs, ssa.InstantiateGenerics)
	prog.Build()
	ld.prog = prog
	for i, p := range pkgs {
		if spkgs[i] == nil {
			ld.errs = append(ld.errs, "no SSA for "+p.PkgPath)
			continue
		}
		rel := strings.TrimPrefix(strings.TrimPrefix(p.PkgPath, modPath), "/")
		ld.pkgs[rel] = spkgs[i]
	}
	return ld, nil
}

func cmdCheck(args []string) int {
	fs := flag.NewFlagSet("check", flag.ExitOnError)
	only := fs.String("lemma", "", "run only this lemma id")
	trace := fs.Bool("trace", false, "trace instructions")
	noReplay := fs.Bool("noreplay", false, "skip native replay")
	workers := fs.Int("j", 0, "parallel lemmas")
	if len(args) < 2 {
		fmt.Fprintln(os.Stderr, "usage: gosym check <PROP> <quick|thorough>")
		return 2
	}
	prop, tier := args[0], args[1]
	fs.Parse(args[2:])
	t0 := time.Now()
	seed := 0
	if s := os.Getenv("VERIF_SEED"); s != "" {
		seed, _ = strconv.Atoi(s)
	}

	var lemmas []*Lemma
	if err := loadJSON(filepath.Join(verifDir, "spec", "lemmas.json"), &lemmas); err != nil {
		fmt.Println("INCONCLUSIVE cannot read lemmas.json:", err)
		return 2
	}
	var kfs []KnownFinding
	loadJSON(filepath.Join(verifDir, "known_findings.json"), &kfs)
	knownOpen := map[string]bool{}
	kfByID := map[string]KnownFinding{}
	for _, k := range kfs {
		kfByID[k.ID] = k
		if k.Status == "open" {
			knownOpen[k.ID] = true
		}
	}

	var sel []*Lemma
	dirSet := map[string]bool{}
	for _, l := range lemmas {
		if l.Property != prop {
			continue
		}
		if *only != "" && l.ID != *only {
			continue
		}
		if tier == "quick" && l.Tier != "quick" {
			continue
		}
		// harness/<pkg>/DEPS lists further package dirs whose harness files (shims) must be overlaid
		if b, err := os.ReadFile(filepath.Join(verifDir, "harness", l.Pkg, "DEPS")); err == nil {
			for _, d := range strings.Fields(string(b)) {
				found := false
				for _, s := range l.Shims {
					if s == d {
						found = true
					}
				}
				if !found {
					l.Shims = append(l.Shims, d)
				}
			}
		}
		sel = append(sel, l)
		if l.Mode != "" {
			for _, d := range l.Pkgs {
				dirSet[d] = true
			}
			continue
		}
		dirSet[l.Pkg] = true
		for _, s := range l.Shims {
			dirSet[s] = true
		}
	}
	if len(sel) == 0 {
		fmt.Println("INCONCLUSIVE no lemmas selected for", prop, tier)
		return 2
	}
	var dirs []string
	for d := range dirSet {
		dirs = append(dirs, d)
	}
	sort.Strings(dirs)

	tl := time.Now()
	ld, err := loadProgram(dirs)
	if err != nil {
		fmt.Println("INCONCLUSIVE load failed:", err)
		writeEvidence(prop, tier, seed, nil, time.Since(t0), []string{"load failed: " + err.Error()}, nil)
		return 2
	}
	loadTime := time.Since(tl)
	if len(ld.errs) > 0 {
		fmt.Println("INCONCLUSIVE stale obligation: harness or repository does not type-check:")
		for _, e := range ld.errs {
			fmt.Println("   ", e)
		}
		writeEvidence(prop, tier, seed, nil, time.Since(t0), append([]string{"type errors"}, ld.errs...), nil)
		return 2
	}

	outDir := filepath.Join(verifDir, "out", prop)
	os.MkdirAll(outDir, 0o755)

	nw := *workers
	if nw <= 0 {
		nw = runtime.NumCPU()
	}
	cpuTokens = make(chan struct{}, nw)
	results := make([]*LemmaResult, len(sel))
	var wg sync.WaitGroup
	for i, l := range sel {
		wg.Add(1)
		go func(i int, l *Lemma) {
			defer wg.Done()
			results[i] = runLemma(ld, l, tier, seed, knownOpen, outDir, *trace)
		}(i, l)
	}
	wg.Wait()

	// ---- report
	exit := 0
	var notes []string
	knownHit := map[string]bool{}
	violN := 0
	var replayDirs []string
	for _, res := range results {
		l := res.Lemma
		status := "ok"
		for _, inc := range res.Inconclusive {
			status = "INCONCLUSIVE"
			notes = append(notes, l.ID+": "+inc)
		}
		// vacuity guards
		for _, w := range l.Reach {
			if res.Reached[w] == 0 {
				status = "INCONCLUSIVE"
				notes = append(notes, fmt.Sprintf("%s: reach witness %q never reached (vacuous harness)", l.ID, w))
			}
		}
		for _, a := range l.Asserts {
			if res.AssertIDs[a] == 0 {
				status = "INCONCLUSIVE"
				notes = append(notes, fmt.Sprintf("%s: assertion %q never evaluated (vacuous harness)", l.ID, a))
			}
		}
		var newViol []Violation
		for _, v := range res.Violations {
			if len(v.KnownIDs) > 0 {
				for _, k := range v.KnownIDs {
					knownHit[k] = true
				}
				continue
			}
			newViol = append(newViol, v)
		}
		if status == "INCONCLUSIVE" && exit == 0 {
			exit = 2
		}
		confirmed := 0
		attempts := 0
		for vi, v := range newViol {
			// replays are expensive (a `go test` each, repeated for schedule-dependent outcomes): per
			// lemma at most two confirmed and six attempted; the remaining violating paths are counted,
			// not replayed
			if !*noReplay && (confirmed >= 2 || attempts >= 6) {
				if confirmed == 0 && exit == 0 {
					exit = 2
				}
				continue
			}
			attempts++
			dir := filepath.Join(verifDir, "replays", prop, fmt.Sprintf("%s_%d", strings.ReplaceAll(l.ID, ".", "_"), vi))
			if err := writeReplayBundle(dir, l, v); err != nil {
				notes = append(notes, l.ID+": cannot write replay bundle: "+err.Error())
				exit = 2
				continue
			}
			if *noReplay {
				fmt.Printf("UNREPLAYED %s %s: %s (bundle %s)\n", l.ID, v.Kind, v.ID, dir)
				if exit == 0 {
					exit = 2
				}
				continue
			}
			ok, out := runReplay(dir, v)
			if ok {
				confirmed++
				violN++
				exit = 1
				replayDirs = append(replayDirs, dir)
				fmt.Printf("VIOLATION property=%s replay=%s\n", prop, dir)
				fmt.Printf("  lemma %s: %s %s at %s\n  inputs: %s\n", l.ID, v.Kind, v.ID, v.Pos, compactJSON(v.Model))
			} else {
				fmt.Printf("UNCONFIRMED %s %s: %s — counterexample did not reproduce natively (encoder/stub fault?)\n", l.ID, v.Kind, v.ID)
				tail := out
				if len(tail) > 1500 {
					tail = tail[len(tail)-1500:]
				}
				fmt.Println(indent(tail, "    | "))
				notes = append(notes, fmt.Sprintf("%s: unconfirmed counterexample for %s", l.ID, v.ID))
				if exit == 0 {
					exit = 2
				}
			}
		}
		fmt.Printf("lemma %-7s %-12s paths=%d obligations=%d discharged=%d violations=%d queries=%d solver=%.2fs wall=%.2fs  %s\n",
			l.ID, status, res.Paths, res.Obligations, res.Discharged, len(newViol), res.Queries, res.SolverTime.Seconds(), res.Wall.Seconds(), l.Desc)
	}
	var khs []string
	for k := range knownHit {
		khs = append(khs, k)
	}
	sort.Strings(khs)
	for _, k := range khs {
		fmt.Printf("KNOWN-FINDING: property=%s %s %s\n", prop, k, kfByID[k].What)
	}
	notes = dedupe(notes)
	for _, n := range notes {
		fmt.Println("note:", n)
	}
	if exit == 2 {
		fmt.Println("INCONCLUSIVE property=" + prop)
	}
	writeEvidence(prop, tier, seed, results, time.Since(t0), notes, map[string]interface{}{"load_s": loadTime.Seconds(), "known_findings_hit": khs, "violations_confirmed": violN, "replays": replayDirs})
	return exit
}

func dedupe(in []string) []string {
	cnt := map[string]int{}
	var order []string
	for _, s := range in {
		if cnt[s] == 0 {
			order = append(order, s)
		}
		cnt[s]++
	}
	var out []string
	for _, s := range order {
		if cnt[s] > 1 {
			out = append(out, fmt.Sprintf("%s (x%d)", s, cnt[s]))
		} else {
			out = append(out, s)
		}
	}
	return out
}

func indent(s, pre string) string {
	return pre + strings.ReplaceAll(strings.TrimRight(s, "\n"), "\n", "\n"+pre)
}

func compactJSON(v interface{}) string {
	b, _ := json.Marshal(v)
	s := string(b)
	if len(s) > 600 {
		s = s[:600] + "…"
	}
	return s
}

func runLemma(ld *loaded, l *Lemma, tier string, seed int, knownOpen map[string]bool, outDir string, trace bool) *LemmaResult {
	if l.Mode == "lockbal" {
		return runLockBalLemma(ld, l, seed, knownOpen)
	}
	if l.Mode == "guarded" {
		return runGuardedLemma(ld, l, seed, knownOpen)
	}
	pkg := ld.pkgs[l.Pkg]
	fail := func(msg string) *LemmaResult {
		return &LemmaResult{Lemma: l, Inconclusive: []string{msg}, PathsEnded: map[string]int{}, Reached: map[string]int{}, AssertIDs: map[string]int{}, FuncsHit: map[string]bool{}}
	}
	if pkg == nil {
		return fail("package not loaded: " + l.Pkg)
	}
	fn := pkg.Func(l.Func)
	if fn == nil {
		return fail("harness function not found: " + l.Func)
	}
	opts := Options{MaxSteps: 400000, MaxPaths: 20000, ConcCap: 16, MaxDepth: 200, Trace: trace, KnownOpen: knownOpen, AllMapOrders: l.MapOrders}
	if l.ConcCap > 0 {
		opts.ConcCap = l.ConcCap
	}
	if l.MaxPaths > 0 {
		opts.MaxPaths = l.MaxPaths
	}
	if l.MaxSteps > 0 {
		opts.MaxSteps = l.MaxSteps
	}
	initOK := map[string]bool{}
	for _, p := range initStd {
		initOK[p] = true
	}
	nsolver := 0
	var smu sync.Mutex
	mk := func() (*Machine, error) {
		smu.Lock()
		nsolver++
		k := nsolver
		smu.Unlock()
		logPath := ""
		if os.Getenv("VERIF_SMTLOG") != "" || tier == "thorough" {
			logPath = filepath.Join(outDir, fmt.Sprintf("%s_w%d.smt2", strings.ReplaceAll(l.ID, ".", "_"), k))
		}
		sms := 60000
		if l.SolverMs > 0 {
			sms = l.SolverMs
		}
		solver, err := NewSolver("z3", []string{"-in"}, logPath, seed, sms)
		if err != nil {
			return nil, err
		}
		return &Machine{prog: ld.prog, fset: ld.prog.Fset, solver: solver, opts: opts, initOK: initOK, modPath: modPath}, nil
	}
	budget := 900 * time.Second
	if tier == "thorough" {
		budget = 3600 * time.Second
	}
	if l.TimeoutS > 0 {
		budget = time.Duration(l.TimeoutS) * time.Second
	}
	return RunLemma(mk, l, fn, time.Now().Add(budget), opts.MaxPaths)
}

// cmdNative runs harnesses natively with all inputs zero (translator / harness validation):
// a harness that holds symbolically for every input must also pass natively on the zero input.
func cmdNative(args []string) int {
	if len(args) < 1 {
		fmt.Fprintln(os.Stderr, "usage: gosym native <PROP> [lemma]")
		return 2
	}
	var lemmas []*Lemma
	if err := loadJSON(filepath.Join(verifDir, "spec", "lemmas.json"), &lemmas); err != nil {
		fmt.Println(err)
		return 2
	}
	rc := 0
	// gosym native <PROP> <lemma> sweep=kind:43,ext:2 runs the harness for every combination
	for _, a := range args[1:] {
		if strings.HasPrefix(a, "sweep=") {
			os.Setenv("VERIF_SWEEP", strings.TrimPrefix(a, "sweep="))
		}
	}
	for _, l := range lemmas {
		if l.Property != args[0] || (len(args) > 1 && !strings.HasPrefix(args[1], "sweep=") && l.ID != args[1]) {
			continue
		}
		if b, err := os.ReadFile(filepath.Join(verifDir, "harness", l.Pkg, "DEPS")); err == nil {
			l.Shims = append(l.Shims, strings.Fields(string(b))...)
		}
		dir := filepath.Join(verifDir, "replays", "_native", strings.ReplaceAll(l.ID, ".", "_"))
		v := Violation{Kind: "native", ID: "zero-input", Model: map[string]interface{}{}}
		if err := writeReplayBundle(dir, l, v); err != nil {
			fmt.Println(l.ID, "bundle error:", err)
			rc = 2
			continue
		}
		ok, out := runReplay(dir, v)
		_ = ok
		status := "PASS"
		if (!strings.Contains(out, "VF-HARNESS-END") && !strings.Contains(out, "VF-ASSUME-FALSE")) || strings.Contains(out, "VF-SWEEP-FAIL") {
			status = "FAIL"
			rc = 1
		}
		fmt.Printf("native %-8s %s\n", l.ID, status)
		if status == "FAIL" {
			tail := out
			if len(tail) > 1200 {
				tail = tail[len(tail)-1200:]
			}
			fmt.Println(indent(tail, "    | "))
		}
	}
	return rc
}

func runLockBalLemma(ld *loaded, l *Lemma, seed int, knownOpen map[string]bool) *LemmaResult {
	res := &LemmaResult{Lemma: l, PathsEnded: map[string]int{}, Reached: map[string]int{}, AssertIDs: map[string]int{}, FuncsHit: map[string]bool{}}
	t0 := time.Now()
	cpuTokens <- struct{}{}
	defer func() { <-cpuTokens }()
	solver, err := NewSolver("z3", []string{"-in"}, "", seed, 20000)
	if err != nil {
		res.Inconclusive = append(res.Inconclusive, "cannot start z3: "+err.Error())
		return res
	}
	defer solver.Close()
	skip := func(fn *ssa.Function) bool {
		if fn.Pkg == nil {
			return true
		}
		path := fn.Pkg.Pkg.Path()
		if strings.Contains(path, "mock") || strings.Contains(path, "/examples/") || strings.HasSuffix(path, "/internal/vf") {
			return true
		}
		name := fn.Name()
		if strings.HasPrefix(name, "zz") || strings.HasPrefix(name, "ZZ") {
			return true
		}
		if fn.Signature.Recv() != nil {
			rt := fn.Signature.Recv().Type().String()
			if strings.Contains(rt, ".zz") || strings.Contains(rt, ".ZZ") {
				return true
			}
		}
		pos := ld.prog.Fset.Position(fn.Pos())
		return strings.HasSuffix(pos.Filename, "_test.go") || strings.Contains(filepath.Base(pos.Filename), "zz_vf")
	}
	st := runLockBalance(ld.prog, solver, skip)
	res.Paths = st.Paths
	res.PathsEnded[""] = st.Paths
	res.Queries = solver.Queries
	res.SolverTime = solver.Time
	res.Sat, res.Unsat, res.Unknown = solver.Sat, solver.Unsat, solver.Unknown
	res.Obligations = st.Functions
	res.Discharged = st.Functions
	res.Inconclusive = append(res.Inconclusive, st.Incon...)
	res.Reached["functions-analysed"] = st.Functions
	res.AssertIDs["lock-balance"] = st.Functions
	for _, n := range st.Names {
		res.FuncsHit[n] = true
	}
	bad := map[string]bool{}
	for _, f := range st.Findings {
		id := fmt.Sprintf("%s: %s of %s", f.Fn, f.Kind, f.Key)
		model := map[string]interface{}{"function": f.Fn, "kind": f.Kind, "lock": f.Key, "blocks": f.Path}
		for k, v := range f.Model {
			model[k] = v
		}
		v := Violation{Kind: "uc-lock", ID: id, Pos: f.Pos, Model: model, Harness: f.Fn}
		kfID := "KF-C08-lock:" + f.Fn + ":" + f.Key
		if knownOpen[kfID] {
			v.KnownIDs = []string{kfID}
		} else if !bad[f.Fn] {
			bad[f.Fn] = true
			res.Discharged--
		}
		res.Violations = append(res.Violations, v)
	}
	res.Samples = append(res.Samples, map[string]interface{}{"functions_with_lock_sites": st.Functions, "lock_sites": st.Sites, "paths": st.Paths, "example_functions": firstN(st.Names, 8)})
	res.Wall = time.Since(t0)
	return res
}

func ucSkip(ld *loaded) func(fn *ssa.Function) bool {
	return func(fn *ssa.Function) bool {
		if fn.Pkg == nil {
			return true
		}
		path := fn.Pkg.Pkg.Path()
		if strings.Contains(path, "mock") || strings.Contains(path, "/examples/") || strings.HasSuffix(path, "/internal/vf") {
			return true
		}
		name := fn.Name()
		if strings.HasPrefix(name, "zz") || strings.HasPrefix(name, "ZZ") {
			return true
		}
		if fn.Signature.Recv() != nil {
			rt := fn.Signature.Recv().Type().String()
			if strings.Contains(rt, ".zz") || strings.Contains(rt, ".ZZ") {
				return true
			}
		}
		pos := ld.prog.Fset.Position(fn.Pos())
		return strings.HasSuffix(pos.Filename, "_test.go") || strings.Contains(filepath.Base(pos.Filename), "zz_vf")
	}
}

func runGuardedLemma(ld *loaded, l *Lemma, seed int, knownOpen map[string]bool) *LemmaResult {
	res := &LemmaResult{Lemma: l, PathsEnded: map[string]int{}, Reached: map[string]int{}, AssertIDs: map[string]int{}, FuncsHit: map[string]bool{}}
	t0 := time.Now()
	cpuTokens <- struct{}{}
	defer func() { <-cpuTokens }()
	solver, err := NewSolver("z3", []string{"-in"}, "", seed, 20000)
	if err != nil {
		res.Inconclusive = append(res.Inconclusive, "cannot start z3: "+err.Error())
		return res
	}
	defer solver.Close()
	st, err := runGuardedBy(ld.prog, solver, ucSkip(ld), filepath.Join(verifDir, "spec", "guards.json"))
	if err != nil {
		res.Inconclusive = append(res.Inconclusive, "guards.json: "+err.Error())
		return res
	}
	res.Paths = st.Paths
	res.PathsEnded[""] = st.Paths
	res.Queries = solver.Queries
	res.SolverTime = solver.Time
	res.Sat, res.Unsat, res.Unknown = solver.Sat, solver.Unsat, solver.Unknown
	res.Obligations = st.Accesses
	res.Discharged = st.Accesses
	res.Inconclusive = append(res.Inconclusive, st.Incon...)
	res.Reached["roots-analysed"] = st.Roots
	res.AssertIDs["guarded-by"] = st.Accesses
	for _, n := range st.RootNames {
		res.FuncsHit[n] = true
	}
	for _, f := range st.Findings {
		id := fmt.Sprintf("%s of %s in %s without %s", f.Kind, f.Field, shortFn(f.Fn), f.Guard)
		model := map[string]interface{}{"root": f.Root, "function": f.Fn, "field": f.Field, "access": f.Kind, "guard": f.Guard, "call_chain": f.Chain}
		v := Violation{Kind: "uc-lock", ID: id, Pos: f.Pos, Model: model, Harness: f.Fn}
		kfID := "KF-C09:" + shortFn(f.Fn) + ":" + f.Field + ":" + f.Kind
		if knownOpen[kfID] {
			v.KnownIDs = []string{kfID}
		} else {
			res.Discharged--
		}
		res.Violations = append(res.Violations, v)
	}
	res.Samples = append(res.Samples, map[string]interface{}{"roots": st.Roots, "guarded_fields": st.Guards, "guarded_accesses_checked": st.Accesses, "paths": st.Paths, "guard_entries_skipped": st.Skipped, "example_roots": firstN(st.RootNames, 8)})
	res.Wall = time.Since(t0)
	return res
}

func firstN(s []string, n int) []string {
	if len(s) > n {
		return s[:n]
	}
	return s
}
