package main

import (
	"fmt"
	"go/types"
	"sort"
	"strings"

	"golang.org/x/tools/go/ssa"
)

// Value is one of:
//   *Term            bool / integer scalar (Bool or BV sort)
//   F64              concrete float64 (float32 is also kept as float64)
//   Str              string
//   *Value           pointer (Go pointer to a slot); nil pointer is (*Value)(nil)
//   Struct, Array    aggregates (slices of slots)
//   Slice            slice value (S==nil means nil slice)
//   *MapObj          map (nil map is (*MapObj)(nil))
//   *ChanObj         channel
//   Iface            interface value (T==nil means nil interface)
//   *ssa.Function, *Closure, *ssa.Builtin   function values; nil func is (*Closure)(nil)
//   Tuple            multiple results
//   *Opaque          intrinsic-owned object
type Value interface{}

type F64 float64

// FSym is a float whose value the executor does not track (result of arithmetic on a symbolic
// integer converted to float). Comparisons on it yield unconstrained booleans.
type FSym struct{}

type Struct []Value
type Array []Value
type Tuple []Value

type Slice struct {
	S      []Value // len(S)=len, cap(S)=cap
	SymLen *Term   // non-nil: content-less slice of symbolic length (only len/cap are defined)
}

type Str struct {
	IsConst bool
	C       string
	Atom    *Term   // opaque symbolic atom (sort Str)
	Bytes   []Value // byte-backed string (immutable copy), each *Term BV8
	IsBytes bool
}

type Iface struct {
	T types.Type
	V Value
}

type Closure struct {
	Fn  *ssa.Function
	Env []Value
}

type Opaque struct {
	Kind string
	Data interface{}
	Name string
}

type mapEntry struct {
	K, V Value
}

type MapObj struct {
	KeyT, ValT types.Type
	Entries    []*mapEntry
}

func constStr(s string) Str { return Str{IsConst: true, C: s} }

// Poison marks a value that could not be computed during package init.
type Poison struct{ Why string }

func isNilFunc(v Value) bool {
	switch f := v.(type) {
	case nil:
		return true
	case *Closure:
		return f == nil
	case *ssa.Function:
		return f == nil
	}
	return false
}

func isInt(t types.Type) (w int, signed bool, ok bool) {
	b, isb := t.Underlying().(*types.Basic)
	if !isb {
		return 0, false, false
	}
	switch b.Kind() {
	case types.Int8:
		return 8, true, true
	case types.Int16:
		return 16, true, true
	case types.Int32:
		return 32, true, true
	case types.Int64, types.Int:
		return 64, true, true
	case types.Uint8:
		return 8, false, true
	case types.Uint16:
		return 16, false, true
	case types.Uint32:
		return 32, false, true
	case types.Uint64, types.Uint, types.Uintptr:
		return 64, false, true
	case types.UntypedInt, types.UntypedRune:
		return 64, true, true
	}
	return 0, false, false
}

func isFloat(t types.Type) bool {
	b, ok := t.Underlying().(*types.Basic)
	return ok && b.Info()&types.IsFloat != 0
}

func isString(t types.Type) bool {
	b, ok := t.Underlying().(*types.Basic)
	return ok && b.Info()&types.IsString != 0
}

func isBoolT(t types.Type) bool {
	b, ok := t.Underlying().(*types.Basic)
	return ok && b.Info()&types.IsBoolean != 0
}

// zero returns the zero value of type t.
func zero(t types.Type) Value {
	switch u := t.Underlying().(type) {
	case *types.Basic:
		if w, _, ok := isInt(u); ok {
			return mkBV(w, 0)
		}
		switch {
		case u.Info()&types.IsBoolean != 0:
			return tFalse
		case u.Info()&types.IsFloat != 0:
			return F64(0)
		case u.Info()&types.IsString != 0:
			return constStr("")
		case u.Kind() == types.UnsafePointer:
			return (*Value)(nil)
		case u.Kind() == types.UntypedNil:
			return nil
		}
		panic(unsupported("zero of basic type " + u.String()))
	case *types.Pointer:
		return (*Value)(nil)
	case *types.Struct:
		s := make(Struct, u.NumFields())
		for i := range s {
			s[i] = zero(u.Field(i).Type())
		}
		return s
	case *types.Array:
		n := int(u.Len())
		if n > 1<<16 {
			panic(unsupported("huge array"))
		}
		a := make(Array, n)
		for i := range a {
			a[i] = zero(u.Elem())
		}
		return a
	case *types.Slice:
		return Slice{}
	case *types.Map:
		return (*MapObj)(nil)
	case *types.Chan:
		return (*ChanObj)(nil)
	case *types.Interface:
		return Iface{}
	case *types.Signature:
		return (*Closure)(nil)
	case *types.Tuple:
		if u.Len() == 1 {
			return zero(u.At(0).Type())
		}
		tp := make(Tuple, u.Len())
		for i := range tp {
			tp[i] = zero(u.At(i).Type())
		}
		return tp
	}
	panic(unsupported(fmt.Sprintf("zero of %T %v", t, t)))
}

// copyVal makes a deep copy of aggregates (struct/array by value semantics).
func copyVal(v Value) Value {
	switch v := v.(type) {
	case Struct:
		n := make(Struct, len(v))
		for i, f := range v {
			n[i] = copyVal(f)
		}
		return n
	case Array:
		n := make(Array, len(v))
		for i, f := range v {
			n[i] = copyVal(f)
		}
		return n
	case Tuple:
		n := make(Tuple, len(v))
		for i, f := range v {
			n[i] = copyVal(f)
		}
		return n
	case Iface:
		// interface holding an aggregate: immutable by construction, but copy to be safe
		switch v.V.(type) {
		case Struct, Array:
			return Iface{v.T, copyVal(v.V)}
		}
		return v
	}
	return v
}

type unsupportedErr struct{ msg string }

func (u unsupportedErr) Error() string { return "unsupported: " + u.msg }

func unsupported(msg string) unsupportedErr { return unsupportedErr{msg} }

// debug rendering
func valString(v Value) string {
	switch v := v.(type) {
	case nil:
		return "<nil>"
	case *Term:
		s := v.String()
		if len(s) > 80 {
			s = s[:80] + "…"
		}
		return s
	case F64:
		return fmt.Sprint(float64(v))
	case Str:
		if v.IsConst {
			return fmt.Sprintf("%q", v.C)
		}
		if v.IsBytes {
			return fmt.Sprintf("strbytes(%d)", len(v.Bytes))
		}
		return "str:" + v.Atom.String()
	case *Value:
		if v == nil {
			return "nilptr"
		}
		return fmt.Sprintf("ptr(%p)", v)
	case Struct:
		var parts []string
		for _, f := range v {
			parts = append(parts, valString(f))
		}
		return "{" + strings.Join(parts, ",") + "}"
	case Array:
		return fmt.Sprintf("array(%d)", len(v))
	case Slice:
		if v.S == nil {
			return "nilslice"
		}
		return fmt.Sprintf("slice(len=%d)", len(v.S))
	case *MapObj:
		if v == nil {
			return "nilmap"
		}
		return fmt.Sprintf("map(%d)", len(v.Entries))
	case Iface:
		if v.T == nil {
			return "iface(nil)"
		}
		return fmt.Sprintf("iface(%v:%s)", v.T, valString(v.V))
	case Tuple:
		var parts []string
		for _, f := range v {
			parts = append(parts, valString(f))
		}
		return "(" + strings.Join(parts, ",") + ")"
	case *ssa.Function:
		return "func " + v.String()
	case *Closure:
		if v == nil {
			return "nilfunc"
		}
		return "closure " + v.Fn.String()
	case *Opaque:
		return "opaque:" + v.Kind + ":" + v.Name
	case Poison:
		return "poison(" + v.Why + ")"
	}
	return fmt.Sprintf("%T", v)
}

var _ = sort.Ints
