package main

import (
	"fmt"
	"go/token"
	"go/types"
	"math"
	"strings"

	"golang.org/x/tools/go/ssa"
)

type intrinsic func(r *Run, caller *frame, fn *ssa.Function, args []Value) Value

var intrinsics map[string]intrinsic

var rtypeMarker = types.NewNamed(types.NewTypeName(token.NoPos, nil, "reflect.rtype#vf", nil), types.NewStruct(nil, nil), nil)

type errObj struct {
	msg   Str
	wraps []Value // Iface values
	multi bool
}

func (r *Run) newErr(msg Str, wraps []Value, multi bool) Value {
	r.errID++
	return Iface{T: errObjType, V: &Opaque{Kind: "err", Name: fmt.Sprintf("err%d", r.errID), Data: &errObj{msg: msg, wraps: wraps, multi: multi}}}
}

func (r *Run) freshStr(hint string) Str {
	return Str{Atom: r.fresh(strSort, hint)}
}

func (r *Run) callFakeMethod(fm *fakeMethod, args []Value) Value {
	switch fm.name {
	case "Error":
		if s, ok := fm.recv.V.(Str); ok {
			return s
		}
		if o, ok := fm.recv.V.(*Opaque); ok {
			if eo, ok := o.Data.(*errObj); ok {
				return eo.msg
			}
			return constStr(o.Name)
		}
	case "Unwrap":
		if o, ok := fm.recv.V.(*Opaque); ok {
			if eo, ok := o.Data.(*errObj); ok {
				if eo.multi {
					return Slice{S: append([]Value{}, eo.wraps...)}
				}
				if len(eo.wraps) > 0 {
					return eo.wraps[0]
				}
			}
		}
		return Iface{}
	case "RuntimeError":
		return nil
	case "Timeout", "Temporary":
		return tFalse
	}
	panic(unsupported("method " + fm.name + " on intrinsic error object"))
}

// methodOf finds a method by name on the dynamic type of an interface value (nil if none).
func (r *Run) methodOf(x Iface, name string) *ssa.Function {
	if x.T == nil || x.T == errObjType || x.T == runtimeErrType {
		return nil
	}
	ms := r.m.prog.MethodSets.MethodSet(x.T)
	for i := 0; i < ms.Len(); i++ {
		sel := ms.At(i)
		if sel.Obj().Name() == name {
			return r.m.prog.MethodValue(sel)
		}
	}
	return nil
}

func (r *Run) unwrapErr(x Iface) []Value {
	if x.T == nil {
		return nil
	}
	if x.T == errObjType {
		if o, ok := x.V.(*Opaque); ok {
			if eo, ok := o.Data.(*errObj); ok {
				return eo.wraps
			}
		}
		return nil
	}
	if f := r.methodOf(x, "Unwrap"); f != nil {
		res := r.call(nil, token.NoPos, f, []Value{x.V})
		switch res := res.(type) {
		case Iface:
			if res.T == nil {
				return nil
			}
			return []Value{res}
		case Slice:
			return res.S
		}
	}
	return nil
}

func (r *Run) errorsIs(err, target Iface) bool {
	if err.T == nil {
		return target.T == nil
	}
	if target.T == nil {
		return false
	}
	if r.branch(r.eqVal(err, target)) {
		return true
	}
	if f := r.methodOf(err, "Is"); f != nil {
		res := r.call(nil, token.NoPos, f, []Value{err.V, target})
		if r.branch(res.(*Term)) {
			return true
		}
	}
	for _, w := range r.unwrapErr(err) {
		wi, _ := w.(Iface)
		if wi.T != nil && r.errorsIs(wi, target) {
			return true
		}
	}
	return false
}

func (r *Run) errorsAs(err Iface, target Iface) bool {
	pt, ok := target.T.Underlying().(*types.Pointer)
	if !ok {
		panic(targetPanic{v: r.runtimeErr("errors: target must be a non-nil pointer")})
	}
	tt := pt.Elem()
	tp := target.V.(*Value)
	var walk func(e Iface) bool
	walk = func(e Iface) bool {
		if e.T == nil {
			return false
		}
		if it, isI := tt.Underlying().(*types.Interface); isI {
			if r.implements(e.T, it, e.V) {
				storeInto(tp, e)
				return true
			}
		} else if e.T != errObjType && e.T != runtimeErrType && types.Identical(e.T, tt) {
			storeInto(tp, e.V)
			return true
		}
		if f := r.methodOf(e, "As"); f != nil {
			res := r.call(nil, token.NoPos, f, []Value{e.V, target})
			if r.branch(res.(*Term)) {
				return true
			}
		}
		for _, w := range r.unwrapErr(e) {
			if wi, _ := w.(Iface); wi.T != nil && walk(wi) {
				return true
			}
		}
		return false
	}
	return walk(err)
}

// wrapped operands of a fmt.Errorf call
func wrappedArgs(format string, args []Value) []Value {
	var out []Value
	ai := 0
	for i := 0; i < len(format); i++ {
		if format[i] != '%' {
			continue
		}
		i++
		for i < len(format) && strings.ContainsRune("+-# 0123456789.[]", rune(format[i])) {
			i++
		}
		if i >= len(format) {
			break
		}
		if format[i] == '%' {
			continue
		}
		if format[i] == '*' {
			ai++
			i++
		}
		if i < len(format) && format[i] == 'w' && ai < len(args) {
			if iv, ok := args[ai].(Iface); ok && iv.T != nil {
				out = append(out, iv)
			}
		}
		ai++
	}
	return out
}

func noop(r *Run, caller *frame, fn *ssa.Function, args []Value) Value {
	return zeroResult(fn)
}

func zeroResult(fn *ssa.Function) Value {
	res := fn.Signature.Results()
	if res.Len() == 0 {
		return nil
	}
	return zero(res)
}

func (r *Run) atomicAdd(args []Value) Value {
	p := args[0].(*Value)
	if p == nil {
		panic(r.nilDeref("atomic op on nil"))
	}
	n := tBVBin("bvadd", (*p).(*Term), args[1].(*Term))
	*p = n
	return n
}

func (r *Run) sleep(d *Term) {
	due := tBVBin("bvadd", r.nowT, d)
	if r.branch(tBVCmp("bvsle", d, mkBV(64, 0))) {
		return
	}
	g := r.sched.cur
	g.sleepT = due
	for g.sleepT != nil {
		r.sched.block("sleep")
	}
}

func (r *Run) newTimerObj(t types.Type, d *Term, period bool, fn Value, label string) *Value {
	// time.Timer / time.Ticker struct: field C is the first field
	slot := new(Value)
	*slot = zero(t)
	tm := &timer{due: tBVBin("bvadd", r.nowT, d), obj: slot, label: label}
	if period {
		tm.period = d
	}
	if fn != nil {
		tm.fn = fn
	} else {
		et := t.Underlying().(*types.Struct).Field(0).Type().Underlying().(*types.Chan).Elem()
		tm.ch = &ChanObj{cap: 1, elemZero: func() Value { return zero(et) }, name: label}
		(*slot).(Struct)[0] = tm.ch
	}
	r.timers = append(r.timers, tm)
	return slot
}

func (r *Run) timerOf(p *Value) *timer {
	for _, t := range r.timers {
		if t.obj == p {
			return t
		}
	}
	panic(unsupported("unknown timer object"))
}

func namedType(prog *ssa.Program, pkg, name string) types.Type {
	p := prog.ImportedPackage(pkg)
	if p == nil {
		panic(unsupported("package not loaded: " + pkg))
	}
	return p.Type(name).Type()
}

// Abstract wall-clock instants (time.Unix(0, n) with a symbolic n): {wallAbs, unix nanoseconds, nil}.
// With the monotonic flag clear a real time.Time never has bit 62 of wall set, so the marker is
// unambiguous. Only the operations below understand it.
const wallAbs = uint64(1) << 62

func wallTime(ns *Term) Value { return Struct{mkBV(64, wallAbs), ns, (*Value)(nil)} }

func isWallTime(v Value) (*Term, bool) {
	s, ok := v.(Struct)
	if !ok || len(s) != 3 {
		return nil, false
	}
	w, ok := s[0].(*Term)
	if !ok || !w.Const || w.V != wallAbs {
		return nil, false
	}
	return s[1].(*Term), true
}

func (r *Run) monoFallback(caller *frame, fn *ssa.Function, args []Value) Value {
	return r.callSSA2(caller, token.NoPos, fn, args, nil)
}

func init() {
	intrinsics = map[string]intrinsic{
		// ---- sync
		"(*sync.Mutex).Lock":   func(r *Run, c *frame, fn *ssa.Function, a []Value) Value { r.mutexLock(a[0].(*Value)); return nil },
		"(*sync.Mutex).Unlock": func(r *Run, c *frame, fn *ssa.Function, a []Value) Value { r.mutexUnlock(a[0].(*Value)); return nil },
		"(*sync.Mutex).TryLock": func(r *Run, c *frame, fn *ssa.Function, a []Value) Value {
			return mkBool(r.mutexTryLock(a[0].(*Value)))
		},
		"(*sync.RWMutex).Lock":   func(r *Run, c *frame, fn *ssa.Function, a []Value) Value { r.mutexLock(a[0].(*Value)); return nil },
		"(*sync.RWMutex).Unlock": func(r *Run, c *frame, fn *ssa.Function, a []Value) Value { r.mutexUnlock(a[0].(*Value)); return nil },
		"(*sync.RWMutex).RLock":  func(r *Run, c *frame, fn *ssa.Function, a []Value) Value { r.mutexRLock(a[0].(*Value)); return nil },
		"(*sync.RWMutex).RUnlock": func(r *Run, c *frame, fn *ssa.Function, a []Value) Value {
			r.mutexRUnlock(a[0].(*Value))
			return nil
		},
		"(*sync.RWMutex).TryLock": func(r *Run, c *frame, fn *ssa.Function, a []Value) Value {
			return mkBool(r.mutexTryLock(a[0].(*Value)))
		},
		"(*sync.RWMutex).TryRLock": func(r *Run, c *frame, fn *ssa.Function, a []Value) Value {
			return mkBool(r.mutexTryRLock(a[0].(*Value)))
		},
		"(*sync.Cond).Wait": func(r *Run, c *frame, fn *ssa.Function, a []Value) Value {
			p := a[0].(*Value)
			L := (*p).(Struct)[1].(Iface)
			unlock := r.m.prog.LookupMethod(L.T, nil, "Unlock")
			lock := r.m.prog.LookupMethod(L.T, nil, "Lock")
			cs := r.condOf(p)
			w := &condWaiter{g: r.sched.cur}
			cs.waiters = append(cs.waiters, w)
			r.call(c, token.NoPos, unlock, []Value{L.V})
			for !w.woken {
				r.sched.block("cond Wait")
			}
			r.call(c, token.NoPos, lock, []Value{L.V})
			return nil
		},
		"(*sync.Cond).Signal": func(r *Run, c *frame, fn *ssa.Function, a []Value) Value {
			cs := r.condOf(a[0].(*Value))
			if len(cs.waiters) > 0 {
				w := cs.waiters[0]
				cs.waiters = cs.waiters[1:]
				w.woken = true
				r.sched.wake(w.g)
			}
			return nil
		},
		"(*sync.Cond).Broadcast": func(r *Run, c *frame, fn *ssa.Function, a []Value) Value {
			cs := r.condOf(a[0].(*Value))
			for _, w := range cs.waiters {
				w.woken = true
				r.sched.wake(w.g)
			}
			cs.waiters = nil
			return nil
		},
		"(*sync.WaitGroup).Add": func(r *Run, c *frame, fn *ssa.Function, a []Value) Value {
			w := r.wgOf(a[0].(*Value))
			w.n += r.concInt(a[1], "WaitGroup.Add")
			if w.n < 0 {
				panic(targetPanic{v: r.runtimeErr("sync: negative WaitGroup counter"), msg: "sync: negative WaitGroup counter"})
			}
			if w.n == 0 {
				r.wakeAllBlocked("WaitGroup Wait")
			}
			return nil
		},
		"(*sync.WaitGroup).Done": func(r *Run, c *frame, fn *ssa.Function, a []Value) Value {
			w := r.wgOf(a[0].(*Value))
			w.n--
			if w.n < 0 {
				panic(targetPanic{v: r.runtimeErr("sync: negative WaitGroup counter"), msg: "sync: negative WaitGroup counter"})
			}
			if w.n == 0 {
				r.wakeAllBlocked("WaitGroup Wait")
			}
			return nil
		},
		"(*sync.WaitGroup).Wait": func(r *Run, c *frame, fn *ssa.Function, a []Value) Value {
			w := r.wgOf(a[0].(*Value))
			for w.n > 0 {
				r.sched.block("WaitGroup Wait")
			}
			return nil
		},
		"(*sync.Once).Do": func(r *Run, c *frame, fn *ssa.Function, a []Value) Value {
			o := r.onceOf(a[0].(*Value))
			for o.state == 1 {
				r.sched.block("Once Do")
			}
			if o.state == 2 {
				return nil
			}
			o.state = 1
			defer func() {
				o.state = 2
				r.wakeAllBlocked("Once Do")
			}()
			r.call(c, token.NoPos, a[1], nil)
			return nil
		},
		"(*sync.Pool).Get": func(r *Run, c *frame, fn *ssa.Function, a []Value) Value {
			p := a[0].(*Value)
			st := (*p).(Struct)
			// a pooled item is handed out again whenever there is one (the reuse case is the one that can
			// expose stale state; the real Pool may also drop items, which behaves like a fresh New())
			if items := r.pools[p]; len(items) > 0 {
				it := items[len(items)-1]
				r.pools[p] = items[:len(items)-1]
				return it
			}
			newF := st[len(st)-1]
			if isNilFunc(newF) {
				return Iface{}
			}
			return r.call(c, token.NoPos, newF, nil)
		},
		"(*sync.Pool).Put": func(r *Run, c *frame, fn *ssa.Function, a []Value) Value {
			p := a[0].(*Value)
			if iv, ok := a[1].(Iface); ok && iv.T != nil {
				r.pools[p] = append(r.pools[p], iv)
			}
			return nil
		},

		// ---- atomic
		"sync/atomic.AddUint32": func(r *Run, c *frame, fn *ssa.Function, a []Value) Value { return r.atomicAdd(a) },
		"sync/atomic.AddUint64": func(r *Run, c *frame, fn *ssa.Function, a []Value) Value { return r.atomicAdd(a) },
		"sync/atomic.AddInt32":  func(r *Run, c *frame, fn *ssa.Function, a []Value) Value { return r.atomicAdd(a) },
		"sync/atomic.AddInt64":  func(r *Run, c *frame, fn *ssa.Function, a []Value) Value { return r.atomicAdd(a) },
		"sync/atomic.AddUintptr": func(r *Run, c *frame, fn *ssa.Function, a []Value) Value { return r.atomicAdd(a) },

		// ---- fmt / log
		"fmt.Errorf": func(r *Run, c *frame, fn *ssa.Function, a []Value) Value {
			f := a[0].(Str)
			var wraps []Value
			va, _ := a[1].(Slice)
			if f.IsConst {
				wraps = wrappedArgs(f.C, va.S)
				if len(va.S) == 0 {
					return r.newErr(f, nil, false)
				}
			} else {
				panic(unsupported("fmt.Errorf with non-constant format"))
			}
			return r.newErr(r.freshStr("errmsg"), wraps, len(wraps) > 1)
		},
		"fmt.Sprintf": func(r *Run, c *frame, fn *ssa.Function, a []Value) Value {
			f := a[0].(Str)
			va, _ := a[1].(Slice)
			if f.IsConst && len(va.S) == 0 && !strings.Contains(f.C, "%") {
				return f
			}
			return r.sprintModel("sprintf", append([]Value{f}, va.S...))
		},
		"fmt.Sprint": func(r *Run, c *frame, fn *ssa.Function, a []Value) Value {
			va, _ := a[0].(Slice)
			return r.sprintModel("sprint", va.S)
		},
		"fmt.Sprintln": func(r *Run, c *frame, fn *ssa.Function, a []Value) Value {
			va, _ := a[0].(Slice)
			return r.sprintModel("sprintln", va.S)
		},
		"fmt.Printf": noop, "fmt.Println": noop, "fmt.Print": noop, "fmt.Fprintf": noop, "fmt.Fprintln": noop, "fmt.Fprint": noop,
		"log.Printf": noop, "log.Println": noop, "log.Print": noop,
		"(*log.Logger).Printf": noop, "(*log.Logger).Println": noop, "(*log.Logger).Print": noop, "(*log.Logger).Output": noop,

		// ---- errors
		"errors.New": func(r *Run, c *frame, fn *ssa.Function, a []Value) Value {
			return r.newErr(a[0].(Str), nil, false)
		},
		"errors.Is": func(r *Run, c *frame, fn *ssa.Function, a []Value) Value {
			return mkBool(r.errorsIs(a[0].(Iface), a[1].(Iface)))
		},
		"errors.As": func(r *Run, c *frame, fn *ssa.Function, a []Value) Value {
			return mkBool(r.errorsAs(a[0].(Iface), a[1].(Iface)))
		},
		"errors.Unwrap": func(r *Run, c *frame, fn *ssa.Function, a []Value) Value {
			e := a[0].(Iface)
			if e.T == errObjType {
				if o, ok := e.V.(*Opaque); ok {
					if eo, ok := o.Data.(*errObj); ok && !eo.multi && len(eo.wraps) > 0 {
						return eo.wraps[0]
					}
				}
				return Iface{}
			}
			ws := r.unwrapErr(e)
			if len(ws) == 1 {
				return ws[0]
			}
			return Iface{}
		},
		"errors.Join": func(r *Run, c *frame, fn *ssa.Function, a []Value) Value {
			va, _ := a[0].(Slice)
			var ws []Value
			for _, e := range va.S {
				if ei, _ := e.(Iface); ei.T != nil {
					ws = append(ws, ei)
				}
			}
			if len(ws) == 0 {
				return Iface{}
			}
			return r.newErr(r.freshStr("joined"), ws, true)
		},

		// ---- time
		"time.Now": func(r *Run, c *frame, fn *ssa.Function, a []Value) Value { return r.timeValue(r.nowT) },
		"time.Since": func(r *Run, c *frame, fn *ssa.Function, a []Value) Value {
			if ns, ok := isMonoTime(a[0]); ok {
				return tBVBin("bvsub", r.nowT, ns)
			}
			panic(unsupported("time.Since of non-virtual time"))
		},
		"time.Until": func(r *Run, c *frame, fn *ssa.Function, a []Value) Value {
			if ns, ok := isMonoTime(a[0]); ok {
				return tBVBin("bvsub", ns, r.nowT)
			}
			panic(unsupported("time.Until of non-virtual time"))
		},
		"time.Sleep": func(r *Run, c *frame, fn *ssa.Function, a []Value) Value { r.sleep(a[0].(*Term)); return nil },
		"time.NewTicker": func(r *Run, c *frame, fn *ssa.Function, a []Value) Value {
			d := a[0].(*Term)
			if !r.branch(tBVCmp("bvsgt", d, mkBV(64, 0))) {
				panic(targetPanic{v: r.runtimeErr("non-positive interval for NewTicker"), msg: "non-positive interval for NewTicker"})
			}
			return r.newTimerObj(namedType(r.m.prog, "time", "Ticker"), d, true, nil, "ticker@"+r.posStr(c.curPos))
		},
		"(*time.Ticker).Stop": func(r *Run, c *frame, fn *ssa.Function, a []Value) Value {
			r.timerOf(a[0].(*Value)).stopped = true
			return nil
		},
		"(*time.Ticker).Reset": func(r *Run, c *frame, fn *ssa.Function, a []Value) Value {
			t := r.timerOf(a[0].(*Value))
			t.period = a[1].(*Term)
			t.due = tBVBin("bvadd", r.nowT, t.period)
			t.stopped = false
			return nil
		},
		"time.NewTimer": func(r *Run, c *frame, fn *ssa.Function, a []Value) Value {
			return r.newTimerObj(namedType(r.m.prog, "time", "Timer"), a[0].(*Term), false, nil, "timer@"+r.posStr(c.curPos))
		},
		"time.After": func(r *Run, c *frame, fn *ssa.Function, a []Value) Value {
			p := r.newTimerObj(namedType(r.m.prog, "time", "Timer"), a[0].(*Term), false, nil, "after@"+r.posStr(c.curPos))
			return (*p).(Struct)[0]
		},
		"time.AfterFunc": func(r *Run, c *frame, fn *ssa.Function, a []Value) Value {
			return r.newTimerObj(namedType(r.m.prog, "time", "Timer"), a[0].(*Term), false, a[1], "afterfunc")
		},
		"(*time.Timer).Stop": func(r *Run, c *frame, fn *ssa.Function, a []Value) Value {
			t := r.timerOf(a[0].(*Value))
			was := !t.stopped && !t.fired
			t.stopped = true
			return mkBool(was)
		},
		"(*time.Timer).Reset": func(r *Run, c *frame, fn *ssa.Function, a []Value) Value {
			t := r.timerOf(a[0].(*Value))
			was := !t.stopped && !t.fired
			t.due = tBVBin("bvadd", r.nowT, a[1].(*Term))
			t.stopped = false
			t.fired = false
			return mkBool(was)
		},
		"(time.Time).Add": func(r *Run, c *frame, fn *ssa.Function, a []Value) Value {
			if ns, ok := isMonoTime(a[0]); ok {
				return r.timeValue(tBVBin("bvadd", ns, a[1].(*Term)))
			}
			return r.monoFallback(c, fn, a)
		},
		"(time.Time).Sub": func(r *Run, c *frame, fn *ssa.Function, a []Value) Value {
			if x, ok := isWallTime(a[0]); ok {
				if y, ok := isWallTime(a[1]); ok {
					return tBVBin("bvsub", x, y)
				}
			}
			x, ok1 := isMonoTime(a[0])
			y, ok2 := isMonoTime(a[1])
			if ok1 && ok2 {
				return tBVBin("bvsub", x, y)
			}
			return r.monoFallback(c, fn, a)
		},
		"(time.Time).After": func(r *Run, c *frame, fn *ssa.Function, a []Value) Value {
			if x, ok := isWallTime(a[0]); ok {
				if y, ok := isWallTime(a[1]); ok {
					return tBVCmp("bvsgt", x, y)
				}
			}
			x, ok1 := isMonoTime(a[0])
			y, ok2 := isMonoTime(a[1])
			if ok1 && ok2 {
				return tBVCmp("bvsgt", x, y)
			}
			return r.monoFallback(c, fn, a)
		},
		"(time.Time).Before": func(r *Run, c *frame, fn *ssa.Function, a []Value) Value {
			if x, ok := isWallTime(a[0]); ok {
				if y, ok := isWallTime(a[1]); ok {
					return tBVCmp("bvslt", x, y)
				}
			}
			x, ok1 := isMonoTime(a[0])
			y, ok2 := isMonoTime(a[1])
			if ok1 && ok2 {
				return tBVCmp("bvslt", x, y)
			}
			return r.monoFallback(c, fn, a)
		},
		"(time.Time).Equal": func(r *Run, c *frame, fn *ssa.Function, a []Value) Value {
			if x, ok := isWallTime(a[0]); ok {
				if y, ok := isWallTime(a[1]); ok {
					return tEq(x, y)
				}
			}
			x, ok1 := isMonoTime(a[0])
			y, ok2 := isMonoTime(a[1])
			if ok1 && ok2 {
				return tEq(x, y)
			}
			return r.monoFallback(c, fn, a)
		},
		"(time.Time).IsZero": func(r *Run, c *frame, fn *ssa.Function, a []Value) Value {
			if _, ok := isWallTime(a[0]); ok {
				return tFalse // year 1 is not representable in unix nanoseconds
			}
			if _, ok := isMonoTime(a[0]); ok {
				return tFalse
			}
			return r.monoFallback(c, fn, a)
		},
		"time.Unix": func(r *Run, c *frame, fn *ssa.Function, a []Value) Value {
			sec, nsec := a[0].(*Term), a[1].(*Term)
			if sec.Const && nsec.Const {
				return r.monoFallback(c, fn, a)
			}
			if sec.Const && sec.V == 0 {
				return wallTime(nsec)
			}
			panic(unsupported("time.Unix with symbolic seconds"))
		},
		"(time.Time).UnixNano": func(r *Run, c *frame, fn *ssa.Function, a []Value) Value {
			if ns, ok := isWallTime(a[0]); ok {
				return ns
			}
			return r.monoFallback(c, fn, a)
		},
		"(time.Time).UTC": func(r *Run, c *frame, fn *ssa.Function, a []Value) Value {
			if _, ok := isWallTime(a[0]); ok {
				return a[0]
			}
			return r.monoFallback(c, fn, a)
		},
		"(time.Duration).Seconds": func(r *Run, c *frame, fn *ssa.Function, a []Value) Value {
			d := a[0].(*Term)
			if d.Const {
				sec := d.Signed() / 1e9
				nsec := d.Signed() % 1e9
				return F64(float64(sec) + float64(nsec)/1e9)
			}
			if di, ok := r.durOf[d]; ok {
				// the same term the real code computes: float64(d/1e9) + float64(d%1e9)/1e9
				f := tFPBin("fp.add", tIntToFP(di.sec, true), tFPBin("fp.div", tIntToFP(di.sub, true), mkFP(1e9)))
				if di.maxS <= 1<<22 && r.m.fpSecondsLemma(di.maxS) {
					r.fpSecs[f] = di
				}
				return f
			}
			return r.monoFallback(c, fn, a)
		},
		"(time.Duration).String": func(r *Run, c *frame, fn *ssa.Function, a []Value) Value { return r.freshStr("durstr") },

		// ---- runtime / misc
		"runtime.Gosched": noop, "runtime.KeepAlive": noop, "runtime.SetFinalizer": noop, "runtime.GC": noop,
		"runtime.Callers": noop, "runtime.NumGoroutine": noop,
		"math/rand.Float64": func(r *Run, c *frame, fn *ssa.Function, a []Value) Value { return F64(0.5) },
		"math.Pow": func(r *Run, c *frame, fn *ssa.Function, a []Value) Value {
			return F64(math.Pow(float64(a[0].(F64)), float64(a[1].(F64))))
		},
		"math.Float64bits": func(r *Run, c *frame, fn *ssa.Function, a []Value) Value {
			return mkBV(64, math.Float64bits(float64(a[0].(F64))))
		},
		"math.Float64frombits": func(r *Run, c *frame, fn *ssa.Function, a []Value) Value {
			t := a[0].(*Term)
			if !t.Const {
				panic(unsupported("Float64frombits of symbolic value"))
			}
			return F64(math.Float64frombits(t.V))
		},
		"math.Floor": func(r *Run, c *frame, fn *ssa.Function, a []Value) Value { return F64(math.Floor(float64(a[0].(F64)))) },

		// ---- uuid
		"github.com/google/uuid.New":       uuidNew,
		"github.com/google/uuid.NewRandom": func(r *Run, c *frame, fn *ssa.Function, a []Value) Value { return Tuple{uuidNew(r, c, fn, a), Iface{}} },
		"github.com/google/uuid.NewString": func(r *Run, c *frame, fn *ssa.Function, a []Value) Value {
			s := r.freshStr("uuidstr")
			r.assume(tEq(mkApp(bvSort(64), "strlen", s.Atom), mkBV(64, 36)))
			return s
		},
		"(github.com/google/uuid.UUID).String": func(r *Run, c *frame, fn *ssa.Function, a []Value) Value {
			arr := a[0].(Array)
			allc := true
			for _, b := range arr {
				if !b.(*Term).Const {
					allc = false
				}
			}
			if allc {
				return r.monoFallback(c, fn, a)
			}
			// uninterpreted function of the two 64-bit halves
			hi, lo := packBytes(arr[:8]), packBytes(arr[8:])
			at := mkApp(strSort, "uf_uuidstr", hi, lo)
			r.assume(tEq(mkApp(bvSort(64), "strlen", at), mkBV(64, 36)))
			return Str{Atom: at}
		},

		"github.com/aptpod/iscp-go/log.genTrackID": func(r *Run, c *frame, fn *ssa.Function, a []Value) Value { return r.freshStr("trackid") },
		"github.com/aptpod/iscp-go/internal/retry.nextSleep": func(r *Run, c *frame, fn *ssa.Function, a []Value) Value {
			return mkBV(64, 100_000_000) // timing helper havoc'd to a fixed 100ms back-off
		},

		// ---- reflect
		"reflect.TypeOf": func(r *Run, c *frame, fn *ssa.Function, a []Value) Value {
			iv := a[0].(Iface)
			if iv.T == nil {
				return Iface{}
			}
			key := "rtype:" + iv.T.String()
			p, ok := r.opaqueG[key]
			if !ok {
				p = new(Value)
				*p = &Opaque{Kind: "rtype", Name: iv.T.String()}
				r.opaqueG[key] = p
			}
			return Iface{T: rtypeMarker, V: *p}
		},
		"reflect.DeepEqual": func(r *Run, c *frame, fn *ssa.Function, a []Value) Value {
			return r.deepEqual(a[0], a[1], 0)
		},

		// ---- internal/bytealg and friends
		"internal/bytealg.IndexByteString": func(r *Run, c *frame, fn *ssa.Function, a []Value) Value {
			s := a[0].(Str)
			b := a[1].(*Term)
			if s.IsConst && b.Const {
				return mkBV(64, uint64(int64(strings.IndexByte(s.C, byte(b.V)))))
			}
			panic(unsupported("IndexByteString on symbolic data"))
		},
		"internal/bytealg.IndexByte": func(r *Run, c *frame, fn *ssa.Function, a []Value) Value {
			s := a[0].(Slice)
			b := a[1].(*Term)
			for i, e := range s.S {
				if r.branch(tEq(e.(*Term), b)) {
					return mkBV(64, uint64(i))
				}
			}
			return mkBV(64, ^uint64(0))
		},
		// sort.Slice / sort.SliceStable (reflection-based swapper): in-place insertion sort driven by the
		// caller's less function (one of the orders sort.Slice may produce; stable)
		"sort.Slice":       sortSliceIntrinsic,
		"sort.SliceStable": sortSliceIntrinsic,
		"internal/abi.NoEscape":          func(r *Run, c *frame, fn *ssa.Function, a []Value) Value { return a[0] },
		"(*strings.Builder).copyCheck": noop,
		"(*strings.Builder).String": func(r *Run, c *frame, fn *ssa.Function, a []Value) Value {
			// unsafe.String(unsafe.SliceData(b.buf), len(b.buf)): the bytes accumulated so far
			st := (*a[0].(*Value)).(Struct)
			buf, _ := st[1].(Slice)
			bs := make([]Value, len(buf.S))
			copy(bs, buf.S)
			if cs, ok := bytesConst(bs); ok {
				return constStr(cs)
			}
			return Str{IsBytes: true, Bytes: bs}
		},
		"internal/bytealg.MakeNoZero": func(r *Run, c *frame, fn *ssa.Function, a []Value) Value {
			n := int(r.concInt(a[0], "MakeNoZero length"))
			z := mkBV(8, 0)
			buf := make([]Value, n)
			for i := range buf {
				buf[i] = z
			}
			return Slice{S: buf}
		},
		"internal/bytealg.CountString": func(r *Run, c *frame, fn *ssa.Function, a []Value) Value {
			s := a[0].(Str)
			b := a[1].(*Term)
			if s.IsConst && b.Const {
				return mkBV(64, uint64(strings.Count(s.C, string([]byte{byte(b.V)}))))
			}
			panic(unsupported("CountString on symbolic data"))
		},
		"strings.Index": func(r *Run, c *frame, fn *ssa.Function, a []Value) Value {
			s, t := a[0].(Str), a[1].(Str)
			if s.IsConst && t.IsConst {
				return mkBV(64, uint64(int64(strings.Index(s.C, t.C))))
			}
			panic(unsupported("strings.Index on symbolic data"))
		},
		"strconv.Itoa": func(r *Run, c *frame, fn *ssa.Function, a []Value) Value {
			t := a[0].(*Term)
			if t.Const {
				return constStr(fmt.Sprint(t.Signed()))
			}
			return Str{Atom: mkApp(strSort, "uf_itoa", t)}
		},
		"strconv.FormatInt": func(r *Run, c *frame, fn *ssa.Function, a []Value) Value {
			t := a[0].(*Term)
			b := a[1].(*Term)
			if t.Const && b.Const && b.V == 10 {
				return constStr(fmt.Sprint(t.Signed()))
			}
			return Str{Atom: mkApp(strSort, "uf_itoa", t)}
		},
		"strconv.FormatUint": func(r *Run, c *frame, fn *ssa.Function, a []Value) Value {
			t := a[0].(*Term)
			b := a[1].(*Term)
			if t.Const && b.Const && b.V == 10 {
				return constStr(fmt.Sprint(t.V))
			}
			return Str{Atom: mkApp(strSort, "uf_utoa", t)}
		},
	}
}

func init() {
	registerFlate()
	load := func(r *Run, c *frame, fn *ssa.Function, a []Value) Value {
		p := a[0].(*Value)
		if p == nil {
			panic(r.nilDeref("atomic load of nil"))
		}
		return copyVal(*p)
	}
	store := func(r *Run, c *frame, fn *ssa.Function, a []Value) Value {
		p := a[0].(*Value)
		if p == nil {
			panic(r.nilDeref("atomic store to nil"))
		}
		storeInto(p, a[1])
		return nil
	}
	swap := func(r *Run, c *frame, fn *ssa.Function, a []Value) Value {
		p := a[0].(*Value)
		old := copyVal(*p)
		storeInto(p, a[1])
		return old
	}
	cas := func(r *Run, c *frame, fn *ssa.Function, a []Value) Value {
		p := a[0].(*Value)
		if r.branch(r.eqVal(*p, a[1])) {
			storeInto(p, a[2])
			return tTrue
		}
		return tFalse
	}
	for _, t := range []string{"Int32", "Int64", "Uint32", "Uint64", "Uintptr", "Pointer"} {
		intrinsics["sync/atomic.Load"+t] = load
		intrinsics["sync/atomic.Store"+t] = store
		intrinsics["sync/atomic.Swap"+t] = swap
		intrinsics["sync/atomic.CompareAndSwap"+t] = cas
	}
	// atomic.Value{v any}
	intrinsics["(*sync/atomic.Value).Load"] = func(r *Run, c *frame, fn *ssa.Function, a []Value) Value {
		p := a[0].(*Value)
		return (*p).(Struct)[0]
	}
	intrinsics["(*sync/atomic.Value).Store"] = func(r *Run, c *frame, fn *ssa.Function, a []Value) Value {
		p := a[0].(*Value)
		if a[1].(Iface).T == nil {
			panic(targetPanic{v: r.runtimeErr("sync/atomic: store of nil value into Value"), msg: "store of nil into atomic.Value"})
		}
		(*p).(Struct)[0] = a[1]
		return nil
	}
	intrinsics["(*sync/atomic.Value).Swap"] = func(r *Run, c *frame, fn *ssa.Function, a []Value) Value {
		p := a[0].(*Value)
		old := (*p).(Struct)[0]
		(*p).(Struct)[0] = a[1]
		return old
	}
	intrinsics["(*sync/atomic.Value).CompareAndSwap"] = func(r *Run, c *frame, fn *ssa.Function, a []Value) Value {
		p := a[0].(*Value)
		if r.branch(r.eqVal((*p).(Struct)[0], a[1])) {
			(*p).(Struct)[0] = a[2]
			return tTrue
		}
		return tFalse
	}
}

func packBytes(bs []Value) *Term {
	res := mkBV(64, 0)
	for _, b := range bs {
		res = tBVBin("bvor", tBVBin("bvshl", res, mkBV(64, 8)), tBVResize(b.(*Term), 64, false))
	}
	return res
}

func uuidNew(r *Run, c *frame, fn *ssa.Function, a []Value) Value {
	arr := make(Array, 16)
	for i := range arr {
		arr[i] = r.fresh(bvSort(8), "uuid")
	}
	return arr
}

// sprintModel: formatting returns an opaque string; constant-only inputs stay functional through
// an uninterpreted function of the atoms involved where possible.
func (r *Run) sprintModel(kind string, parts []Value) Value {
	return r.freshStr(kind)
}

// deepEqual mirrors reflect.DeepEqual on the value shapes the executor has; returns a Bool term.
func (r *Run) deepEqual(x, y Value, depth int) *Term {
	if depth > 12 {
		panic(unsupported("DeepEqual depth"))
	}
	switch x := x.(type) {
	case nil:
		return mkBool(y == nil)
	case Iface:
		yi, ok := y.(Iface)
		if !ok {
			return tFalse
		}
		if x.T == nil || yi.T == nil {
			return mkBool(x.T == nil && yi.T == nil)
		}
		if x.T == errObjType || x.T == runtimeErrType || yi.T == errObjType || yi.T == runtimeErrType {
			return r.eqVal(x, yi)
		}
		if !types.Identical(x.T, yi.T) {
			return tFalse
		}
		return r.deepEqual(x.V, yi.V, depth+1)
	case *Value:
		yp, ok := y.(*Value)
		if !ok {
			return tFalse
		}
		if x == yp {
			return tTrue
		}
		if x == nil || yp == nil {
			return tFalse
		}
		return r.deepEqual(*x, *yp, depth+1)
	case Struct:
		ys, ok := y.(Struct)
		if !ok || len(ys) != len(x) {
			return tFalse
		}
		if r.canon {
			// time.Time values (wall, ext, loc): compare as instants when both are virtual-clock times
			if a, ok1 := isMonoTime(x); ok1 {
				if b, ok2 := isMonoTime(ys); ok2 {
					return tEq(a, b)
				}
			}
			if a, ok1 := isWallTime(x); ok1 {
				if b, ok2 := isWallTime(ys); ok2 {
					return tEq(a, b)
				}
			}
		}
		res := tTrue
		for i := range x {
			res = tAnd(res, r.deepEqual(x[i], ys[i], depth+1))
			if res.Const && !res.Bool() {
				return res
			}
		}
		return res
	case Array:
		ya, ok := y.(Array)
		if !ok || len(ya) != len(x) {
			return tFalse
		}
		res := tTrue
		for i := range x {
			res = tAnd(res, r.deepEqual(x[i], ya[i], depth+1))
		}
		return res
	case Slice:
		ys, ok := y.(Slice)
		if !ok {
			return tFalse
		}
		if ((x.S == nil) != (ys.S == nil) && !r.canon) || len(x.S) != len(ys.S) {
			return tFalse
		}
		res := tTrue
		for i := range x.S {
			res = tAnd(res, r.deepEqual(x.S[i], ys.S[i], depth+1))
			if res.Const && !res.Bool() {
				return res
			}
		}
		return res
	case *MapObj:
		ym, ok := y.(*MapObj)
		if !ok {
			return tFalse
		}
		if x == ym {
			return tTrue
		}
		if (x == nil) != (ym == nil) {
			if !r.canon {
				return tFalse
			}
			n := 0
			if x != nil {
				n += len(x.Entries)
			}
			if ym != nil {
				n += len(ym.Entries)
			}
			return mkBool(n == 0)
		}
		if len(x.Entries) != len(ym.Entries) {
			return tFalse
		}
		res := tTrue
		for _, e := range x.Entries {
			f := r.mapFind(ym, e.K)
			if f == nil {
				return tFalse
			}
			res = tAnd(res, r.deepEqual(e.V, f.V, depth+1))
		}
		return res
	case *Closure:
		return mkBool(x == nil && isNilFunc(y))
	case *ssa.Function:
		return mkBool(x == nil && isNilFunc(y))
	}
	return r.eqVal(x, y)
}

func sortSliceIntrinsic(r *Run, c *frame, fn *ssa.Function, a []Value) Value {
	x := a[0]
	if iv, ok := x.(Iface); ok {
		x = iv.V
	}
	sl, ok := x.(Slice)
	if !ok {
		panic(unsupported("sort.Slice of a non-slice"))
	}
	less := a[1]
	n := len(sl.S)
	for i := 1; i < n; i++ {
		for j := i; j > 0; j-- {
			res := r.call(c, token.NoPos, less, []Value{mkBV(64, uint64(j)), mkBV(64, uint64(j-1))})
			if !r.branch(res.(*Term)) {
				break
			}
			sl.S[j], sl.S[j-1] = sl.S[j-1], sl.S[j]
		}
	}
	return nil
}
