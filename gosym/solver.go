package main

// One long-lived `z3 -in` process per worker; SMT-LIB2 over a pipe.

import (
	"bufio"
	"fmt"
	"io"
	"os"
	"os/exec"
	"strconv"
	"strings"
	"time"
)

type Solver struct {
	cmd      *exec.Cmd
	in       io.WriteCloser
	out      *bufio.Reader
	defined  map[*Term]string
	declared map[string]Sort
	nextDef  int
	Queries  int
	Sat      int
	Unsat    int
	Unknown  int
	Errors   int
	Time     time.Duration
	log      *bufio.Writer
	logf     *os.File
	seed     int
	timeout  int
	lastErr  string
}

func NewSolver(bin string, args []string, logPath string, seed int, timeoutMs int) (*Solver, error) {
	cmd := exec.Command(bin, args...)
	in, err := cmd.StdinPipe()
	if err != nil {
		return nil, err
	}
	outp, err := cmd.StdoutPipe()
	if err != nil {
		return nil, err
	}
	cmd.Stderr = os.Stderr
	if err := cmd.Start(); err != nil {
		return nil, err
	}
	s := &Solver{cmd: cmd, in: in, out: bufio.NewReaderSize(outp, 1<<16), seed: seed, timeout: timeoutMs}
	if logPath != "" {
		f, err := os.Create(logPath)
		if err == nil {
			s.logf = f
			s.log = bufio.NewWriterSize(f, 1<<16)
		}
	}
	s.Reset()
	return s, nil
}

func (s *Solver) Close() {
	s.send("(exit)")
	s.in.Close()
	s.cmd.Wait()
	if s.log != nil {
		s.log.Flush()
		s.logf.Close()
	}
}

func (s *Solver) send(line string) {
	io.WriteString(s.in, line)
	io.WriteString(s.in, "\n")
	if s.log != nil {
		s.log.WriteString(line)
		s.log.WriteString("\n")
	}
}

// Reset starts a fresh context (one per path run).
func (s *Solver) Reset() {
	s.send("(reset)")
	s.send("(set-option :print-success false)")
	s.send(fmt.Sprintf("(set-option :timeout %d)", s.timeout))
	if s.seed != 0 {
		s.send(fmt.Sprintf("(set-option :smt.random_seed %d)", s.seed))
	}
	s.send("(declare-fun strlen (Int) (_ BitVec 64))")
	s.defined = map[*Term]string{}
	s.declared = map[string]Sort{}
	s.nextDef = 0
}

// ref returns the SMT text referring to t, emitting definitions as needed.
func (s *Solver) ref(t *Term) string {
	if t.Const {
		return t.constSMT()
	}
	if t.Op == "var" {
		if _, ok := s.declared[t.Name]; !ok {
			s.declared[t.Name] = t.S
			s.send(fmt.Sprintf("(declare-const %s %s)", t.Name, t.S.SMT()))
		}
		return t.Name
	}
	if n, ok := s.defined[t]; ok {
		return n
	}
	if strings.HasPrefix(t.Op, "uf_") {
		if _, ok := s.declared[t.Op]; !ok {
			s.declared[t.Op] = t.S
			var as []string
			for _, a := range t.Args {
				as = append(as, a.S.SMT())
			}
			s.send(fmt.Sprintf("(declare-fun %s (%s) %s)", t.Op, strings.Join(as, " "), t.S.SMT()))
		}
	}
	parts := make([]string, 0, len(t.Args)+1)
	parts = append(parts, t.Op)
	for _, a := range t.Args {
		parts = append(parts, s.ref(a))
	}
	expr := "(" + strings.Join(parts, " ") + ")"
	if len(t.Args) == 0 {
		expr = t.Op
	}
	s.nextDef++
	n := "t" + strconv.Itoa(s.nextDef)
	s.send(fmt.Sprintf("(define-fun %s () %s %s)", n, t.S.SMT(), expr))
	s.defined[t] = n
	return n
}

func (s *Solver) Assert(t *Term) {
	if t.Const && t.Bool() {
		return
	}
	r := s.ref(t)
	s.send("(assert " + r + ")")
}

func (s *Solver) readLine() string {
	for {
		line, err := s.out.ReadString('\n')
		if err != nil {
			return "(error \"solver died: " + err.Error() + "\")"
		}
		line = strings.TrimSpace(line)
		if line == "" {
			continue
		}
		return line
	}
}

// readSexp reads one balanced s-expression (possibly multi-line).
func (s *Solver) readSexp() string {
	var sb strings.Builder
	depth := 0
	started := false
	for {
		line, err := s.out.ReadString('\n')
		if err != nil {
			return sb.String()
		}
		for _, c := range line {
			if c == '(' {
				depth++
				started = true
			} else if c == ')' {
				depth--
			}
		}
		sb.WriteString(line)
		if started && depth <= 0 {
			return sb.String()
		}
		if !started && strings.TrimSpace(line) != "" {
			return sb.String()
		}
	}
}

// Check decides satisfiability of the current assertions plus extra.
// Returns "sat", "unsat" or "unknown" (errors count as unknown).
func (s *Solver) Check(extra ...*Term) string {
	refs := make([]string, 0, len(extra))
	for _, e := range extra {
		if e.Const {
			if !e.Bool() {
				return "unsat"
			}
			continue
		}
		refs = append(refs, s.ref(e))
	}
	t0 := time.Now()
	s.send("(push 1)")
	for _, r := range refs {
		s.send("(assert " + r + ")")
	}
	s.send("(check-sat)")
	res := s.readAnswer()
	s.send("(pop 1)")
	s.account(res, t0)
	return res
}

func (s *Solver) readAnswer() string {
	for {
		l := s.readLine()
		switch {
		case l == "sat" || l == "unsat" || l == "unknown":
			return l
		case strings.HasPrefix(l, "(error"):
			s.Errors++
			s.lastErr = l
			// an error before the answer: keep reading for the answer but report unknown
			if strings.Contains(l, "solver died") {
				return "unknown"
			}
			ans := s.readAnswer()
			_ = ans
			return "unknown"
		case l == "timeout":
			return "unknown"
		}
	}
}

func (s *Solver) account(res string, t0 time.Time) {
	s.Queries++
	s.Time += time.Since(t0)
	switch res {
	case "sat":
		s.Sat++
	case "unsat":
		s.Unsat++
	default:
		s.Unknown++
	}
}

// CheckModel is Check, and on sat returns values for the given variables.
func (s *Solver) CheckModel(extra []*Term, vars []*Term) (string, map[string]uint64) {
	refs := make([]string, 0, len(extra))
	for _, e := range extra {
		if e.Const {
			if !e.Bool() {
				return "unsat", nil
			}
			continue
		}
		refs = append(refs, s.ref(e))
	}
	var vrefs []string
	for _, v := range vars {
		if !v.Const {
			vrefs = append(vrefs, s.ref(v))
		}
	}
	t0 := time.Now()
	s.send("(push 1)")
	for _, r := range refs {
		s.send("(assert " + r + ")")
	}
	s.send("(check-sat)")
	res := s.readAnswer()
	var model map[string]uint64
	if res == "sat" {
		model = map[string]uint64{}
		for i := 0; i < len(vrefs); i += 50 {
			j := i + 50
			if j > len(vrefs) {
				j = len(vrefs)
			}
			s.send("(get-value (" + strings.Join(vrefs[i:j], " ") + "))")
			sx := s.readSexp()
			parseModel(sx, model)
		}
	}
	s.send("(pop 1)")
	s.account(res, t0)
	return res, model
}

// parseModel parses "((name value) (name value) ...)".
func parseModel(sx string, out map[string]uint64) {
	toks := tokenize(sx)
	// expect ( ( name val ) ... )
	i := 0
	next := func() string {
		if i < len(toks) {
			t := toks[i]
			i++
			return t
		}
		return ""
	}
	if next() != "(" {
		return
	}
	for i < len(toks) {
		t := next()
		if t == ")" {
			return
		}
		if t != "(" {
			return
		}
		name := next()
		// value: atom or ( - n ) or (_ bvN w)
		v := next()
		var val uint64
		if v == "(" {
			h := next()
			if h == "-" {
				n := next()
				x, _ := strconv.ParseInt(n, 10, 64)
				val = uint64(-x)
				next() // )
			} else if h == "_" {
				n := next() // bvNNN
				next()      // width
				x, _ := strconv.ParseUint(strings.TrimPrefix(n, "bv"), 10, 64)
				val = x
				next() // )
			} else {
				// skip unknown
				depth := 1
				for depth > 0 && i < len(toks) {
					tt := next()
					if tt == "(" {
						depth++
					} else if tt == ")" {
						depth--
					}
				}
			}
		} else {
			switch {
			case v == "true":
				val = 1
			case v == "false":
				val = 0
			case strings.HasPrefix(v, "#x"):
				val, _ = strconv.ParseUint(v[2:], 16, 64)
			case strings.HasPrefix(v, "#b"):
				val, _ = strconv.ParseUint(v[2:], 2, 64)
			default:
				x, _ := strconv.ParseInt(v, 10, 64)
				val = uint64(x)
			}
		}
		out[name] = val
		next() // )
	}
}

func tokenize(s string) []string {
	var toks []string
	cur := strings.Builder{}
	flush := func() {
		if cur.Len() > 0 {
			toks = append(toks, cur.String())
			cur.Reset()
		}
	}
	for _, c := range s {
		switch c {
		case '(', ')':
			flush()
			toks = append(toks, string(c))
		case ' ', '\n', '\t', '\r':
			flush()
		default:
			cur.WriteRune(c)
		}
	}
	flush()
	return toks
}
