package main

// One long-lived `z3 -in` process per worker; SMT-LIB2 over a pipe.

import (
	"bufio"
	"fmt"
	"io"
	"os"
	"os/exec"
	"strconv"
	"strings"
	"sync"
	"time"
)

type Solver struct {
	cmd      *exec.Cmd
	in       io.WriteCloser
	out      *bufio.Reader
	defined  map[*Term]string
	declared map[string]Sort
	nextDef  int
	Queries  int
	Sat      int
	Unsat    int
	Unknown  int
	Errors   int
	Time     time.Duration
	log      *bufio.Writer
	logf     *os.File
	seed     int
	timeout  int
	lastErr  string
	bin      string
	args     []string
	dead     bool // the process was killed by the watchdog; queries answer unknown until the next Reset
	Killed   int
}

func NewSolver(bin string, args []string, logPath string, seed int, timeoutMs int) (*Solver, error) {
	cmd := exec.Command(bin, args...)
	in, err := cmd.StdinPipe()
	if err != nil {
		return nil, err
	}
	outp, err := cmd.StdoutPipe()
	if err != nil {
		return nil, err
	}
	cmd.Stderr = os.Stderr
	if err := cmd.Start(); err != nil {
		return nil, err
	}
	s := &Solver{cmd: cmd, in: in, out: bufio.NewReaderSize(outp, 1<<16), seed: seed, timeout: timeoutMs, bin: bin, args: args}
	if logPath != "" {
		f, err := os.Create(logPath)
		if err == nil {
			s.logf = f
			s.log = bufio.NewWriterSize(f, 1<<16)
		}
	}
	s.Reset()
	return s, nil
}

func (s *Solver) Close() {
	s.send("(exit)")
	s.in.Close()
	s.cmd.Wait()
	if s.log != nil {
		s.log.Flush()
		s.logf.Close()
	}
}

func (s *Solver) send(line string) {
	if s.dead {
		return
	}
	io.WriteString(s.in, line)
	io.WriteString(s.in, "\n")
	if s.log != nil {
		s.log.WriteString(line)
		s.log.WriteString("\n")
	}
}

// Reset starts a fresh context (one per path run).
func (s *Solver) restart() {
	if s.cmd != nil && s.cmd.Process != nil {
		s.cmd.Process.Kill()
		s.cmd.Wait()
	}
	cmd := exec.Command(s.bin, s.args...)
	in, err1 := cmd.StdinPipe()
	outp, err2 := cmd.StdoutPipe()
	cmd.Stderr = os.Stderr
	if err1 != nil || err2 != nil || cmd.Start() != nil {
		return
	}
	s.cmd, s.in, s.out = cmd, in, bufio.NewReaderSize(outp, 1<<16)
}

func (s *Solver) Reset() {
	if s.dead {
		s.restart()
		s.dead = false
	}
	s.send("(reset)")
	s.send("(set-option :print-success false)")
	s.send(fmt.Sprintf("(set-option :timeout %d)", s.timeout))
	if s.seed != 0 {
		s.send(fmt.Sprintf("(set-option :smt.random_seed %d)", s.seed))
	}
	s.send("(declare-fun strlen (Int) (_ BitVec 64))")
	s.defined = map[*Term]string{}
	s.declared = map[string]Sort{}
	s.nextDef = 0
}

// ref returns the SMT text referring to t, emitting definitions as needed.
func (s *Solver) ref(t *Term) string {
	if t.Const {
		return t.constSMT()
	}
	if t.Op == "var" {
		if _, ok := s.declared[t.Name]; !ok {
			s.declared[t.Name] = t.S
			s.send(fmt.Sprintf("(declare-const %s %s)", t.Name, t.S.SMT()))
		}
		return t.Name
	}
	if n, ok := s.defined[t]; ok {
		return n
	}
	if strings.HasPrefix(t.Op, "uf_") {
		if _, ok := s.declared[t.Op]; !ok {
			s.declared[t.Op] = t.S
			var as []string
			for _, a := range t.Args {
				as = append(as, a.S.SMT())
			}
			s.send(fmt.Sprintf("(declare-fun %s (%s) %s)", t.Op, strings.Join(as, " "), t.S.SMT()))
		}
	}
	parts := make([]string, 0, len(t.Args)+1)
	parts = append(parts, t.Op)
	for _, a := range t.Args {
		parts = append(parts, s.ref(a))
	}
	expr := "(" + strings.Join(parts, " ") + ")"
	if len(t.Args) == 0 {
		expr = t.Op
	}
	s.nextDef++
	n := "t" + strconv.Itoa(s.nextDef)
	s.send(fmt.Sprintf("(define-fun %s () %s %s)", n, t.S.SMT(), expr))
	s.defined[t] = n
	return n
}

func (s *Solver) Assert(t *Term) {
	if t.Const && t.Bool() {
		return
	}
	r := s.ref(t)
	s.send("(assert " + r + ")")
}

func (s *Solver) readLine() string {
	for {
		line, err := s.out.ReadString('\n')
		if err != nil {
			return "(error \"solver died: " + err.Error() + "\")"
		}
		line = strings.TrimSpace(line)
		if line == "" {
			continue
		}
		return line
	}
}

// readSexp reads one balanced s-expression (possibly multi-line).
func (s *Solver) readSexp() string {
	if s.dead {
		return ""
	}
	var sb strings.Builder
	depth := 0
	started := false
	for {
		line, err := s.out.ReadString('\n')
		if err != nil {
			return sb.String()
		}
		for _, c := range line {
			if c == '(' {
				depth++
				started = true
			} else if c == ')' {
				depth--
			}
		}
		sb.WriteString(line)
		if started && depth <= 0 {
			return sb.String()
		}
		if !started && strings.TrimSpace(line) != "" {
			return sb.String()
		}
	}
}

// Check decides satisfiability of the current assertions plus extra.
// Returns "sat", "unsat" or "unknown" (errors count as unknown).
func (s *Solver) Check(extra ...*Term) string {
	refs := make([]string, 0, len(extra))
	for _, e := range extra {
		if e.Const {
			if !e.Bool() {
				return "unsat"
			}
			continue
		}
		refs = append(refs, s.ref(e))
	}
	t0 := time.Now()
	s.send("(push 1)")
	for _, r := range refs {
		s.send("(assert " + r + ")")
	}
	s.send("(check-sat)")
	res := s.readAnswer()
	s.send("(pop 1)")
	s.account(res, t0)
	return res
}

// readAnswer waits for the verdict; a query that overruns the solver's own timeout by a wide margin
// (z3 is not always interruptible) gets the process killed and counts as unknown.
func (s *Solver) readAnswer() string {
	if s.dead {
		return "unknown"
	}
	if s.cmd == nil {
		return s.readAnswer0()
	}
	ch := make(chan string, 1)
	go func() { ch <- s.readAnswer0() }()
	select {
	case r := <-ch:
		return r
	case <-time.After(time.Duration(s.timeout)*time.Millisecond + 20*time.Second):
		s.cmd.Process.Kill()
		<-ch
		s.dead = true
		s.Killed++
		s.lastErr = "query killed by watchdog"
		return "unknown"
	}
}

func (s *Solver) readAnswer0() string {
	for {
		l := s.readLine()
		switch {
		case l == "sat" || l == "unsat" || l == "unknown":
			return l
		case strings.HasPrefix(l, "(error"):
			s.Errors++
			s.lastErr = l
			// an error before the answer: keep reading for the answer but report unknown
			if strings.Contains(l, "solver died") {
				return "unknown"
			}
			ans := s.readAnswer0()
			_ = ans
			return "unknown"
		case l == "timeout":
			return "unknown"
		}
	}
}

func (s *Solver) account(res string, t0 time.Time) {
	s.Queries++
	s.Time += time.Since(t0)
	switch res {
	case "sat":
		s.Sat++
	case "unsat":
		s.Unsat++
	default:
		s.Unknown++
	}
}

// CheckModel is Check, and on sat returns values for the given variables.
func (s *Solver) CheckModel(extra []*Term, vars []*Term) (string, map[string]uint64) {
	refs := make([]string, 0, len(extra))
	for _, e := range extra {
		if e.Const {
			if !e.Bool() {
				return "unsat", nil
			}
			continue
		}
		refs = append(refs, s.ref(e))
	}
	var vrefs []string
	for _, v := range vars {
		if !v.Const {
			vrefs = append(vrefs, s.ref(v))
		}
	}
	t0 := time.Now()
	s.send("(push 1)")
	for _, r := range refs {
		s.send("(assert " + r + ")")
	}
	s.send("(check-sat)")
	res := s.readAnswer()
	var model map[string]uint64
	if res == "sat" {
		model = map[string]uint64{}
		for i := 0; i < len(vrefs); i += 50 {
			j := i + 50
			if j > len(vrefs) {
				j = len(vrefs)
			}
			s.send("(get-value (" + strings.Join(vrefs[i:j], " ") + "))")
			sx := s.readSexp()
			parseModel(sx, model)
		}
	}
	s.send("(pop 1)")
	s.account(res, t0)
	return res, model
}

// parseModel parses "((name value) (name value) ...)".
func parseModel(sx string, out map[string]uint64) {
	toks := tokenize(sx)
	// expect ( ( name val ) ... )
	i := 0
	next := func() string {
		if i < len(toks) {
			t := toks[i]
			i++
			return t
		}
		return ""
	}
	if next() != "(" {
		return
	}
	for i < len(toks) {
		t := next()
		if t == ")" {
			return
		}
		if t != "(" {
			return
		}
		name := next()
		// value: atom or ( - n ) or (_ bvN w)
		v := next()
		var val uint64
		if v == "(" {
			h := next()
			if h == "-" {
				n := next()
				x, _ := strconv.ParseInt(n, 10, 64)
				val = uint64(-x)
				next() // )
			} else if h == "_" {
				n := next() // bvNNN
				next()      // width
				x, _ := strconv.ParseUint(strings.TrimPrefix(n, "bv"), 10, 64)
				val = x
				next() // )
			} else {
				// skip unknown
				depth := 1
				for depth > 0 && i < len(toks) {
					tt := next()
					if tt == "(" {
						depth++
					} else if tt == ")" {
						depth--
					}
				}
			}
		} else {
			switch {
			case v == "true":
				val = 1
			case v == "false":
				val = 0
			case strings.HasPrefix(v, "#x"):
				val, _ = strconv.ParseUint(v[2:], 16, 64)
			case strings.HasPrefix(v, "#b"):
				val, _ = strconv.ParseUint(v[2:], 2, 64)
			default:
				x, _ := strconv.ParseInt(v, 10, 64)
				val = uint64(x)
			}
		}
		out[name] = val
		next() // )
	}
}

func tokenize(s string) []string {
	var toks []string
	cur := strings.Builder{}
	flush := func() {
		if cur.Len() > 0 {
			toks = append(toks, cur.String())
			cur.Reset()
		}
	}
	for _, c := range s {
		switch c {
		case '(', ')':
			flush()
			toks = append(toks, string(c))
		case ' ', '\n', '\t', '\r':
			flush()
		default:
			cur.WriteRune(c)
		}
	}
	flush()
	return toks
}

// RawCheck decides a self-contained SMT-LIB script (declarations + assertions) in a scratch scope.
func (s *Solver) RawCheck(script string) string {
	t0 := time.Now()
	s.send("(push 1)")
	s.send(script)
	s.send("(check-sat)")
	res := s.readAnswer()
	s.send("(pop 1)")
	s.account(res, t0)
	return res
}

func hasFP(t *Term, seen map[*Term]bool) bool {
	if seen[t] {
		return false
	}
	seen[t] = true
	if t.S.K == SFP {
		return true
	}
	for _, a := range t.Args {
		if hasFP(a, seen) {
			return true
		}
	}
	return false
}

func termVars(t *Term, out map[string]bool, seen map[*Term]bool) {
	if seen[t] {
		return
	}
	seen[t] = true
	if t.Op == "var" {
		out[t.Name] = true
	}
	for _, a := range t.Args {
		termVars(a, out, seen)
	}
}

// coneOfInfluence keeps the path conditions that (transitively) share variables with the goals.
func coneOfInfluence(pc, goals []*Term) []*Term {
	vars := map[string]bool{}
	for _, g := range goals {
		termVars(g, vars, map[*Term]bool{})
	}
	pcVars := make([]map[string]bool, len(pc))
	for i, c := range pc {
		pcVars[i] = map[string]bool{}
		termVars(c, pcVars[i], map[*Term]bool{})
	}
	used := make([]bool, len(pc))
	for changed := true; changed; {
		changed = false
		for i := range pc {
			if used[i] {
				continue
			}
			for v := range pcVars[i] {
				if vars[v] {
					used[i] = true
					changed = true
					for w := range pcVars[i] {
						vars[w] = true
					}
					break
				}
			}
		}
	}
	var out []*Term
	for i, c := range pc {
		if used[i] {
			out = append(out, c)
		}
	}
	return out
}

var oneShotMu sync.Mutex
var oneShotCache = map[string]string{}
var oneShotN int

// OneShot decides pc ∧ extra in a fresh, non-incremental solver process (z3's incremental core is
// far slower on floating-point queries than its one-shot tactic pipeline). Only the cone of
// influence of the goal is sent; unsat verdicts are cached by query text.
func OneShot(pc, extra []*Term, vars []*Term, timeoutMs int, parent *Solver) (string, map[string]uint64) {
	pc = coneOfInfluence(pc, extra)
	var key strings.Builder
	for _, c := range pc {
		key.WriteString(c.String())
		key.WriteString(";")
	}
	key.WriteString("|")
	for _, c := range extra {
		key.WriteString(c.String())
		key.WriteString(";")
	}
	oneShotMu.Lock()
	if res, ok := oneShotCache[key.String()]; ok && res == "unsat" {
		oneShotMu.Unlock()
		return res, nil
	}
	oneShotN++
	n := oneShotN
	oneShotMu.Unlock()
	logPath := ""
	if d := os.Getenv("VERIF_SMTLOG"); d != "" {
		logPath = fmt.Sprintf("%s/oneshot_%d.smt2", d, n)
	}
	script, vrefs := oneShotScript(pc, extra, vars)
	if logPath != "" {
		os.WriteFile(logPath, []byte(script), 0o644)
	}
	t0 := time.Now()
	// z3 first (short cap), then cvc5 (much better at satisfiable FP queries), then the newer z3
	res, model := runScript("z3", []string{fmt.Sprintf("-T:%d", 25)}, script, vrefs)
	if res == "unknown" {
		res, model = runScript("cvc5", []string{"--produce-models", fmt.Sprintf("--tlimit=%d", timeoutMs)}, "(set-logic ALL)\n"+script, vrefs)
	}
	if res == "unknown" {
		res, model = runScript("z3-new", []string{fmt.Sprintf("-T:%d", timeoutMs/1000)}, script, vrefs)
	}
	parent.account(res, t0)
	oneShotMu.Lock()
	oneShotCache[key.String()] = res
	oneShotMu.Unlock()
	return res, model
}

type nopCloser struct{ *strings.Builder }

func (nopCloser) Close() error { return nil }

// oneShotScript renders the query as a self-contained SMT-LIB script.
func oneShotScript(pc, extra []*Term, vars []*Term) (string, []string) {
	var sb strings.Builder
	s := &Solver{in: nopCloser{&sb}, defined: map[*Term]string{}, declared: map[string]Sort{}}
	s.send("(declare-fun strlen (Int) (_ BitVec 64))")
	for _, c := range pc {
		s.Assert(c)
	}
	for _, c := range extra {
		s.Assert(c)
	}
	var vrefs []string
	for _, v := range vars {
		if !v.Const {
			vrefs = append(vrefs, s.ref(v))
		}
	}
	s.send("(check-sat)")
	if len(vrefs) > 0 {
		s.send("(get-value (" + strings.Join(vrefs, " ") + "))")
	}
	return sb.String(), vrefs
}

func runScript(bin string, args []string, script string, vrefs []string) (string, map[string]uint64) {
	f, err := os.CreateTemp("", "gosym_q*.smt2")
	if err != nil {
		return "unknown", nil
	}
	defer os.Remove(f.Name())
	f.WriteString(script)
	f.Close()
	out, _ := exec.Command(bin, append(args, f.Name())...).CombinedOutput()
	text := string(out)
	lines := strings.Split(strings.TrimSpace(text), "\n")
	res := "unknown"
	idx := -1
	for i, l := range lines {
		l = strings.TrimSpace(l)
		if l == "sat" || l == "unsat" {
			res = l
			idx = i
			break
		}
		if l == "unknown" || l == "timeout" {
			break
		}
	}
	if res != "sat" {
		return res, nil
	}
	model := map[string]uint64{}
	parseModel(strings.Join(lines[idx+1:], "\n"), model)
	return res, model
}

func oneShotWith(bin string, args []string, pc, extra []*Term, vars []*Term, timeoutMs int, parent *Solver, logPath string) (string, map[string]uint64) {
	s, err := NewSolver(bin, args, logPath, parent.seed, timeoutMs)
	if err != nil {
		return "unknown", nil
	}
	defer s.Close()
	t0 := time.Now()
	for _, c := range pc {
		s.Assert(c)
	}
	for _, c := range extra {
		s.Assert(c)
	}
	var vrefs []string
	for _, v := range vars {
		if !v.Const {
			vrefs = append(vrefs, s.ref(v))
		}
	}
	s.send("(check-sat)")
	res := s.readAnswer()
	var model map[string]uint64
	if res == "sat" {
		model = map[string]uint64{}
		for i := 0; i < len(vrefs); i += 50 {
			j := i + 50
			if j > len(vrefs) {
				j = len(vrefs)
			}
			s.send("(get-value (" + strings.Join(vrefs[i:j], " ") + "))")
			parseModel(s.readSexp(), model)
		}
	}
	parent.account(res, t0)
	return res, model
}
