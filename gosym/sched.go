package main

// Cooperative symbolic goroutines: exactly one runs at a time, until it blocks or returns.
// Each symbolic goroutine is a real goroutine holding a baton.

import (
	"fmt"
	"sync"
)

const (
	gRunnable = iota
	gBlocked
	gDone
	gSettling
)

type G struct {
	id      int
	state   int
	resume  chan struct{}
	waitOn  string
	isMain  bool
	sleepT  *Term // due time when sleeping
	callTop string
}

type Sched struct {
	r       *Run
	gs      []*G
	cur     *G
	aborted bool
	done    chan struct{} // run finished (main done, deadlock, or fatal)
	doneOnce sync.Once
	wg      sync.WaitGroup
	fatal   interface{}
	deadlock bool
	mainDone bool
}

func newSched(r *Run) *Sched {
	return &Sched{r: r, done: make(chan struct{})}
}

func (s *Sched) finish() {
	s.doneOnce.Do(func() { close(s.done) })
}

// spawn creates a new goroutine running f; it does not start running until scheduled.
func (s *Sched) spawn(name string, f func()) *G {
	g := &G{id: len(s.gs), state: gRunnable, resume: make(chan struct{}, 1), callTop: name}
	s.gs = append(s.gs, g)
	s.wg.Add(1)
	go func() {
		defer s.wg.Done()
		<-g.resume
		if s.aborted {
			return
		}
		defer func() {
			if p := recover(); p != nil {
				if _, ok := p.(abortRun); ok {
					return
				}
				// fatal for the whole run (unsupported, escaped panic, path end ...)
				if s.fatal == nil {
					s.fatal = p
				}
				g.state = gDone
				s.finish()
				return
			}
		}()
		f()
		g.state = gDone
		if g.isMain {
			s.mainDone = true
			s.finish()
			return
		}
		s.handoff(g)
	}()
	return g
}

// pick the next goroutine to run: lowest-id runnable; else a settling one.
func (s *Sched) pick() *G {
	if s.r.schedBudget > 0 && !s.r.allSchedules {
		// delay-bounded exploration: the default is the canonical choice (first runnable goroutine);
		// every other choice spends one unit of the budget set by vf.Deviations
		var run []*G
		for _, g := range s.gs {
			if g.state == gRunnable {
				run = append(run, g)
			}
		}
		if len(run) > 1 {
			c := s.r.chooseN(len(run))
			if c != 0 {
				s.r.schedBudget--
				s.r.schedForks++
				s.r.selectForks++
			}
			return run[c]
		}
	}
	if s.r.allSchedules {
		// non-preemptive schedule exploration: fork over which runnable goroutine continues
		var run []*G
		for _, g := range s.gs {
			if g.state == gRunnable {
				run = append(run, g)
			}
		}
		if len(run) > 1 {
			s.r.schedForks++
			s.r.selectForks++
			return run[s.r.chooseN(len(run))]
		}
	}
	for _, g := range s.gs {
		if g.state == gRunnable {
			return g
		}
	}
	for _, g := range s.gs {
		if g.state == gSettling {
			g.state = gRunnable
			return g
		}
	}
	return nil
}

// handoff is called by a goroutine that is done: pass the baton on.
func (s *Sched) handoff(self *G) {
	for {
		next := s.pick()
		if next != nil {
			s.cur = next
			next.resume <- struct{}{}
			return
		}
		if s.r.autoAdvance() {
			continue
		}
		s.deadlock = true
		s.finish()
		return
	}
}

// block suspends the current goroutine (state must already be set by caller to gBlocked or gSettling)
func (s *Sched) yield(self *G) {
	for {
		next := s.pick()
		if next == self {
			s.cur = self
			return
		}
		if next != nil {
			s.cur = next
			next.resume <- struct{}{}
			break
		}
		if s.r.autoAdvance() {
			continue
		}
		// nobody can run: deadlock
		s.deadlock = true
		s.finish()
		break
	}
	<-self.resume
	if s.aborted {
		panic(abortRun{})
	}
	s.cur = self
}

// preemptPoint: with schedule exploration on, every synchronisation operation is a point where
// another runnable goroutine may be chosen to continue instead (forked).
func (s *Sched) preemptPoint() {
	if s.cur == nil {
		return
	}
	if !s.r.allSchedules && s.r.schedBudget > 0 {
		// delay-bounded mode: continuing is free, handing over to another runnable goroutine at this
		// lock operation costs one unit
		var others []*G
		for _, g := range s.gs {
			if g.state == gRunnable && g != s.cur {
				others = append(others, g)
			}
		}
		if len(others) == 0 {
			return
		}
		c := s.r.chooseN(len(others) + 1)
		if c == 0 {
			return
		}
		s.r.schedBudget--
		s.r.schedForks++
		s.r.selectForks++
		self := s.cur
		self.state = gRunnable
		next := others[c-1]
		s.cur = next
		next.resume <- struct{}{}
		<-self.resume
		if s.aborted {
			panic(abortRun{})
		}
		s.cur = self
		return
	}
	if !s.r.allSchedules {
		return
	}
	n := 0
	for _, g := range s.gs {
		if g.state == gRunnable && g != s.cur {
			n++
		}
	}
	if n == 0 {
		return
	}
	g := s.cur
	g.state = gRunnable
	s.yield(g)
}

func (s *Sched) block(why string) {
	g := s.cur
	g.state = gBlocked
	g.waitOn = why
	s.yield(g)
}

func (s *Sched) wake(g *G) {
	if g.state == gBlocked {
		g.state = gRunnable
	}
}

// settle: run every other goroutine until all are blocked or done.
func (s *Sched) settle() {
	g := s.cur
	g.state = gSettling
	s.yield(g)
}

func (s *Sched) abortAll() {
	s.aborted = true
	for _, g := range s.gs {
		select {
		case g.resume <- struct{}{}:
		default:
		}
	}
	s.wg.Wait()
}

func (s *Sched) blockedSummary() string {
	out := ""
	for _, g := range s.gs {
		if g.state == gBlocked {
			out += fmt.Sprintf("[g%d %s: %s] ", g.id, g.callTop, g.waitOn)
		}
	}
	return out
}

// ---------------- channels

type selState struct {
	done    bool
	chosen  int
	recvVal Value
	recvOk  bool
	closedPanic bool
}

type waiter struct {
	g    *G
	sel  *selState
	idx  int
	val  Value // value to send
}

type ChanObj struct {
	cap    int
	buf    []Value
	closed bool
	recvq  []*waiter
	sendq  []*waiter
	elemZero func() Value
	name   string
}

func liveWaiter(q *[]*waiter) *waiter {
	for len(*q) > 0 {
		w := (*q)[0]
		if w.sel.done {
			*q = (*q)[1:]
			continue
		}
		return w
	}
	return nil
}

func (c *ChanObj) sendReady() bool {
	if c == nil {
		return false
	}
	return c.closed || liveWaiter(&c.recvq) != nil || len(c.buf) < c.cap
}

func (c *ChanObj) recvReady() bool {
	if c == nil {
		return false
	}
	return len(c.buf) > 0 || liveWaiter(&c.sendq) != nil || c.closed
}

// doSend performs a ready send (caller checked sendReady).
func (r *Run) doSend(c *ChanObj, v Value) {
	if c.closed {
		panic(targetPanic{v: r.runtimeErr("send on closed channel")})
	}
	if w := liveWaiter(&c.recvq); w != nil {
		c.recvq = c.recvq[1:]
		w.sel.done = true
		w.sel.chosen = w.idx
		w.sel.recvVal = v
		w.sel.recvOk = true
		r.sched.wake(w.g)
		return
	}
	c.buf = append(c.buf, v)
}

// doRecv performs a ready receive.
func (r *Run) doRecv(c *ChanObj) (Value, bool) {
	if len(c.buf) > 0 {
		v := c.buf[0]
		c.buf = c.buf[1:]
		if w := liveWaiter(&c.sendq); w != nil {
			c.sendq = c.sendq[1:]
			c.buf = append(c.buf, w.val)
			w.sel.done = true
			w.sel.chosen = w.idx
			r.sched.wake(w.g)
		}
		return v, true
	}
	if w := liveWaiter(&c.sendq); w != nil {
		c.sendq = c.sendq[1:]
		w.sel.done = true
		w.sel.chosen = w.idx
		r.sched.wake(w.g)
		return w.val, true
	}
	// closed
	return c.elemZero(), false
}

func (r *Run) chanSend(c *ChanObj, v Value) {
	if c == nil {
		r.sched.block("send on nil channel")
		panic(unsupported("woken from nil channel send"))
	}
	if c.sendReady() {
		r.doSend(c, v)
		return
	}
	st := &selState{}
	c.sendq = append(c.sendq, &waiter{g: r.sched.cur, sel: st, idx: 0, val: v})
	for !st.done {
		r.sched.block("chan send " + c.name)
	}
	if st.closedPanic {
		panic(targetPanic{v: r.runtimeErr("send on closed channel")})
	}
}

func (r *Run) chanRecv(c *ChanObj) (Value, bool) {
	if c == nil {
		r.sched.block("recv on nil channel")
		panic(unsupported("woken from nil channel recv"))
	}
	if c.recvReady() {
		return r.doRecv(c)
	}
	st := &selState{}
	c.recvq = append(c.recvq, &waiter{g: r.sched.cur, sel: st, idx: 0})
	for !st.done {
		r.sched.block("chan recv " + c.name)
	}
	return st.recvVal, st.recvOk
}

func (r *Run) chanClose(c *ChanObj) {
	if c == nil {
		panic(targetPanic{v: r.runtimeErr("close of nil channel")})
	}
	if c.closed {
		panic(targetPanic{v: r.runtimeErr("close of closed channel")})
	}
	c.closed = true
	for {
		w := liveWaiter(&c.recvq)
		if w == nil {
			break
		}
		c.recvq = c.recvq[1:]
		w.sel.done = true
		w.sel.chosen = w.idx
		w.sel.recvVal = c.elemZero()
		w.sel.recvOk = false
		r.sched.wake(w.g)
	}
	for {
		w := liveWaiter(&c.sendq)
		if w == nil {
			break
		}
		c.sendq = c.sendq[1:]
		w.sel.done = true
		w.sel.chosen = w.idx
		w.sel.closedPanic = true
		r.sched.wake(w.g)
	}
}

type selCase struct {
	ch   *ChanObj
	send bool
	val  Value
}

// selectOp returns chosen index (-1 default), received value and ok.
func (r *Run) selectOp(cases []selCase, blocking bool) (int, Value, bool) {
	var ready []int
	for i, c := range cases {
		if c.send {
			if c.ch.sendReady() {
				ready = append(ready, i)
			}
		} else if c.ch.recvReady() {
			ready = append(ready, i)
		}
	}
	if len(ready) > 0 {
		if len(ready) > 1 {
			r.selectForks++
		}
		k := ready[r.chooseN(len(ready))]
		c := cases[k]
		if c.send {
			r.doSend(c.ch, c.val)
			return k, nil, false
		}
		v, ok := r.doRecv(c.ch)
		return k, v, ok
	}
	if !blocking {
		return -1, nil, false
	}
	st := &selState{}
	for i, c := range cases {
		if c.ch == nil {
			continue
		}
		w := &waiter{g: r.sched.cur, sel: st, idx: i, val: c.val}
		if c.send {
			c.ch.sendq = append(c.ch.sendq, w)
		} else {
			c.ch.recvq = append(c.ch.recvq, w)
		}
	}
	for !st.done {
		r.sched.block("select")
	}
	if st.closedPanic {
		panic(targetPanic{v: r.runtimeErr("send on closed channel")})
	}
	return st.chosen, st.recvVal, st.recvOk
}
