package main

// Models of sync primitives and the virtual clock.

type lockState struct {
	writer  bool
	readers int
	owner   *G
	name    string
}

func (r *Run) lockOf(p *Value) *lockState {
	if p == nil {
		panic(targetPanic{v: r.runtimeErr("invalid memory address or nil pointer dereference")})
	}
	l, ok := r.locks[p]
	if !ok {
		l = &lockState{}
		r.locks[p] = l
	}
	return l
}

func (r *Run) mutexLock(p *Value) {
	r.sched.preemptPoint()
	l := r.lockOf(p)
	for l.writer || l.readers > 0 {
		r.sched.block("mutex Lock")
	}
	l.writer = true
	l.owner = r.sched.cur
}

func (r *Run) mutexTryLock(p *Value) bool {
	l := r.lockOf(p)
	if l.writer || l.readers > 0 {
		return false
	}
	l.writer = true
	l.owner = r.sched.cur
	return true
}

func (r *Run) wakeAllBlocked(why string) {
	for _, g := range r.sched.gs {
		if g.state == gBlocked && g.waitOn == why {
			g.state = gRunnable
		}
	}
}

func (r *Run) mutexUnlock(p *Value) {
	l := r.lockOf(p)
	if !l.writer {
		panic(fatalErr{"sync: unlock of unlocked mutex"})
	}
	l.writer = false
	l.owner = nil
	r.wakeAllBlocked("mutex Lock")
	r.wakeAllBlocked("mutex RLock")
}

func (r *Run) mutexRLock(p *Value) {
	r.sched.preemptPoint()
	l := r.lockOf(p)
	for l.writer {
		r.sched.block("mutex RLock")
	}
	l.readers++
}

func (r *Run) mutexTryRLock(p *Value) bool {
	l := r.lockOf(p)
	if l.writer {
		return false
	}
	l.readers++
	return true
}

func (r *Run) mutexRUnlock(p *Value) {
	l := r.lockOf(p)
	if l.readers <= 0 {
		panic(fatalErr{"sync: RUnlock of unlocked RWMutex"})
	}
	l.readers--
	r.wakeAllBlocked("mutex Lock")
}

// fatalErr is a Go runtime fatal error (not recoverable by the target program).
type fatalErr struct{ msg string }

type condState struct {
	waiters []*condWaiter
}
type condWaiter struct {
	g      *G
	woken  bool
}

func (r *Run) condOf(p *Value) *condState {
	c, ok := r.conds[p]
	if !ok {
		c = &condState{}
		r.conds[p] = c
	}
	return c
}

type wgState struct {
	n int64
}

func (r *Run) wgOf(p *Value) *wgState {
	w, ok := r.wgs[p]
	if !ok {
		w = &wgState{}
		r.wgs[p] = w
	}
	return w
}

type onceState struct {
	state int // 0 fresh, 1 running, 2 done
}

func (r *Run) onceOf(p *Value) *onceState {
	o, ok := r.onces[p]
	if !ok {
		o = &onceState{}
		r.onces[p] = o
	}
	return o
}

// ---------------- virtual clock

type timer struct {
	due     *Term
	period  *Term // nil for one-shot
	ch      *ChanObj
	fn      Value // AfterFunc callback
	stopped bool
	fired   bool
	obj     *Value // the time.Timer / time.Ticker struct slot
	label   string
}

// advance moves the clock forward by d and fires due timers (in creation order).
func (r *Run) advance(d *Term) {
	target := tBVBin("bvadd", r.nowT, d)
	// With concrete times the clock moves from one due instant to the next (letting the woken
	// goroutines run in between, so that timers they create are relative to that instant and not to
	// the end of the step). With symbolic times it jumps (the lemmas that use symbolic amounts
	// advance by exactly the amounts they reason about).
	if r.nowT.Const && target.Const {
		for iter := 0; iter < 100000; iter++ {
			var next *Term
			consider := func(due *Term) {
				if due == nil || !due.Const {
					return
				}
				if due.Signed() > r.nowT.Signed() && due.Signed() < target.Signed() {
					if next == nil || due.Signed() < next.Signed() {
						next = due
					}
				}
			}
			for _, t := range r.timers {
				if t.stopped || (t.fired && t.period == nil) {
					continue
				}
				consider(t.due)
			}
			for _, g := range r.sched.gs {
				if g.state == gBlocked && g.sleepT != nil {
					consider(g.sleepT)
				}
			}
			if next == nil {
				break
			}
			r.nowT = next
			r.fireTimers()
			r.sched.settle()
		}
	}
	r.nowT = target
	r.fireTimers()
}

func (r *Run) fireTimers() {
	for progress := true; progress; {
		progress = false
		for _, t := range r.timers {
			if t.stopped || (t.fired && t.period == nil) {
				continue
			}
			due := tBVCmp("bvsle", t.due, r.nowT)
			if !r.branch(due) {
				continue
			}
			scheduled := t.due // the value delivered on the channel is the scheduled instant
			if t.period == nil {
				t.fired = true
			} else {
				// next tick one period after the previous one; if that is already over (slow
				// receiver, ticks are dropped) restart from the current instant
				t.due = tBVBin("bvadd", t.due, t.period)
				if r.branch(tBVCmp("bvsle", t.due, r.nowT)) {
					t.due = tBVBin("bvadd", r.nowT, t.period)
				}
			}
			if t.fn != nil {
				fn := t.fn
				r.goCall(fn, nil, "timer func")
			} else if t.ch != nil {
				if len(t.ch.buf) < t.ch.cap || liveWaiter(&t.ch.recvq) != nil {
					r.doSend(t.ch, r.timeValue(scheduled))
				}
			}
			progress = progress || t.period == nil
		}
	}
	// sleepers
	for _, g := range r.sched.gs {
		if g.state == gBlocked && g.sleepT != nil {
			if r.branch(tBVCmp("bvsle", g.sleepT, r.nowT)) {
				g.sleepT = nil
				g.state = gRunnable
			}
		}
	}
}

// autoAdvance: when nothing can run and some goroutine sleeps (time.Sleep), move the clock to the
// earliest concrete wake-up time. Bounded per run.
func (r *Run) autoAdvance() bool {
	if r.autoAdv >= 64 {
		return false
	}
	var best *Term
	for _, g := range r.sched.gs {
		if g.state == gBlocked && g.sleepT != nil && g.sleepT.Const {
			if best == nil || g.sleepT.Signed() < best.Signed() {
				best = g.sleepT
			}
		}
	}
	if best == nil {
		return false
	}
	r.autoAdv++
	if best.Signed() > r.nowT.Signed() || !r.nowT.Const {
		r.nowT = best
	}
	r.fireTimers()
	return true
}

const hasMonotonic = uint64(1) << 63

// timeValue builds a time.Time struct {wall, ext, loc} with the monotonic flag and ext = ns.
func (r *Run) timeValue(ns *Term) Value {
	return Struct{mkBV(64, hasMonotonic), ns, (*Value)(nil)}
}

func isMonoTime(v Value) (*Term, bool) {
	s, ok := v.(Struct)
	if !ok || len(s) != 3 {
		return nil, false
	}
	w, ok := s[0].(*Term)
	if !ok || !w.Const || w.V != hasMonotonic {
		return nil, false
	}
	return s[1].(*Term), true
}
