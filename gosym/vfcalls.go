package main

import (
	"fmt"
	"go/constant"
	"go/token"
	"go/types"

	"golang.org/x/tools/go/ssa"
)

var vfPrefix = "github.com/aptpod/iscp-go/internal/vf."

func strArg(v Value) string {
	s := v.(Str)
	if !s.IsConst {
		panic(unsupported("vf label must be a constant string"))
	}
	return s.C
}

func (r *Run) newInput(label, kind string, s Sort) *Term {
	for _, in := range r.inputs {
		if in.Label == label {
			panic(unsupported("duplicate vf input label " + label))
		}
	}
	t := mkVar(s, "in_"+sanitize(label)+fmt.Sprintf("_%d", len(r.inputs)))
	r.inputs = append(r.inputs, inputRec{Label: label, Kind: kind, Term: t})
	return t
}

func (r *Run) callVF(caller *frame, pos token.Pos, fn *ssa.Function, args []Value) Value {
	switch fn.Name() {
	case "U8":
		return r.newInput(strArg(args[0]), "u8", bvSort(8))
	case "U16":
		return r.newInput(strArg(args[0]), "u16", bvSort(16))
	case "U32":
		return r.newInput(strArg(args[0]), "u32", bvSort(32))
	case "U64":
		return r.newInput(strArg(args[0]), "u64", bvSort(64))
	case "I32":
		return r.newInput(strArg(args[0]), "i32", bvSort(32))
	case "I64", "Int":
		return r.newInput(strArg(args[0]), "i64", bvSort(64))
	case "Bool":
		return r.newInput(strArg(args[0]), "bool", boolSort)
	case "Str":
		return Str{Atom: r.newInput(strArg(args[0]), "str", strSort)}
	case "Bytes":
		label := strArg(args[0])
		max := r.concInt(args[1], "vf.Bytes max")
		lt := r.newInput(label+".len", "u64", bvSort(64))
		r.assume(tBVCmp("bvule", lt, mkBV(64, uint64(max))))
		n := r.concretize(lt, "vf.Bytes length")
		return r.symBytes(label, int(n.V))
	case "BytesN":
		label := strArg(args[0])
		n := r.concInt(args[1], "vf.BytesN n")
		return r.symBytes(label, int(n))
	case "Dur":
		// duration built from symbolic (s, ms, ns): d = s*1e9 + ms*1e6 + ns with 0 <= s <= maxS,
		// 0 <= ms < 1000, 0 <= ns < 1e6. Division / remainder of d by 1e9 and 1e6 are answered from the
		// components (side lemma discharged in integer arithmetic), so that no 64-bit division by
		// 10^6 / 10^9 is bit-blasted.
		label := strArg(args[0])
		maxS := r.concInt(args[1], "vf.Dur maxSeconds")
		if maxS < 0 || maxS > 1<<32 {
			panic(unsupported("vf.Dur: bad maxSeconds"))
		}
		if !r.m.krLemma(maxS) {
			r.inconclusive = append(r.inconclusive, "vf.Dur side lemma not discharged")
		}
		sec := r.newInput(label+".s", "i64", bvSort(64))
		ms := r.newInput(label+".ms", "i64", bvSort(64))
		ns := r.newInput(label+".ns", "i64", bvSort(64))
		r.assume(tAnd(tBVCmp("bvsge", sec, mkBV(64, 0)), tBVCmp("bvsle", sec, mkBV(64, uint64(maxS)))))
		r.assume(tAnd(tBVCmp("bvsge", ms, mkBV(64, 0)), tBVCmp("bvslt", ms, mkBV(64, 1000))))
		r.assume(tAnd(tBVCmp("bvsge", ns, mkBV(64, 0)), tBVCmp("bvslt", ns, mkBV(64, 1000000))))
		sub := tBVBin("bvadd", tBVBin("bvmul", ms, mkBV(64, 1000000)), ns) // d % 1e9
		d := tBVBin("bvadd", tBVBin("bvmul", sec, mkBV(64, 1000000000)), sub)
		totalMs := tBVBin("bvadd", tBVBin("bvmul", sec, mkBV(64, 1000)), ms)
		r.krBound[sec], r.krBound[ms], r.krBound[totalMs] = maxS, 999, maxS*1000+999
		r.kr[d] = krInfo{div: map[int64]*Term{1000000000: sec, 1000000: totalMs},
			rem: map[int64]*Term{1000000000: sub, 1000000: ns}}
		r.durOf[d] = durInfo{sec: sec, sub: sub, maxS: maxS}
		r.kr[sub] = krInfo{div: map[int64]*Term{1000000: ms, 1000000000: mkBV(64, 0)}, rem: map[int64]*Term{1000000: ns, 1000000000: sub}}
		return d
	case "Defined":
		pkg := r.m.prog.ImportedPackage(strArg(args[0]))
		if pkg == nil {
			panic(unsupported("vf.Defined: package not loaded: " + strArg(args[0])))
		}
		tn := strArg(args[1])
		v := args[2].(*Term)
		res := tFalse
		n := 0
		sc := pkg.Pkg.Scope()
		for _, name := range sc.Names() {
			c, ok := sc.Lookup(name).(*types.Const)
			if !ok {
				continue
			}
			nt, ok := c.Type().(*types.Named)
			if !ok || nt.Obj().Name() != tn {
				continue
			}
			iv, ok := constant.Int64Val(constant.ToInt(c.Val()))
			if !ok {
				continue
			}
			n++
			res = tOr(res, tEq(v, mkBV(64, uint64(iv))))
		}
		if n == 0 {
			panic(unsupported("vf.Defined: no constants of type " + tn))
		}
		return res
	case "OpaqueBytes":
		return Slice{S: []Value{}, SymLen: args[0].(*Term)}
	case "Choose":
		label := strArg(args[0])
		n := int(r.concInt(args[1], "vf.Choose n"))
		k := r.chooseN(n)
		r.inputs = append(r.inputs, inputRec{Label: label, Kind: "choose", IsC: true, Conc: int64(k)})
		return mkBV(64, uint64(k))
	case "Assume":
		c := args[0].(*Term)
		if c.Const {
			if !c.Bool() {
				panic(pathEnd{"assume-false"})
			}
			return nil
		}
		if r.m.solver.Check(c) != "sat" {
			panic(pathEnd{"assume-false"})
		}
		r.assume(c)
		return nil
	case "Assert":
		r.obligation(strArg(args[0]), args[1].(*Term), pos)
		return nil
	case "Reach":
		r.reached[strArg(args[0])] = true
		return nil
	case "Known":
		r.known = append(r.known, knownRec{ID: strArg(args[0]), Cond: args[1].(*Term)})
		return nil
	case "Panics":
		return r.vfPanics(caller, args[0])
	case "Settle":
		r.sched.settle()
		return nil
	case "Blocked":
		done := false
		f := args[0]
		r.sched.spawn("vf.Blocked", func() {
			defer func() {
				if p := recover(); p != nil {
					if tp, ok := p.(targetPanic); ok {
						panic(escapedPanic{tp, "vf.Blocked"})
					}
					panic(p)
				}
			}()
			r.call(nil, token.NoPos, f, nil)
			done = true
		})
		r.sched.settle()
		return mkBool(!done)
	case "Amplify":
		return args[0]
	case "Stub":
		f := args[1]
		if iv, ok := f.(Iface); ok {
			f = iv.V
		}
		r.stubs[strArg(args[0])] = f
		return nil
	case "Deviations":
		r.schedBudget = int(r.concInt(args[0], "vf.Deviations k"))
		return nil
	case "Leaked":
		r.sched.settle()
		out := ""
		for _, g := range r.sched.gs {
			if g.state != gDone && g != r.sched.cur {
				out += fmt.Sprintf("[g%d %s: %s] ", g.id, g.callTop, g.waitOn)
			}
		}
		return constStr(out)
	case "Advance":
		r.advance(args[0].(*Term))
		r.sched.settle()
		return nil
	case "Unlocked":
		l := args[0].(Iface)
		p := l.V.(*Value)
		st := r.lockOf(p)
		return mkBool(!st.writer && st.readers == 0)
	case "RUnlocked":
		st := r.lockOf(args[0].(*Value))
		return mkBool(!st.writer && st.readers == 0)
	case "DeepEqual":
		return r.deepEqual(args[0], args[1], 0)
	case "CanonEqual":
		r.canon = true
		defer func() { r.canon = false }()
		return r.deepEqual(args[0], args[1], 0)
	case "Observe":
		return nil
	case "AllSchedules":
		r.allSchedules = args[0].(*Term).Bool()
		return nil
	case "AllMapOrders":
		r.mapOrderAll = args[0].(*Term).Bool()
		return nil
	case "Symbolic":
		return tTrue
	}
	panic(unsupported("vf." + fn.Name()))
}

func (r *Run) symBytes(label string, n int) Value {
	s := make([]Value, n)
	for i := range s {
		s[i] = r.newInput(fmt.Sprintf("%s[%d]", label, i), "u8", bvSort(8))
	}
	return Slice{S: s}
}

func (r *Run) vfPanics(caller *frame, f Value) (res Value) {
	defer func() {
		if p := recover(); p != nil {
			if _, ok := p.(targetPanic); ok {
				res = tTrue
				return
			}
			panic(p)
		}
	}()
	r.call(caller, token.NoPos, f, nil)
	return tFalse
}
